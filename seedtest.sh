#!/bin/bash
# usage: ./seedtest.sh <seed-dir-name> [ID] [tier]  — applies the seeded change to /repo, runs the property's check,
# reverts /repo. Prints DETECTED / MISSED.
S=$1; ID=${2:-${S:0:3}}; TIER=${3:-quick}
cd /verif
if ! git -C /repo diff --quiet; then echo "REFUSING: /repo has uncommitted changes"; exit 3; fi
P=/verif/seeded/$S/patch.diff
[ -f /verif/seeded/$S/patch.ported.diff ] && P=/verif/seeded/$S/patch.ported.diff
if ! git -C /repo apply $P 2>/dev/null; then
  if ! git -C /repo apply --3way $P 2>/dev/null; then echo "$S: PATCH-DOES-NOT-APPLY"; git -C /repo reset -q --hard HEAD; exit 4; fi
  git -C /repo reset -q
fi
./run $ID $TIER > .cache/seed_$S.log 2>&1; rc=$?
git -C /repo checkout -q -- .
if [ $rc -eq 1 ] && grep -q "^VIOLATION property=$ID" .cache/seed_$S.log; then echo "$S: DETECTED by $ID $TIER ($(grep -c '^  violation key' .cache/seed_$S.log) keys: $(grep '^  violation key' .cache/seed_$S.log | head -2 | cut -c1-160 | tr '\n' '|'))"; else echo "$S: MISSED by $ID $TIER (exit $rc)"; fi
