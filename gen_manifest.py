#!/usr/bin/env python3
"""Regenerates MANIFEST.json from checks.json (the per-check metadata)."""
import json,os
root=os.path.dirname(os.path.abspath(__file__))
checks=json.load(open(os.path.join(root,'checks.json')))
props=[json.loads(l) for l in open(os.path.join(root,'properties.jsonl'))]
m={"version":1,
 "setup_cmd":"./setup.sh",
 "hooks":{"guard":"verif","enable":"go build -tags verif -overlay <generated at check time> (the overlay only ADDS /repo/zz_verif_export.go re-exporting unexported identifiers, and for clock/scheduler checks replaces files with mechanically rewritten copies of the CURRENT /repo source); nothing is committed to /repo for hooks",
  "baseline_off_cmd":"for m in . ./fsim ./sqlite ./tpm; do (cd /repo/$m && go test -mod=mod -json -vet=off -count=1 -timeout 25m ./...); done",
  "source_commits":[],"add_only":True},
 "engines":[
  {"name":"explore","path":"internal/explore","serves_properties":["C01","C02","C03","C06","C07","C08","C18"],"kind_free_text":"deviation-bounded DFS / explicit-state BFS over the real handlers"},
  {"name":"workers","path":"internal/workers","serves_properties":["C10","C12"],"kind_free_text":"index-space sharding over crash-isolated subprocesses with per-case attribution"},
  {"name":"refcbor+cbormut","path":"internal/refcbor","serves_properties":["C04","C10","C11","C12"],"kind_free_text":"independent reference CBOR codec and enumerating structure-aware mutator"},
  {"name":"lab","path":"internal/lab","serves_properties":["C01","C02","C03","C05","C06","C07","C08","C09","C10","C16","C17","C19"],"kind_free_text":"in-process deployment of the real handler/responders/clients with an adversarial RoundTripper and journaling store"},
 ],
 "checks":[], "not_applicable":[], "notes":"Every check is `./run <ID> <tier>`: it regenerates the overlay from /repo's current tree, rebuilds the harness against it and explores exhaustively within the bounds stated in evidence. known_findings.json lists genuine defects (open) and repaired ones (fixed)."}
for p in props:
    c=checks.get(p['id'])
    if c and c.get('claimed'):
        m['checks'].append({"property_id":p['id'],"quick_cmd":"./run %s quick"%p['id'],"thorough_cmd":"./run %s thorough"%p['id'],
          "evidence_file":"/verif/evidence/%s.json"%p['id'],"replay_cmd_template":"./run %s quick --replay {path}"%p['id'],
          "engine":c.get('engine',''),"level_claimed":{"category":c['category'],"text":c['text'],"design_ref":"DESIGN.md §2 "+p['id']},
          "level_note":c['note'],"technique":c['technique']})
    else:
        m['not_applicable'].append({"property_id":p['id'],"reason":(c or {}).get('reason',"check not built yet in this round (planned: see DESIGN.md §2 %s); not claimed until its harness exists and passes on the unchanged tree"%p['id'])})
json.dump(m,open(os.path.join(root,'MANIFEST.json'),'w'),indent=1)
print(len(m['checks']),'claimed;',len(m['not_applicable']),'not applicable')
