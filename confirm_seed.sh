#!/bin/bash
# usage: confirm_seed.sh <outdir with patch.diff, meta.json, demo> <name>
# Confirms a seeded change in a fresh scratch worktree of /repo HEAD: suites pass with the change, the demo fails
# with it and passes without it. Writes <outdir>/confirm.log; prints VERDICT.
OUT="$1"; NAME="$2"; WT=/tmp/cf/$NAME
export GOFLAGS=-mod=mod GOPROXY=off
rm -rf "$WT"; mkdir -p /tmp/cf; git -C /repo worktree add -q --detach "$WT" HEAD || exit 2
L="$OUT/confirm.log"; : > "$L"
meta() { python3 -c "import json,sys;print(json.load(open('$OUT/meta.json')).get('$1',''))"; }
DEMO=$(meta demo_file); DIR=$(meta demo_dir); RE=$(meta demo_test_regex); RACE=$(meta demo_needs_race_flag)
cd "$WT"
echo "== apply patch" >> "$L"; git apply "$OUT/patch.diff" >> "$L" 2>&1 || { echo "VERDICT=PATCH-DOES-NOT-APPLY" | tee -a "$L"; cd /; git -C /repo worktree remove --force "$WT"; exit 1; }
echo "== full suite with patch" >> "$L"; suite=pass
for m in . ./fsim ./sqlite ./tpm; do (cd $m && go test -vet=off -count=1 -timeout 25m ./... 2>&1 | grep -E "^(FAIL|---|panic)" ) >> "$L" && suite=fail; done
echo "suite_with_patch=$suite" >> "$L"
RF=""; [ "$RACE" = "True" ] && RF="-race"
cp "$OUT/$DEMO" "$WT/$DIR/"
moddir="$WT"; case "$DIR" in fsim*|sqlite*|tpm*) moddir="$WT/${DIR%%/*}";; esac
pkg="./${DIR#fsim}"; case "$DIR" in fsim|sqlite|tpm) pkg=".";; fsim/*|sqlite/*|tpm/*) pkg="./${DIR#*/}";; *) pkg="./$DIR";; esac
[ "$DIR" = "." ] && pkg="."
(cd "$moddir" && go test -vet=off -count=1 $RF -run "$RE" "$pkg" >> "$L" 2>&1); w=$?; echo "demo_with_patch_exit=$w" >> "$L"
git apply -R "$OUT/patch.diff"
(cd "$moddir" && go test -vet=off -count=1 $RF -run "$RE" "$pkg" >> "$L" 2>&1); wo=$?; echo "demo_without_patch_exit=$wo" >> "$L"
v=REJECTED; [ "$suite" = pass ] && [ $w -ne 0 ] && [ $wo -eq 0 ] && v=CONFIRMED
echo "VERDICT=$v" | tee -a "$L"
cd /; git -C /repo worktree remove --force "$WT"
