#!/bin/bash
# usage: ./pseed.sh [-j N] [-t tier] [-c ID] <seed-dir-name>...
# Runs seeded changes against their property's check WITHOUT touching /repo: every seed gets a scratch worktree of
# /repo HEAD (patch applied) and a scratch copy of /verif, bind-mounted over /repo and /verif in a private mount
# namespace (unshare -m), so several seeds run in parallel and the registered paths stay valid inside the check.
# Prints one DETECTED / MISSED line per seed. Scratch trees are removed afterwards.
J=3; TIER=quick; CID=""
while getopts "j:t:c:" o; do case $o in j) J=$OPTARG;; t) TIER=$OPTARG;; c) CID=$OPTARG;; esac; done; shift $((OPTIND-1))
ROOT=/tmp/ps; mkdir -p $ROOT
one() {
  S=$1; ID=${CID:-${S:0:3}}; W=$ROOT/$S.$ID.$TIER; rm -rf "$W"; mkdir -p "$W"
  P=/verif/seeded/$S/patch.diff; [ -f /verif/seeded/$S/patch.ported.diff ] && P=/verif/seeded/$S/patch.ported.diff
  [ -f "$P" ] || P=$S   # a bare patch file path is accepted too
  git -C /repo worktree prune; git -C /repo worktree add -q -f --detach "$W/repo" HEAD || { echo "$S: WORKTREE-FAILED"; return; }
  if ! git -C "$W/repo" apply "$P" 2>/dev/null; then echo "$S: PATCH-DOES-NOT-APPLY"; git -C /repo worktree remove --force "$W/repo"; rm -rf "$W"; return; fi
  rsync -a --exclude .git --exclude '.cache/overlay' --exclude '.cache/*.log' --exclude replays /verif/ "$W/verif/"
  L=/verif/.cache/pseed_$(basename $S).$ID.$TIER.log
  timeout -k 10 2700 unshare -m sh -c "mount --bind $W/repo /repo && mount --bind $W/verif /verif && cd /verif && ./run $ID $TIER" > "$L" 2>&1; rc=$?
  if [ $rc -eq 1 ] && grep -q "^VIOLATION property=$ID" "$L"; then echo "$(basename $S): DETECTED by $ID $TIER ($(grep -c '^  violation key' "$L") keys: $(grep '^  violation key' "$L" | head -2 | cut -c1-140 | tr '\n' '|'))"; else echo "$(basename $S): MISSED by $ID $TIER (exit $rc) $(grep -E '^(SUMMARY|HARNESS)' "$L" | head -1 | cut -c1-160)"; fi
  git -C /repo worktree remove --force "$W/repo"; rm -rf "$W"
}
export -f one; export ROOT TIER CID
printf '%s\n' "$@" | xargs -P "$J" -I{} bash -c 'one {}'
git -C /repo worktree prune
