//go:build verif

package kex

// Injected by /verif/run with `go build -overlay` only; never part of /repo.

import (
	"crypto"

	"github.com/fido-device-onboard/go-fdo/internal/nistkdf"
)

// XKDF re-exports the internal SP 800-108 KDF.
func XKDF(hash crypto.Hash, shSe, contextRand []byte, bits uint16) []byte {
	return nistkdf.KDF(hash, shSe, contextRand, bits)
}
