//go:build verif

package fdo

// This file is never part of /repo: it is injected with `go build -overlay` by /verif/run and only
// re-exports unexported identifiers that the verification harnesses need.

import (
	"context"

	"github.com/fido-device-onboard/go-fdo/kex"
	"github.com/fido-device-onboard/go-fdo/protocol"
	"github.com/fido-device-onboard/go-fdo/serviceinfo"
)

type (
	XHelloDeviceMsg         = helloDeviceMsg
	XOvhProof               = ovhProof
	XOvEntry                = ovEntry
	XDeviceSetup            = deviceSetup
	XDeviceServiceInfoReady = deviceServiceInfoReady
	XOwnerServiceInfoReady  = ownerServiceInfoReady
	XDeviceServiceInfo      = deviceServiceInfo
	XOwnerServiceInfo       = ownerServiceInfo
	XDoneMsg                = doneMsg
	XDone2Msg               = done2Msg
	XTo0d                   = to0d
	XOwnerSign              = ownerSign
	XTo0Ack                 = to0Ack
	XTo0AcceptOwner         = to0AcceptOwner
	XHelloRV                = helloRV
	XRvAck                  = rvAck
	XSetCredentialsMsg      = setCredentialsMsg
	XEatoken                = eatoken
	XSigInfo                = sigInfo
)

// XExchangeServiceInfo re-exports the device-side service info loop.
func XExchangeServiceInfo(ctx context.Context, transport Transport, proveDvNonce, setupDvNonce protocol.Nonce, mtu uint16,
	initInfo *serviceinfo.ChunkReader, sess kex.Session, c *TO2Config) error {
	return exchangeServiceInfo(ctx, transport, proveDvNonce, setupDvNonce, mtu, initInfo, sess, c)
}

// XExchangeServiceInfoRound re-exports one device-side round.
func XExchangeServiceInfoRound(ctx context.Context, transport Transport, mtu uint16,
	r *serviceinfo.ChunkReader, w *serviceinfo.ChunkWriter, sess kex.Session) (int, bool, error) {
	return exchangeServiceInfoRound(ctx, transport, mtu, r, w, sess)
}

// XNewEAT re-exports newEAT.
func XNewEAT(guid protocol.GUID, nonce protocol.Nonce, fdoClaim any) XEatoken {
	return newEAT(guid, nonce, fdoClaim, nil)
}

// XContext prepares a context the way the exported entry points (TO2, DI, ...) do before calling the internals.
func XContext(ctx context.Context) context.Context { return contextWithErrMsg(ctx) }
