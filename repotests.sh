#!/bin/bash
# Runs the repository's own test suites (all four modules) on /repo's working tree; prints one line per failing package.
export GOFLAGS=-mod=mod GOPROXY=off
rc=0
for m in . ./fsim ./sqlite ./tpm; do
  out=$(cd /repo/$m && go test -vet=off -count=1 -timeout 25m ./... 2>&1) || { rc=1; echo "$out" | grep -E "^(FAIL|---|panic|ok)" | grep -v "^ok" | head -20; }
done
[ $rc = 0 ] && echo "REPO-TESTS: all pass" || echo "REPO-TESTS: FAILURES"
exit $rc
