#!/bin/bash
# Offline setup: warm the Go build cache for every harness and generate the key ring.
set -u
cd /verif || exit 1
export GOFLAGS=-mod=mod GOPROXY=off
mkdir -p .cache/bin .cache/overlay .cache/keys evidence
cat /repo/go.sum /repo/sqlite/go.sum 2>/dev/null | sort -u > go.sum
printf '{"Replace":{"/repo/zz_verif_export.go":"/verif/overlay/fdo_export.go","/repo/kex/zz_verif_export.go":"/verif/overlay/kex_export.go"}}\n' > .cache/overlay/setup.json
rc=0
go build -tags verif -overlay .cache/overlay/setup.json -o .cache/bin/keygen ./cmd/keygen && .cache/bin/keygen || rc=1
for d in checks/*/; do
  n=$(basename "$d")
  go build -tags verif -overlay .cache/overlay/setup.json -o .cache/bin/$n ./checks/$n 2>&1 | tail -n 5 || rc=1
done
exit $rc
