#!/bin/bash
# Offline setup: warm the Go build cache for every harness (with the overlay each check uses), generate the key
# ring, and self-test the source rewriter: the repository's own serviceinfo, kex, nistkdf and root-package tests
# must pass against the rewritten sources with the scheduler shims in pass-through mode.
set -u
cd /verif || exit 1
export GOFLAGS=-mod=mod GOPROXY=off
mkdir -p .cache/bin .cache/overlay .cache/keys evidence
cat /repo/go.sum /repo/sqlite/go.sum 2>/dev/null | sort -u > go.sum
printf '{"Replace":{"/repo/zz_verif_export.go":"/verif/overlay/fdo_export.go","/repo/kex/zz_verif_export.go":"/verif/overlay/kex_export.go"}}\n' > .cache/overlay/setup.json
rc=0
go build -tags verif -overlay .cache/overlay/setup.json -o .cache/bin/keygen ./cmd/keygen && .cache/bin/keygen || rc=1
for d in checks/*/; do
  n=$(basename "$d")
  ovl=.cache/overlay/setup.json
  if [ -x "checks/$n/overlay.sh" ]; then
    ovl=.cache/overlay/$n.json
    "checks/$n/overlay.sh" "$ovl" || { echo "setup: overlay for $n failed"; rc=1; continue; }
  fi
  go build -tags verif -overlay "$ovl" -o .cache/bin/$n ./checks/$n 2>&1 | tail -n 5 || rc=1
done
# rewriter self-test (pass-through mode): the repository's tests against the rewritten sources
if [ -f .cache/overlay/c19.json ]; then
  for pkg in ./serviceinfo/ ./kex/ ./internal/nistkdf/ .; do
    (cd /repo && go test -vet=off -count=1 -overlay /verif/.cache/overlay/c19.json "$pkg" 2>&1 | tail -n 3) | grep -q "^ok" || { echo "setup: rewriter self-test failed for $pkg"; rc=1; }
  done
fi
(cd /verif && go test ./internal/vsync/ ./internal/explore/ 2>&1 | tail -n 3)
exit $rc
