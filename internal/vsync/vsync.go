// Package vsync provides cooperative, explorer-controlled replacements for Go's synchronisation constructs
// (goroutines, channels, select, sync.Mutex, sync.WaitGroup, io.Pipe, context cancellation). The verification
// build rewrites the library's source to use them (see cmd/rewrite); it is injected into the go-fdo module with
// `go build -overlay` and is never part of /repo.
//
// With no scheduler installed every shim is a thin wrapper over the real primitive (pass-through mode), so
// rewritten code behaves exactly as before. Inside Run exactly one thread runs at a time and every shim operation
// is a scheduling point whose outcome the explorer decides.
package vsync

import (
	"context"
	"fmt"
	"io"
	"reflect"
	"runtime"
	"runtime/debug"
	"sync"
	"sync/atomic"
)

// ---------------------------------------------------------------- scheduler

// Chooser is the explorer's choice function: returns a value in [0,n); cost is the deviation cost of taking a
// non-zero alternative.
type Chooser func(n, cost int) int

type thread struct {
	id      int
	name    string
	wake    chan struct{}
	pending *op
	done    bool
	abort   bool
}

type op struct {
	kind    string
	obj     any
	enabled func() bool
	perform func()
}

// Sched is one controlled execution.
type Sched struct {
	choose   Chooser
	threads  []*thread
	cur      *thread
	steps    int
	horizon  int
	Deadlock bool
	Livelock bool
	Blocked  []string // description of blocked threads at deadlock
	Panics   []string
	Switches int
	Preempts int
	finished chan struct{}
	aborting bool
	abortMu  sync.Mutex // guards done flags, Panics and the wake-ups while threads unwind side by side
	finOnce  sync.Once
	Trace    []string
	progress map[int]int // per thread: number of operations performed
	total    int
}

func (s *Sched) othersProgress(id int) int { return s.total - s.progress[id] }

// TraceOn makes schedulers record every performed operation (for replaying one schedule with an explanation).
var TraceOn bool

var active atomic.Pointer[Sched]

type abortSignal struct{}

// Result of a controlled execution.
type Result struct {
	Deadlock bool
	Livelock bool
	Blocked  []string
	Panics   []string
	Steps    int
	Preempts int
	Threads  int
	Trace    []string
}

// Run executes main as thread 0 under a new scheduler and returns when every thread has finished, or a deadlock
// or the step horizon was reached (remaining threads are then aborted).
func Run(choose Chooser, horizon int, main func()) Result {
	s := &Sched{choose: choose, horizon: horizon, finished: make(chan struct{}), progress: map[int]int{}}
	if !active.CompareAndSwap(nil, s) {
		panic("vsync: nested Run")
	}
	t := s.newThread("main")
	s.cur = t
	go s.body(t, main)
	t.wake <- struct{}{}
	<-s.finished
	active.Store(nil)
	return Result{Deadlock: s.Deadlock, Livelock: s.Livelock, Blocked: s.Blocked, Panics: s.Panics, Steps: s.steps, Preempts: s.Preempts, Threads: len(s.threads), Trace: s.Trace}
}

func (s *Sched) newThread(name string) *thread {
	t := &thread{id: len(s.threads), name: name, wake: make(chan struct{}, 1)}
	s.threads = append(s.threads, t)
	return t
}

func (s *Sched) body(t *thread, f func()) {
	<-t.wake
	defer func() {
		r := recover()
		s.abortMu.Lock()
		if r != nil {
			if _, ok := r.(abortSignal); !ok && !s.aborting {
				s.Panics = append(s.Panics, fmt.Sprintf("thread %d (%s): %v\n%s", t.id, t.name, r, trimStack(debug.Stack())))
			}
		}
		t.done = true
		t.pending = nil
		s.abortMu.Unlock()
		s.dispatch(t)
	}()
	if t.abort {
		panic(abortSignal{})
	}
	f()
}

func trimStack(b []byte) string {
	if len(b) > 1500 {
		b = b[:1500]
	}
	return string(b)
}

// point is called by the running thread with its pending operation; it returns after the operation was performed.
func (s *Sched) point(o *op) {
	if s.aborting {
		// an operation attempted while the execution is being torn down (deferred calls of an unwinding thread):
		// keep unwinding; nothing is scheduled any more
		panic(abortSignal{})
	}
	t := s.cur
	t.pending = o
	s.dispatch(t)
	if t.abort {
		panic(abortSignal{})
	}
}

// dispatch picks the next thread, performs its operation and transfers control. Called by the current thread (at a
// point or when finishing). Blocks the caller until it is scheduled again (unless it is done).
func (s *Sched) dispatch(self *thread) {
	if s.aborting {
		s.abortNext(self)
		return
	}
	s.steps++
	var enabled []*thread
	if self.pending != nil && !self.done && self.pending.enabled() {
		enabled = append(enabled, self)
	}
	for _, t := range s.threads {
		if t != self && !t.done && t.pending != nil && t.pending.enabled() {
			enabled = append(enabled, t)
		}
	}
	if s.horizon > 0 && s.steps > s.horizon {
		s.Livelock = true
		s.startAbort(self)
		return
	}
	if len(enabled) == 0 {
		alive := false
		for _, t := range s.threads {
			if !t.done {
				alive = true
				s.Blocked = append(s.Blocked, fmt.Sprintf("thread %d (%s) blocked on %s", t.id, t.name, t.pending.kind))
			}
		}
		if alive {
			s.Deadlock = true
			s.startAbort(self)
			return
		}
		close(s.finished)
		return
	}
	selfEnabled := enabled[0] == self
	cost := 0
	if selfEnabled && len(enabled) > 1 {
		cost = 1 // switching away from a thread that could continue is a preemption
	}
	k := 0
	if len(enabled) > 1 {
		k = s.choose(len(enabled), cost)
	}
	next := enabled[k]
	if next != self {
		s.Switches++
		if selfEnabled {
			s.Preempts++
		}
	}
	o := next.pending
	next.pending = nil
	s.cur = next
	s.progress[next.id]++
	s.total++
	if TraceOn {
		s.Trace = append(s.Trace, fmt.Sprintf("t%d(%s): %s [enabled %d]", next.id, next.name, o.kind, len(enabled)))
	}
	o.perform()
	if next == self {
		return
	}
	next.wake <- struct{}{}
	if !self.done {
		<-self.wake
	}
}

func (s *Sched) startAbort(self *thread) {
	s.abortMu.Lock()
	s.aborting = true
	for _, t := range s.threads {
		t.abort = true
	}
	s.abortMu.Unlock()
	s.abortNext(self)
}

// abortNext wakes every thread that has not finished so that it unwinds (each panics with abortSignal where it
// waits; operations its deferred calls attempt panic again in point), and reports the end of the execution once
// all of them are done. The verdict (deadlock, horizon) was fixed before the teardown began, so the order in which
// threads unwind does not matter.
func (s *Sched) abortNext(self *thread) {
	s.abortMu.Lock()
	defer s.abortMu.Unlock()
	all := true
	for _, t := range s.threads {
		if t.done {
			continue
		}
		all = false
		if t != self {
			select {
			case t.wake <- struct{}{}:
			default:
			}
		}
	}
	if all {
		s.finOnce.Do(func() { close(s.finished) })
	}
}

func cur() *Sched { return active.Load() }

// StmtYields switches the statement-level scheduling points (inserted by the source rewriter) on or off.
var StmtYields = true

// StmtYield is the scheduling point the rewriter puts before every statement of selected files.
func StmtYield() {
	if StmtYields {
		Yield()
	}
}

// Yield is an explicit scheduling point.
func Yield() {
	if s := cur(); s != nil {
		s.point(&op{kind: "yield", enabled: func() bool { return true }, perform: func() {}})
	}
}

// Pause blocks the calling thread until some other thread has performed a step (the model of "wait until
// something changes": a poll loop calls it instead of spinning, so that waiting is visible to the scheduler and a
// poller whose peers are all blocked is reported as a deadlock).
func Pause() {
	s := cur()
	if s == nil {
		runtime.Gosched()
		return
	}
	me := s.cur
	mark := s.othersProgress(me.id)
	s.point(&op{kind: "pause (poll)", enabled: func() bool { return s.othersProgress(me.id) > mark }, perform: func() {}})
}

// Go starts f as a new thread.
func Go(f func()) {
	s := cur()
	if s == nil {
		go f()
		return
	}
	t := s.newThread(fmt.Sprintf("go#%d", len(s.threads)))
	t.pending = &op{kind: "start", enabled: func() bool { return true }, perform: func() {}}
	go s.body(t, f)
	s.point(&op{kind: "go", enabled: func() bool { return true }, perform: func() {}})
}

// ---------------------------------------------------------------- channels and select

// waitState is shared by all cases of one blocked operation (a plain send/recv is a one-case select).
type waitState struct {
	done   bool
	chosen int
}

type sendEntry[T any] struct {
	st  *waitState
	idx int
	v   T
}

type recvEntry[T any] struct {
	st  *waitState
	idx int
	v   *T
	ok  *bool
}

// Chan is the shim for `chan T`.
type Chan[T any] struct {
	real   chan T
	cap    int
	buf    []T
	closed bool
	sendq  []*sendEntry[T] // blocked senders (plain sends and send cases of blocked selects)
	recvq  []*recvEntry[T]
}

// NewChan is `make(chan T, n)`.
func NewChan[T any](n int) *Chan[T] { return &Chan[T]{real: make(chan T, n), cap: n} }

func (c *Chan[T]) activeSender(self *waitState) *sendEntry[T] {
	for _, e := range c.sendq {
		if !e.st.done && e.st != self {
			return e
		}
	}
	return nil
}

func (c *Chan[T]) activeRecver(self *waitState) *recvEntry[T] {
	for _, e := range c.recvq {
		if !e.st.done && e.st != self {
			return e
		}
	}
	return nil
}

func (c *Chan[T]) canSend(self *waitState) bool {
	return c.closed || len(c.buf) < c.cap || c.activeRecver(self) != nil
}

func (c *Chan[T]) canRecv(self *waitState) bool {
	return len(c.buf) > 0 || c.closed || c.activeSender(self) != nil
}

// doSend performs a send that is known to be possible; it reports whether the sender must panic (closed channel).
func (c *Chan[T]) doSend(self *waitState, v T) bool {
	if c.closed {
		return true
	}
	if e := c.activeRecver(self); e != nil && len(c.buf) == 0 {
		*e.v, *e.ok = v, true
		e.st.done, e.st.chosen = true, e.idx
		c.compact()
		return false
	}
	c.buf = append(c.buf, v)
	return false
}

// doRecv performs a receive that is known to be possible.
func (c *Chan[T]) doRecv(self *waitState) (v T, ok bool) {
	if len(c.buf) > 0 {
		v = c.buf[0]
		c.buf = c.buf[1:]
		if e := c.activeSender(self); e != nil { // a blocked sender's value moves into the freed slot
			c.buf = append(c.buf, e.v)
			e.st.done, e.st.chosen = true, e.idx
			c.compact()
		}
		return v, true
	}
	if e := c.activeSender(self); e != nil {
		v = e.v
		e.st.done, e.st.chosen = true, e.idx
		c.compact()
		return v, true
	}
	return v, false // closed and drained
}

func (c *Chan[T]) compact() {
	s := c.sendq[:0]
	for _, e := range c.sendq {
		if !e.st.done {
			s = append(s, e)
		}
	}
	c.sendq = s
	r := c.recvq[:0]
	for _, e := range c.recvq {
		if !e.st.done {
			r = append(r, e)
		}
	}
	c.recvq = r
}

// Case is one select case.
type Case interface {
	register(st *waitState, idx int)
	ready(st *waitState) bool
	fire(st *waitState) (panics bool)
	reflCase() reflect.SelectCase
	setRecv(v reflect.Value, ok bool)
}

// RecvC is a receive case; after Select chose it, V and Ok hold the result.
type RecvC[T any] struct {
	c  *Chan[T]
	V  T
	Ok bool
}

// SendC is a send case.
type SendC[T any] struct {
	c *Chan[T]
	v T
}

// RecvCase builds `case v, ok := <-c`.
func RecvCase[T any](c *Chan[T]) *RecvC[T] { return &RecvC[T]{c: c} }

// SendCase builds `case c <- v`.
func SendCase[T any](c *Chan[T], v T) *SendC[T] { return &SendC[T]{c: c, v: v} }

func (r *RecvC[T]) register(st *waitState, idx int) {
	if r.c != nil {
		r.c.recvq = append(r.c.recvq, &recvEntry[T]{st: st, idx: idx, v: &r.V, ok: &r.Ok})
	}
}
func (r *RecvC[T]) ready(st *waitState) bool { return r.c != nil && r.c.canRecv(st) }
func (r *RecvC[T]) fire(st *waitState) bool  { r.V, r.Ok = r.c.doRecv(st); return false }
func (r *RecvC[T]) reflCase() reflect.SelectCase {
	if r.c == nil {
		return reflect.SelectCase{Dir: reflect.SelectRecv, Chan: reflect.ValueOf((chan T)(nil))}
	}
	return reflect.SelectCase{Dir: reflect.SelectRecv, Chan: reflect.ValueOf(r.c.real)}
}
func (r *RecvC[T]) setRecv(v reflect.Value, ok bool) {
	r.Ok = ok
	if ok {
		r.V = v.Interface().(T)
	}
}

func (s *SendC[T]) register(st *waitState, idx int) {
	if s.c != nil {
		s.c.sendq = append(s.c.sendq, &sendEntry[T]{st: st, idx: idx, v: s.v})
	}
}
func (s *SendC[T]) ready(st *waitState) bool { return s.c != nil && s.c.canSend(st) }
func (s *SendC[T]) fire(st *waitState) bool  { return s.c.doSend(st, s.v) }
func (s *SendC[T]) reflCase() reflect.SelectCase {
	if s.c == nil {
		return reflect.SelectCase{Dir: reflect.SelectSend, Chan: reflect.ValueOf((chan T)(nil)), Send: reflect.ValueOf(s.v)}
	}
	return reflect.SelectCase{Dir: reflect.SelectSend, Chan: reflect.ValueOf(s.c.real), Send: reflect.ValueOf(&s.v).Elem()}
}
func (s *SendC[T]) setRecv(reflect.Value, bool) {}

// Select performs a select over cases; hasDefault tells whether a default branch exists. It returns the index of
// the chosen case, or -1 for default.
func Select(hasDefault bool, cases ...Case) int {
	s := cur()
	if s == nil {
		rc := make([]reflect.SelectCase, len(cases), len(cases)+1)
		for i, c := range cases {
			rc[i] = c.reflCase()
		}
		if hasDefault {
			rc = append(rc, reflect.SelectCase{Dir: reflect.SelectDefault})
		}
		i, v, ok := reflect.Select(rc)
		if i == len(cases) {
			return -1
		}
		cases[i].setRecv(v, ok)
		return i
	}
	st := &waitState{chosen: -1}
	panics := false
	pick := func() bool {
		var ready []int
		for i, c := range cases {
			if c.ready(st) {
				ready = append(ready, i)
			}
		}
		if len(ready) == 0 {
			return false
		}
		k := 0
		if len(ready) > 1 {
			k = s.choose(len(ready), 0) // Go picks among ready cases at random: a free choice
		}
		st.chosen = ready[k]
		st.done = true
		panics = cases[st.chosen].fire(st)
		return true
	}
	// Phase A: the statement executes. It completes at once if a case is ready (or takes default); otherwise the
	// thread parks: only from this moment is it visible to its peers as a waiting sender/receiver. A thread that
	// has reached the statement but has not executed it yet is NOT parked (a peer's non-blocking send finds nobody).
	s.point(&op{kind: "select/chan op", enabled: func() bool { return true }, perform: func() {
		if pick() {
			return
		}
		if hasDefault {
			st.done = true // default
			return
		}
		for i, c := range cases {
			c.register(st, i)
		}
	}})
	if !st.done {
		// Phase B: parked until a peer completes one of the cases or one becomes ready.
		s.point(&op{kind: "parked in select/chan op", enabled: func() bool {
			if st.done {
				return true
			}
			for _, c := range cases {
				if c.ready(st) {
					return true
				}
			}
			return false
		}, perform: func() {
			if st.done {
				return // a peer completed one of our cases (value already delivered)
			}
			pick()
		}})
	}
	if panics {
		panic("send on closed channel")
	}
	return st.chosen
}

// Send is `c <- v`.
func (c *Chan[T]) Send(v T) {
	if cur() == nil {
		c.real <- v
		return
	}
	Select(false, SendCase(c, v))
}

// Recv is `<-c`.
func (c *Chan[T]) Recv() T { v, _ := c.Recv2(); return v }

// Recv2 is `v, ok := <-c`.
func (c *Chan[T]) Recv2() (T, bool) {
	if cur() == nil {
		v, ok := <-c.real
		return v, ok
	}
	r := RecvCase(c)
	Select(false, r)
	return r.V, r.Ok
}

// Close is `close(c)`.
func (c *Chan[T]) Close() {
	s := cur()
	if s == nil {
		close(c.real)
		return
	}
	double := false
	s.point(&op{kind: "chan close", obj: c, enabled: func() bool { return true }, perform: func() {
		if c.closed {
			double = true
			return
		}
		c.closed = true
	}})
	if double {
		panic("close of closed channel")
	}
}

// Len is len(c).
func (c *Chan[T]) Len() int {
	if cur() == nil {
		return len(c.real)
	}
	return len(c.buf)
}

// ---------------------------------------------------------------- mutex, waitgroup

// Mutex is the shim for sync.Mutex.
type Mutex struct {
	real   sync.Mutex
	locked bool
}

// Lock locks m.
func (m *Mutex) Lock() {
	s := cur()
	if s == nil {
		m.real.Lock()
		return
	}
	s.point(&op{kind: "mutex lock", obj: m, enabled: func() bool { return !m.locked }, perform: func() { m.locked = true }})
}

// Unlock unlocks m.
func (m *Mutex) Unlock() {
	s := cur()
	if s == nil {
		m.real.Unlock()
		return
	}
	bad := false
	s.point(&op{kind: "mutex unlock", obj: m, enabled: func() bool { return true }, perform: func() {
		if !m.locked {
			bad = true
		}
		m.locked = false
	}})
	if bad {
		panic("sync: unlock of unlocked mutex")
	}
}

// WaitGroup is the shim for sync.WaitGroup.
type WaitGroup struct {
	real sync.WaitGroup
	n    int
}

// Add adds delta.
func (w *WaitGroup) Add(delta int) {
	if cur() == nil {
		w.real.Add(delta)
		return
	}
	w.n += delta
}

// Done decrements the counter.
func (w *WaitGroup) Done() {
	s := cur()
	if s == nil {
		w.real.Done()
		return
	}
	s.point(&op{kind: "waitgroup done", enabled: func() bool { return true }, perform: func() { w.n-- }})
}

// Wait blocks until the counter is zero.
func (w *WaitGroup) Wait() {
	s := cur()
	if s == nil {
		w.real.Wait()
		return
	}
	s.point(&op{kind: "waitgroup wait", enabled: func() bool { return w.n <= 0 }, perform: func() {}})
}

// ---------------------------------------------------------------- context cancellation

type ctxKey struct{}

type cancelState struct {
	done   *Chan[struct{}]
	err    error
	parent *cancelState
	real   context.CancelFunc
}

// WithCancel is context.WithCancel with a shim Done channel.
func WithCancel(parent context.Context) (context.Context, context.CancelFunc) {
	rctx, rcancel := context.WithCancel(parent)
	st := &cancelState{done: NewChan[struct{}](0), real: rcancel}
	if p, ok := parent.Value(ctxKey{}).(*cancelState); ok {
		st.parent = p
	}
	ctx := context.WithValue(rctx, ctxKey{}, st)
	return ctx, func() {
		rcancel()
		if cur() == nil {
			return
		}
		if st.err == nil {
			st.err = context.Canceled
			st.done.Close()
		}
	}
}

// WithTimeout is context.WithTimeout; under the scheduler the timer never fires (no timing is modelled).
func WithTimeout(parent context.Context, d any) (context.Context, context.CancelFunc) {
	return WithCancel(parent)
}

// Done is ctx.Done() as a shim channel (nil if ctx was not made by this package: blocks forever, like a context that
// is never cancelled).
func Done(ctx context.Context) *Chan[struct{}] {
	if cur() == nil {
		// pass-through: adapt the real done channel
		c := &Chan[struct{}]{}
		ch := make(chan struct{})
		c.real = ch
		go func() { <-ctx.Done(); close(ch) }()
		return c
	}
	for st, _ := ctx.Value(ctxKey{}).(*cancelState); st != nil; st = st.parent {
		if st.err != nil || st.parent == nil {
			return st.done
		}
	}
	if st, ok := ctx.Value(ctxKey{}).(*cancelState); ok {
		return st.done
	}
	return nil
}

// Err is ctx.Err().
func Err(ctx context.Context) error {
	if cur() == nil {
		return ctx.Err()
	}
	for st, _ := ctx.Value(ctxKey{}).(*cancelState); st != nil; st = st.parent {
		if st.err != nil {
			return st.err
		}
	}
	return nil
}

// ---------------------------------------------------------------- io.Pipe (a port of io/pipe.go onto the shims)

type onceError struct {
	Mutex
	err error
}

func (a *onceError) Store(err error) {
	a.Lock()
	defer a.Unlock()
	if a.err != nil {
		return
	}
	a.err = err
}

func (a *onceError) Load() error {
	a.Lock()
	defer a.Unlock()
	return a.err
}

type pipe struct {
	wrMu Mutex
	wrCh *Chan[[]byte]
	rdCh *Chan[int]

	onceMu   Mutex
	doneOnce bool
	done     *Chan[struct{}]
	rerr     onceError
	werr     onceError
}

func (p *pipe) read(b []byte) (n int, err error) {
	if Select(true, RecvCase(p.done)) == 0 {
		return 0, p.readCloseError()
	}
	bw, d := RecvCase(p.wrCh), RecvCase(p.done)
	switch Select(false, bw, d) {
	case 0:
		nr := copy(b, bw.V)
		p.rdCh.Send(nr)
		return nr, nil
	default:
		return 0, p.readCloseError()
	}
}

func (p *pipe) closeRead(err error) error {
	if err == nil {
		err = io.ErrClosedPipe
	}
	p.rerr.Store(err)
	p.closeDone()
	return nil
}

func (p *pipe) closeDone() {
	p.onceMu.Lock()
	if !p.doneOnce {
		p.doneOnce = true
		p.onceMu.Unlock()
		p.done.Close()
		return
	}
	p.onceMu.Unlock()
}

func (p *pipe) write(b []byte) (n int, err error) {
	if Select(true, RecvCase(p.done)) == 0 {
		return 0, p.writeCloseError()
	}
	p.wrMu.Lock()
	defer p.wrMu.Unlock()
	for once := true; once || len(b) > 0; once = false {
		rd, d := RecvCase(p.rdCh), RecvCase(p.done)
		switch Select(false, SendCase(p.wrCh, b), d) {
		case 0:
			_ = rd
			nw := p.rdCh.Recv()
			b = b[nw:]
			n += nw
		default:
			return n, p.writeCloseError()
		}
	}
	return n, nil
}

func (p *pipe) closeWrite(err error) error {
	if err == nil {
		err = io.EOF
	}
	p.werr.Store(err)
	p.closeDone()
	return nil
}

func (p *pipe) readCloseError() error {
	rerr := p.rerr.Load()
	if werr := p.werr.Load(); rerr == nil && werr != nil {
		return werr
	}
	return io.ErrClosedPipe
}

func (p *pipe) writeCloseError() error {
	werr := p.werr.Load()
	if rerr := p.rerr.Load(); werr == nil && rerr != nil {
		return rerr
	}
	return io.ErrClosedPipe
}

// PipeReader is the read half of a pipe.
type PipeReader struct{ pipe }

// Read implements io.Reader.
func (r *PipeReader) Read(data []byte) (n int, err error) { return r.pipe.read(data) }

// Close closes the reader.
func (r *PipeReader) Close() error { return r.CloseWithError(nil) }

// CloseWithError closes the reader; subsequent writes return err.
func (r *PipeReader) CloseWithError(err error) error { return r.pipe.closeRead(err) }

// PipeWriter is the write half of a pipe.
type PipeWriter struct{ r PipeReader }

// Write implements io.Writer.
func (w *PipeWriter) Write(data []byte) (n int, err error) { return w.r.pipe.write(data) }

// Close closes the writer.
func (w *PipeWriter) Close() error { return w.CloseWithError(nil) }

// CloseWithError closes the writer; subsequent reads return err.
func (w *PipeWriter) CloseWithError(err error) error { return w.r.pipe.closeWrite(err) }

// Pipe is io.Pipe.
func Pipe() (*PipeReader, *PipeWriter) {
	pw := &PipeWriter{r: PipeReader{pipe: pipe{
		wrCh: NewChan[[]byte](0),
		rdCh: NewChan[int](0),
		done: NewChan[struct{}](0),
	}}}
	return &pw.r, pw
}
