package vsync_test

import (
	"fmt"
	"sort"
	"testing"
	"time"

	"verif/internal/explore"
	"verif/internal/vsync"
)

func outcomes(t *testing.T, bound int, body func(rec func(string))) (map[string]int, int, int) {
	out := map[string]int{}
	deadlocks := 0
	st := explore.Explore(bound, func(c *explore.Ctx) {
		var got []string
		res := vsync.Run(c.Choose, 10000, func() { body(func(s string) { got = append(got, s) }) })
		if res.Deadlock {
			deadlocks++
			got = append(got, "DEADLOCK")
		}
		for _, p := range res.Panics {
			got = append(got, "PANIC:"+p[:40])
		}
		out[fmt.Sprint(got)]++
	}, nil)
	if len(st.Diverged) > 0 {
		t.Fatalf("diverged: %v", st.Diverged)
	}
	return out, st.Executions, deadlocks
}

func TestRendezvousAndSelect(t *testing.T) {
	out, n, dl := outcomes(t, 3, func(rec func(string)) {
		a, b := vsync.NewChan[int](0), vsync.NewChan[int](0)
		done := vsync.NewChan[struct{}](0)
		vsync.Go(func() { a.Send(1) })
		vsync.Go(func() { b.Send(2) })
		vsync.Go(func() {
			for i := 0; i < 2; i++ {
				ra, rb := vsync.RecvCase(a), vsync.RecvCase(b)
				switch vsync.Select(false, ra, rb) {
				case 0:
					rec(fmt.Sprint("a", ra.V))
				case 1:
					rec(fmt.Sprint("b", rb.V))
				}
			}
			done.Close()
		})
		done.Recv()
	})
	var keys []string
	for k := range out {
		keys = append(keys, k)
	}
	sort.Strings(keys)
	t.Logf("executions=%d outcomes=%v deadlocks=%d", n, keys, dl)
	if len(out) != 2 || dl != 0 {
		t.Fatalf("expected exactly the two orders [a1 b2] and [b2 a1], got %v", keys)
	}
}

func TestLostUpdateNeedsPreemption(t *testing.T) {
	for bound, want := range map[int]int{0: 1, 1: 2} {
		out, _, _ := outcomes(t, bound, func(rec func(string)) {
			x := 0
			var wg vsync.WaitGroup
			wg.Add(2)
			for i := 0; i < 2; i++ {
				vsync.Go(func() {
					v := x
					vsync.Yield()
					x = v + 1
					wg.Done()
				})
			}
			wg.Wait()
			rec(fmt.Sprint(x))
		})
		if len(out) != want {
			t.Fatalf("bound %d: outcomes %v, want %d distinct", bound, out, want)
		}
	}
}

func TestDeadlockDetected(t *testing.T) {
	_, _, dl := outcomes(t, 2, func(rec func(string)) {
		var m1, m2 vsync.Mutex
		done := vsync.NewChan[int](2)
		vsync.Go(func() { m1.Lock(); m2.Lock(); m2.Unlock(); m1.Unlock(); done.Send(1) })
		vsync.Go(func() { m2.Lock(); m1.Lock(); m1.Unlock(); m2.Unlock(); done.Send(2) })
		done.Recv()
		done.Recv()
	})
	if dl == 0 {
		t.Fatal("lock-order deadlock not found")
	}
}

func TestPipeAndPassThrough(t *testing.T) {
	run := func() string {
		r, w := vsync.Pipe()
		res := vsync.NewChan[string](1)
		vsync.Go(func() {
			buf := make([]byte, 3)
			var all []byte
			for {
				n, err := r.Read(buf)
				all = append(all, buf[:n]...)
				if err != nil {
					break
				}
			}
			res.Send(string(all))
		})
		w.Write([]byte("hello"))
		w.Write([]byte(" world"))
		w.Close()
		return res.Recv()
	}
	if got := run(); got != "hello world" { // pass-through mode
		t.Fatalf("pass-through pipe: %q", got)
	}
	out, n, dl := outcomes(t, 2, func(rec func(string)) { rec(run()) })
	if len(out) != 1 || dl != 0 {
		t.Fatalf("pipe under scheduler: %v", out)
	}
	t.Logf("pipe executions=%d", n)
}

func TestSendOnClosedPanicsAndCloseWakesReceiver(t *testing.T) {
	out, _, _ := outcomes(t, 2, func(rec func(string)) {
		c := vsync.NewChan[int](0)
		d := vsync.NewChan[int](1)
		vsync.Go(func() { _, ok := c.Recv2(); rec(fmt.Sprint("recv ok=", ok)); d.Send(1) })
		c.Close()
		d.Recv()
		vsync.Go(func() { c.Send(1) })
		vsync.Yield()
	})
	for k := range out {
		if !contains(k, "recv ok=false") || !contains(k, "PANIC") {
			t.Fatalf("unexpected outcome %s", k)
		}
	}
}

func contains(s, sub string) bool {
	for i := 0; i+len(sub) <= len(s); i++ {
		if s[i:i+len(sub)] == sub {
			return true
		}
	}
	return false
}

// A thread that is torn down (deadlock) while its deferred calls use scheduler operations must not hang the teardown.
func TestAbortWithDeferredOps(t *testing.T) {
	done := make(chan vsync.Result, 1)
	go func() {
		done <- vsync.Run(func(n, cost int) int { return 0 }, 10000, func() {
			var mu vsync.Mutex
			c := vsync.NewChan[int](0)
			var wg vsync.WaitGroup
			for i := 0; i < 3; i++ {
				wg.Add(1)
				vsync.Go(func() {
					defer wg.Done()
					defer func() { mu.Lock(); mu.Unlock() }()
					c.Send(1) // nobody receives: deadlock
				})
			}
			defer func() { mu.Lock(); mu.Unlock() }()
			wg.Wait()
		})
	}()
	select {
	case r := <-done:
		if !r.Deadlock {
			t.Fatalf("expected deadlock, got %+v", r)
		}
	case <-time.After(10 * time.Second):
		t.Fatal("teardown hangs")
	}
}
