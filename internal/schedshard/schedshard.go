// Package schedshard fans a schedule exploration out over subprocesses of the same binary: the cooperative
// scheduler owns process-global state, so parallelism comes from processes, each exploring the first-level
// subtrees k with k mod n == shard (explore.ExploreShard). A child reports one JSON object on stdout.
package schedshard

import (
	"bytes"
	"encoding/json"
	"fmt"
	"os"
	"os/exec"
	"strconv"
	"strings"
	"sync"
	"time"
)

type Violation struct {
	Key    string `json:"key"`
	What   string `json:"what"`
	Replay any    `json:"replay"`
}

type Scenario struct {
	Name       string         `json:"name"`
	Bound      int            `json:"bound"`
	Executions int            `json:"executions"`
	MaxDepth   int            `json:"max_depth"`
	Steps      int64          `json:"steps"`
	Outcomes   map[string]int `json:"outcomes"`
}

type Report struct {
	Evals      int64       `json:"evals"`
	Violations []Violation `json:"violations"`
	Scenarios  []Scenario  `json:"scenarios"`
	Diverged   []string    `json:"diverged"`
	Capped     []string    `json:"capped"`
}

// Child reports whether this process is a shard worker, and which.
func Child() (shard, n int, tier string, ok bool) {
	v := os.Getenv("VERIF_SHARD")
	if v == "" {
		return 0, 1, "", false
	}
	p := strings.Split(v, "/")
	shard, _ = strconv.Atoi(p[0])
	n, _ = strconv.Atoi(p[1])
	return shard, n, os.Getenv("VERIF_TIER"), true
}

// Emit writes the child's report and exits.
func (r *Report) Emit() {
	b, _ := json.Marshal(r)
	os.Stdout.Write(append([]byte("\nSHARD-REPORT "), append(b, '\n')...))
	os.Exit(0)
}

// Fanout runs n shard children of this binary and merges their reports. A child that dies or times out is an
// error (the exploration is then not exhaustive and the caller must not claim it).
func Fanout(n int, tier string, timeout time.Duration) (Report, error) {
	exe, err := os.Executable()
	if err != nil {
		return Report{}, err
	}
	reports := make([]Report, n)
	errs := make([]error, n)
	var wg sync.WaitGroup
	for i := 0; i < n; i++ {
		wg.Add(1)
		go func(i int) {
			defer wg.Done()
			cmd := exec.Command(exe)
			cmd.Env = append(os.Environ(), fmt.Sprintf("VERIF_SHARD=%d/%d", i, n), "VERIF_TIER="+tier, "GOMAXPROCS=1")
			var out, errb bytes.Buffer
			cmd.Stdout, cmd.Stderr = &out, &errb
			if err := cmd.Start(); err != nil {
				errs[i] = err
				return
			}
			done := make(chan error, 1)
			go func() { done <- cmd.Wait() }()
			select {
			case err := <-done:
				if err != nil {
					tail := errb.String()
					if len(tail) > 2000 {
						tail = tail[len(tail)-2000:]
					}
					errs[i] = fmt.Errorf("shard %d: %v: %s", i, err, tail)
					return
				}
			case <-time.After(timeout):
				_ = cmd.Process.Kill()
				errs[i] = fmt.Errorf("shard %d: timeout after %s", i, timeout)
				return
			}
			idx := bytes.LastIndex(out.Bytes(), []byte("SHARD-REPORT "))
			if idx < 0 {
				errs[i] = fmt.Errorf("shard %d: no report", i)
				return
			}
			line := out.Bytes()[idx+len("SHARD-REPORT "):]
			if j := bytes.IndexByte(line, '\n'); j >= 0 {
				line = line[:j]
			}
			errs[i] = json.Unmarshal(line, &reports[i])
		}(i)
	}
	wg.Wait()
	var m Report
	for i := 0; i < n; i++ {
		if errs[i] != nil {
			return m, errs[i]
		}
		rp := reports[i]
		m.Evals += rp.Evals
		m.Violations = append(m.Violations, rp.Violations...)
		m.Diverged = append(m.Diverged, rp.Diverged...)
		m.Capped = append(m.Capped, rp.Capped...)
		for k, sc := range rp.Scenarios {
			if k >= len(m.Scenarios) {
				m.Scenarios = append(m.Scenarios, Scenario{Name: sc.Name, Bound: sc.Bound, Outcomes: map[string]int{}})
			}
			t := &m.Scenarios[k]
			t.Executions += sc.Executions
			t.Steps += sc.Steps
			if sc.MaxDepth > t.MaxDepth {
				t.MaxDepth = sc.MaxDepth
			}
			for o, c := range sc.Outcomes {
				t.Outcomes[o] += c
			}
		}
	}
	return m, nil
}
