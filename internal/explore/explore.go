// Package explore is the deviation-bounded stateless explorer: a harness body calls Choose(n) at every point
// of nondeterminism it owns; Explore re-runs the body on every choice sequence whose accumulated deviation
// cost stays within the bound. Choice 0 is always the default (honest / no fault) answer.
package explore

import (
	"fmt"
	"sync"
)

// Ctx is handed to the body on every execution.
type Ctx struct {
	prefix  []int
	Choices []int // choices actually taken
	sizes   []int
	costs   []int
	diverge string
}

// Choose returns a choice in [0,n). cost is what taking a non-default alternative at this point costs
// (0 = free choice, 1 = one deviation).
func (c *Ctx) Choose(n, cost int) int {
	i := len(c.Choices)
	v := 0
	if i < len(c.prefix) {
		v = c.prefix[i]
		if v >= n {
			c.diverge = fmt.Sprintf("replayed choice %d at point %d out of range %d", v, i, n)
			v = 0
		}
	}
	c.Choices = append(c.Choices, v)
	c.sizes = append(c.sizes, n)
	c.costs = append(c.costs, cost)
	return v
}

// Deviations returns the number of non-default choices taken so far that carry a cost.
func (c *Ctx) Deviations() int {
	d := 0
	for i, v := range c.Choices {
		if v != 0 {
			d += c.costs[i]
		}
	}
	return d
}

// Stats of an exploration.
type Stats struct {
	Executions int
	MaxDepth   int
	Diverged   []string
	Stopped    bool // Stop() answered true: the exploration was cut short (first counterexamples suffice)
}

// Stop, when set, is asked before every execution; true ends the current exploration early. A harness sets it to
// stop a scenario once it has committed a few counterexamples (each further execution of a broken tree can run to
// its step horizon), or at a wall-clock budget. An exploration that was stopped is not exhaustive (Stats.Stopped).
var Stop func() bool

// Explore runs body on every choice sequence within the deviation bound (DFS). After each execution visit is
// called with the context (so the harness can evaluate its oracle with the trace available).
func Explore(bound int, body func(c *Ctx), visit func(c *Ctx)) Stats {
	var st Stats
	var rec func(prefix []int)
	rec = func(prefix []int) {
		c := &Ctx{prefix: prefix}
		body(c)
		st.Executions++
		if len(c.Choices) > st.MaxDepth {
			st.MaxDepth = len(c.Choices)
		}
		if c.diverge != "" {
			st.Diverged = append(st.Diverged, c.diverge)
			return
		}
		if visit != nil {
			visit(c)
		}
		used := 0
		for i := 0; i < len(c.Choices); i++ {
			if i >= len(prefix) {
				for alt := 1; alt < c.sizes[i]; alt++ {
					if used+c.costs[i] > bound {
						break
					}
					np := append(append([]int{}, c.Choices[:i]...), alt)
					rec(np)
				}
			}
			if c.Choices[i] != 0 {
				used += c.costs[i]
			}
		}
	}
	rec(nil)
	return st
}

// Replay runs body once on a recorded choice list.
func Replay(choices []int, body func(c *Ctx)) *Ctx {
	c := &Ctx{prefix: choices}
	body(c)
	return c
}

// ExploreParallel is Explore with the subtrees below the first deviating choice distributed over workers.
// body and visit must be safe for concurrent use (each execution gets its own Ctx).
func ExploreParallel(bound, workers int, body func(c *Ctx), visit func(c *Ctx)) Stats {
	var st Stats
	var mu sync.Mutex
	root := &Ctx{}
	body(root)
	st.Executions, st.MaxDepth = 1, len(root.Choices)
	if root.diverge != "" {
		st.Diverged = append(st.Diverged, root.diverge)
		return st
	}
	if visit != nil {
		visit(root)
	}
	var prefixes [][]int
	if bound >= 1 {
		for i := 0; i < len(root.Choices); i++ {
			if root.costs[i] > bound {
				continue
			}
			for alt := 1; alt < root.sizes[i]; alt++ {
				prefixes = append(prefixes, append(append([]int{}, root.Choices[:i]...), alt))
			}
		}
	}
	jobs := make(chan []int, len(prefixes))
	for _, p := range prefixes {
		jobs <- p
	}
	close(jobs)
	var wg sync.WaitGroup
	for w := 0; w < workers; w++ {
		wg.Add(1)
		go func() {
			defer wg.Done()
			for p := range jobs {
				var rec func(prefix []int)
				rec = func(prefix []int) {
					c := &Ctx{prefix: prefix}
					body(c)
					mu.Lock()
					st.Executions++
					if len(c.Choices) > st.MaxDepth {
						st.MaxDepth = len(c.Choices)
					}
					if c.diverge != "" {
						st.Diverged = append(st.Diverged, c.diverge)
						mu.Unlock()
						return
					}
					mu.Unlock()
					if visit != nil {
						visit(c)
					}
					used := 0
					for i := 0; i < len(c.Choices); i++ {
						if i >= len(prefix) {
							for alt := 1; alt < c.sizes[i]; alt++ {
								if used+c.costs[i] > bound {
									break
								}
								rec(append(append([]int{}, c.Choices[:i]...), alt))
							}
						}
						if c.Choices[i] != 0 {
							used += c.costs[i]
						}
					}
				}
				rec(p)
			}
		}()
	}
	wg.Wait()
	return st
}

// ExploreShard is Explore restricted to shard `shard` of `n`. Nodes of the exploration tree at depth 0 and 1
// (the root execution and the executions with exactly one chosen alternative) are run by every shard, because their
// recorded choice points enumerate the subtrees below them, but each is counted and visited by one owner shard only;
// every subtree rooted at depth 2 is explored by exactly one shard (round-robin in DFS order). The union over all
// shards is exactly Explore's execution set, each execution visited once.
func ExploreShard(bound, shard, n int, body func(c *Ctx), visit func(c *Ctx)) Stats {
	var st Stats
	const splitDepth = 2
	counter := 0
	var rec func(prefix []int, depth int, owned bool)
	rec = func(prefix []int, depth int, owned bool) {
		if Stop != nil && Stop() {
			st.Stopped = true
			return
		}
		// owned: this whole subtree belongs to this shard. Otherwise (depth < splitDepth) the node is shared.
		mine := owned
		if !owned {
			mine = counter%n == shard
			counter++
		}
		c := &Ctx{prefix: prefix}
		body(c)
		if c.diverge != "" {
			st.Diverged = append(st.Diverged, c.diverge)
			return
		}
		if mine {
			st.Executions++
			if len(c.Choices) > st.MaxDepth {
				st.MaxDepth = len(c.Choices)
			}
			if visit != nil {
				visit(c)
			}
		}
		used := 0
		for i := 0; i < len(c.Choices); i++ {
			if i >= len(prefix) {
				for alt := 1; alt < c.sizes[i]; alt++ {
					if used+c.costs[i] > bound {
						break
					}
					np := append(append([]int{}, c.Choices[:i]...), alt)
					switch {
					case owned:
						rec(np, depth+1, true)
					case depth+1 < splitDepth:
						rec(np, depth+1, false)
					default:
						own := counter%n == shard
						counter++
						if own {
							rec(np, depth+1, true)
						}
					}
				}
			}
			if c.Choices[i] != 0 {
				used += c.costs[i]
			}
		}
	}
	rec(nil, 0, false)
	return st
}
