package explore
import ("testing";"fmt";"sort")
func body(c *Ctx) { // a small irregular tree
	a := c.Choose(3,1); b := c.Choose(2,0); if a==1 { c.Choose(4,1) }; if b==1 { c.Choose(2,1); c.Choose(3,1) }; c.Choose(2,1)
}
func TestShardUnion(t *testing.T) {
	for bound:=0; bound<=3; bound++ {
		var all []string
		Explore(bound, body, func(c *Ctx){ all = append(all, fmt.Sprint(c.Choices)) })
		for _, n := range []int{1,3,16} {
			var got []string
			for s:=0;s<n;s++ { ExploreShard(bound,s,n,body,func(c *Ctx){ got=append(got,fmt.Sprint(c.Choices)) }) }
			sort.Strings(all); sort.Strings(got)
			if fmt.Sprint(all)!=fmt.Sprint(got) { t.Fatalf("bound %d n %d: %d vs %d", bound,n,len(all),len(got)) }
		}
		t.Log(bound, len(all))
	}
}
