// Package ev is the common reporting layer of every check: tier/seed handling, known-findings lookup,
// replay-file writing, VIOLATION / KNOWN-FINDING lines, evidence JSON and exit status.
package ev

import (
	"crypto/sha256"
	"encoding/hex"
	"encoding/json"
	"flag"
	"fmt"
	"os"
	"path/filepath"
	"sort"
	"strconv"
	"sync"
	"sync/atomic"
	"time"
)

// Root is the /verif directory (overridable for tests of the machinery itself).
var Root = func() string {
	if r := os.Getenv("VERIF_ROOT"); r != "" {
		return r
	}
	return "/verif"
}()

// Finding is one entry of known_findings.json.
type Finding struct {
	Property string `json:"property"`
	Key      string `json:"key"`
	What     string `json:"what"`
	Status   string `json:"status"` // "open" or "fixed"
	Commit   string `json:"commit,omitempty"`
}

// Run is one execution of one check.
type Run struct {
	ID     string
	Level  string
	Tier   string
	Seed   int64
	Replay string // --replay path, if given

	start time.Time
	mu    sync.Mutex

	Evaluations atomic.Int64 // executions / cases
	States      atomic.Int64
	Transitions atomic.Int64
	Traces      atomic.Int64

	distinct    map[string]struct{}
	samples     []any
	assumptions []string
	extra       map[string]any
	rule        string
	exhaustive  bool
	capsHit     []string

	known      []Finding
	knownSeen  map[string]int
	violations map[string]*violation
	order      []string
}

type violation struct {
	Key    string `json:"key"`
	What   string `json:"what"`
	Replay any    `json:"replay"`
	Count  int    `json:"count"`
	path   string
}

// Quick reports whether the tier is "quick".
func (r *Run) Quick() bool { return r.Tier != "thorough" }

// Start parses flags/environment and loads the known-findings file.
func Start(id, level string) *Run {
	r := &Run{ID: id, Level: level, start: time.Now(), distinct: map[string]struct{}{}, extra: map[string]any{},
		knownSeen: map[string]int{}, violations: map[string]*violation{}, exhaustive: true}
	tier := flag.String("tier", os.Getenv("VERIF_TIER"), "quick|thorough")
	replay := flag.String("replay", "", "replay file")
	flag.Parse()
	r.Tier = *tier
	if r.Tier != "thorough" {
		r.Tier = "quick"
	}
	r.Replay = *replay
	if s := os.Getenv("VERIF_SEED"); s != "" {
		if n, err := strconv.ParseInt(s, 10, 64); err == nil {
			r.Seed = n
		}
	}
	b, err := os.ReadFile(filepath.Join(Root, "known_findings.json"))
	if err == nil {
		var all []Finding
		if err := json.Unmarshal(b, &all); err != nil {
			fmt.Fprintf(os.Stderr, "HARNESS-ERROR: known_findings.json: %v\n", err)
			os.Exit(2)
		}
		for _, f := range all {
			if f.Property == id && f.Status == "open" {
				r.known = append(r.known, f)
			}
		}
	}
	return r
}

// Rule sets the evidence "rule" text.
func (r *Run) Rule(s string) { r.rule = s }

// Assume records an assumption.
func (r *Run) Assume(s string) { r.mu.Lock(); r.assumptions = append(r.assumptions, s); r.mu.Unlock() }

// Set stores an extra coverage key.
func (r *Run) Set(k string, v any) { r.mu.Lock(); r.extra[k] = v; r.mu.Unlock() }

// Add adds n to an integer extra coverage key.
func (r *Run) Add(k string, n int64) {
	r.mu.Lock()
	cur, _ := r.extra[k].(int64)
	r.extra[k] = cur + n
	r.mu.Unlock()
}

// Capped marks the run as not exhaustive, with a reason.
func (r *Run) Capped(why string) {
	r.mu.Lock()
	r.exhaustive = false
	r.capsHit = append(r.capsHit, why)
	r.mu.Unlock()
}

// Distinct records a canonical non-trivial case/outcome key.
func (r *Run) Distinct(key string) {
	h := sha256.Sum256([]byte(key))
	k := string(h[:12])
	r.mu.Lock()
	r.distinct[k] = struct{}{}
	r.mu.Unlock()
}

// Sample records a written-out case (at most max are kept).
func (r *Run) Sample(max int, v any) {
	r.mu.Lock()
	if len(r.samples) < max {
		r.samples = append(r.samples, v)
	}
	r.mu.Unlock()
}

// Violation reports a property violation with a failure key. If the key is listed as an open known
// finding it is reported as KNOWN-FINDING; otherwise it becomes a VIOLATION with a replay file.
func (r *Run) Violation(key, what string, replay any) {
	r.mu.Lock()
	defer r.mu.Unlock()
	for _, f := range r.known {
		if f.Key == key {
			r.knownSeen[key]++
			return
		}
	}
	if v, ok := r.violations[key]; ok {
		v.Count++
		return
	}
	r.violations[key] = &violation{Key: key, What: what, Replay: replay, Count: 1}
	r.order = append(r.order, key)
}

// NumViolations returns the number of distinct unlisted violation keys so far.
func (r *Run) NumViolations() int { r.mu.Lock(); defer r.mu.Unlock(); return len(r.violations) }

// Fatal reports a harness error (never a violation) and exits 2.
func (r *Run) Fatal(format string, a ...any) {
	fmt.Fprintf(os.Stderr, "HARNESS-ERROR property=%s: %s\n", r.ID, fmt.Sprintf(format, a...))
	os.Exit(2)
}

// Finish writes evidence, prints result lines and exits.
func (r *Run) Finish() {
	r.mu.Lock()
	defer r.mu.Unlock()
	// replay files
	dir := filepath.Join(Root, "replays", r.ID)
	for _, k := range r.order {
		v := r.violations[k]
		_ = os.MkdirAll(dir, 0o755)
		h := sha256.Sum256([]byte(k))
		v.path = filepath.Join(dir, hex.EncodeToString(h[:6])+".json")
		b, _ := json.MarshalIndent(map[string]any{"property": r.ID, "key": v.Key, "what": v.What, "replay": v.Replay, "tier": r.Tier}, "", " ")
		_ = os.WriteFile(v.path, b, 0o644)
	}
	cov := map[string]any{}
	for k, v := range r.extra {
		cov[k] = v
	}
	cov["evaluations"] = r.Evaluations.Load()
	cov["distinct_nontrivial"] = len(r.distinct)
	cov["rule"] = r.rule
	if len(r.samples) == 0 {
		r.samples = []any{"(no sample recorded)"}
	}
	cov["samples"] = r.samples
	cov["exhaustive"] = r.exhaustive
	if len(r.capsHit) > 0 {
		cov["caps_hit"] = r.capsHit
	}
	if r.Level == "model_checking" {
		cov["states"] = r.States.Load()
		cov["transitions"] = r.Transitions.Load()
		cov["traces_validated_against_impl"] = r.Traces.Load()
	}
	var knownKeys []string
	for k := range r.knownSeen {
		knownKeys = append(knownKeys, k)
	}
	sort.Strings(knownKeys)
	cov["known_findings_reobserved"] = knownKeys
	evd := map[string]any{
		"property_id": r.ID, "tier": r.Tier, "seed": r.Seed, "level": r.Level, "coverage": cov,
		"assumptions": r.assumptions, "wall_s": time.Since(r.start).Seconds(), "violations": len(r.violations),
	}
	if r.assumptions == nil {
		evd["assumptions"] = []string{}
	}
	b, _ := json.MarshalIndent(evd, "", " ")
	_ = os.MkdirAll(filepath.Join(Root, "evidence"), 0o755)
	if err := os.WriteFile(filepath.Join(Root, "evidence", r.ID+".json"), append(b, '\n'), 0o644); err != nil {
		fmt.Fprintf(os.Stderr, "HARNESS-ERROR: writing evidence: %v\n", err)
		os.Exit(2)
	}
	for _, f := range r.known {
		if n := r.knownSeen[f.Key]; n > 0 {
			fmt.Printf("KNOWN-FINDING: property=%s %s [key=%s, %d cases]\n", r.ID, f.What, f.Key, n)
		} else {
			fmt.Printf("NOTE: property=%s listed open finding not re-observed by this tier: key=%s\n", r.ID, f.Key)
		}
	}
	fmt.Printf("SUMMARY property=%s tier=%s evaluations=%d distinct=%d exhaustive=%v violations=%d wall=%.1fs\n",
		r.ID, r.Tier, r.Evaluations.Load(), len(r.distinct), r.exhaustive, len(r.violations), time.Since(r.start).Seconds())
	for i, c := range r.capsHit {
		if i == 5 {
			fmt.Printf("  cap: ... %d more\n", len(r.capsHit)-5)
			break
		}
		fmt.Printf("  cap: %s\n", c)
	}
	if len(r.violations) > 0 {
		for _, k := range r.order {
			v := r.violations[k]
			fmt.Printf("  violation key=%s count=%d: %s\n", v.Key, v.Count, v.What)
		}
		for _, k := range r.order {
			fmt.Printf("VIOLATION property=%s replay=%s\n", r.ID, r.violations[k].path)
		}
		os.Exit(1)
	}
	os.Exit(0)
}
