// Package cbormut is an ENUMERATING structure-aware CBOR mutator: for an encoded message it yields the finite
// set of single-node alterations under a fixed operator set, recursing into byte strings whose content is itself
// one complete CBOR item (bstr .cbor wrappers), and re-encoding enclosing lengths consistently.
package cbormut

import (
	"bytes"
	"fmt"

	rc "verif/internal/refcbor"
)

// Mutant is one altered encoding.
type Mutant struct {
	Path  string // e.g. /0/bstr/4/2
	Op    string
	Bytes []byte
	build func() []byte
}

// Get returns the mutant's encoding (built on first use). It may be nil / equal to the original for
// degenerate operators; callers skip those.
func (m *Mutant) Get() []byte {
	if m.Bytes == nil && m.build != nil {
		m.Bytes = m.build()
		m.build = nil
	}
	return m.Bytes
}

// Options select operator families.
type Options struct {
	Leaf       bool // value-level operators on every node
	ByteFlips  bool // every byte ^0x01 of the raw encoding (no structure)
	BitFlips   bool // every single bit of the raw encoding
	Inflate    bool // each string/array/map head replaced by an inflated claim (ill-formed on purpose)
	IntDomain  []int64
	NoDescend  bool // do not recurse into bstr-wrapped CBOR
	MaxPerNode int  // 0 = all
}

type node struct {
	it     *rc.Item
	path   string
	parent *node
	idx    int  // index in parent.it.Items
	inBstr bool // this node is the decoded content of parent's byte string
}

// Enumerate returns all mutants of msg (which must be one well-formed item).
func Enumerate(msg []byte, o Options) []Mutant {
	root, n, err := rc.Parse(msg)
	if err != nil || n != len(msg) {
		return rawOnly(msg, o)
	}
	var out []Mutant
	var nodes []*node
	var walk func(nd *node)
	walk = func(nd *node) {
		nodes = append(nodes, nd)
		for i, c := range nd.it.Items {
			walk(&node{it: c, path: fmt.Sprintf("%s/%d", nd.path, i), parent: nd, idx: i})
		}
		if nd.it.Kind == rc.Bytes && !o.NoDescend && len(nd.it.B) > 0 {
			if in, k, err := rc.Parse(nd.it.B); err == nil && k == len(nd.it.B) && (in.Kind == rc.Array || in.Kind == rc.Map || in.Kind == rc.Tag) {
				walk(&node{it: in, path: nd.path + "/bstr", parent: nd, inBstr: true})
			}
		}
	}
	walk(&node{it: root, path: ""})
	// rebuild: replace node nd by repl (nil = delete from parent array) and re-encode the root
	rebuild := func(nd *node, repl *rc.Item) []byte {
		cur := repl
		for x := nd; x.parent != nil; x = x.parent {
			p := x.parent
			var np *rc.Item
			if x.inBstr {
				np = rc.Bs(rc.Encode(cur))
			} else {
				np = &rc.Item{Kind: p.it.Kind, U: p.it.U, B: p.it.B, FloatLen: p.it.FloatLen}
				np.Items = append([]*rc.Item{}, p.it.Items...)
				if cur == nil {
					np.Items = append(np.Items[:x.idx], np.Items[x.idx+1:]...)
				} else {
					np.Items[x.idx] = cur
				}
			}
			cur = np
		}
		if cur == nil {
			return nil
		}
		return encodeKeepOrder(cur)
	}
	if o.Leaf {
		for _, nd := range nodes {
			alts := alternatives(nd.it, o)
			if o.MaxPerNode > 0 && len(alts) > o.MaxPerNode {
				alts = alts[:o.MaxPerNode]
			}
			for _, a := range alts {
				out = append(out, Mutant{Path: nd.path, Op: a.op, build: func() []byte { return rebuild(nd, a.it) }})
			}
			// delete this node from its parent array (arrays only)
			if nd.parent != nil && !nd.inBstr && nd.parent.it.Kind == rc.Array {
				out = append(out, Mutant{Path: nd.path, Op: "delete", build: func() []byte { return rebuild(nd, nil) }})
			}
		}
	}
	out = append(out, rawOnly(msg, o)...)
	if o.Inflate {
		var heads []*rc.Item
		var hw func(x *rc.Item)
		hw = func(x *rc.Item) {
			if x.Kind >= rc.Bytes && x.Kind <= rc.Map {
				heads = append(heads, x)
			}
			for _, c := range x.Items {
				hw(c)
			}
		}
		hw(root)
		for i, h := range heads {
			for _, c := range []struct {
				v uint64
				w int
			}{{99999, 4}, {100000, 4}, {1 << 32, 8}, {1 << 63, 8}} {
				nb := append([]byte{}, msg[:h.Off]...)
				nb = append(nb, rc.HeadN(h.Kind, c.v, c.w)...)
				nb = append(nb, msg[h.Off+h.HeadLen:]...)
				out = append(out, Mutant{Path: fmt.Sprintf("head#%d@%d", i, h.Off), Op: fmt.Sprintf("inflate<-%d", c.v), Bytes: nb})
			}
		}
	}
	return out
}

func rawOnly(msg []byte, o Options) []Mutant {
	var out []Mutant
	if o.ByteFlips {
		for i := range msg {
			out = append(out, Mutant{Path: fmt.Sprintf("byte%d", i), Op: "xor01", build: func() []byte { b := bytes.Clone(msg); b[i] ^= 0x01; return b }})
		}
	}
	if o.BitFlips {
		for i := 0; i < len(msg)*8; i++ {
			out = append(out, Mutant{Path: fmt.Sprintf("bit%d", i), Op: "flip", build: func() []byte { b := bytes.Clone(msg); b[i/8] ^= 1 << (i % 8); return b }})
		}
	}
	return out
}

// encodeKeepOrder encodes like rc.Encode but keeps map entries in their given order (the original was
// canonical, and a mutated key must stay where it was so that only one thing changes).
func encodeKeepOrder(it *rc.Item) []byte {
	switch it.Kind {
	case rc.Array, rc.Map, rc.Tag:
		var b []byte
		switch it.Kind {
		case rc.Array:
			b = rc.HeadN(rc.Array, uint64(len(it.Items)), width(uint64(len(it.Items))))
		case rc.Map:
			b = rc.HeadN(rc.Map, uint64(len(it.Items)/2), width(uint64(len(it.Items)/2)))
		case rc.Tag:
			b = rc.HeadN(rc.Tag, it.U, width(it.U))
		}
		for _, c := range it.Items {
			b = append(b, encodeKeepOrder(c)...)
		}
		return b
	}
	return rc.Encode(it)
}

func width(v uint64) int {
	switch {
	case v < 24:
		return 0
	case v <= 0xff:
		return 1
	case v <= 0xffff:
		return 2
	case v <= 0xffffffff:
		return 4
	}
	return 8
}

type alt struct {
	op string
	it *rc.Item
}

func alternatives(it *rc.Item, o Options) []alt {
	var out []alt
	add := func(op string, x *rc.Item) { out = append(out, alt{op, x}) }
	flipped := func(b []byte, i int) []byte { c := bytes.Clone(b); c[i] ^= 0x01; return c }
	switch it.Kind {
	case rc.Uint, rc.Nint:
		add("int+1", &rc.Item{Kind: it.Kind, U: it.U + 1})
		if it.U > 0 {
			add("int-1", &rc.Item{Kind: it.Kind, U: it.U - 1})
		}
		add("int^1", &rc.Item{Kind: it.Kind, U: it.U ^ 1})
		add("int-signswap", &rc.Item{Kind: rc.Uint + rc.Nint - it.Kind, U: it.U})
		add("int<-0", rc.U(0))
		add("int<-2^32", rc.U(1<<32))
		add("int<-2^64-1", rc.U(1<<64-1))
		add("int<-min", rc.N(1<<63-1))
		for _, v := range o.IntDomain {
			add(fmt.Sprintf("int<-%d", v), rc.Int(v))
		}
		add("int<-bstr", rc.Bs([]byte{0}))
		add("int<-null", rc.Null())
	case rc.Bytes, rc.Text:
		k := it.Kind
		n := len(it.B)
		if n > 0 {
			add("str-flip-first", &rc.Item{Kind: k, B: flipped(it.B, 0)})
			if n > 1 {
				add("str-flip-last", &rc.Item{Kind: k, B: flipped(it.B, n-1)})
			}
			if n > 2 {
				add("str-flip-mid", &rc.Item{Kind: k, B: flipped(it.B, n/2)})
			}
			add("str-truncate", &rc.Item{Kind: k, B: it.B[:n-1]})
			add("str-empty", &rc.Item{Kind: k, B: nil})
		}
		add("str-extend", &rc.Item{Kind: k, B: append(bytes.Clone(it.B), 0)})
		add("str-kindswap", &rc.Item{Kind: rc.Bytes + rc.Text - k, B: it.B})
		add("str<-null", rc.Null())
		add("str<-int", rc.U(0))
		add("str<-array", rc.A())
	case rc.Array:
		n := len(it.Items)
		if n > 0 {
			add("arr-drop-last", rc.A(it.Items[:n-1]...))
			add("arr-dup-last", rc.A(append(append([]*rc.Item{}, it.Items...), it.Items[n-1])...))
			add("arr-empty", rc.A())
		}
		if n > 1 {
			sw := append([]*rc.Item{}, it.Items...)
			sw[0], sw[1] = sw[1], sw[0]
			add("arr-swap01", rc.A(sw...))
			sw2 := append([]*rc.Item{}, it.Items...)
			sw2[n-2], sw2[n-1] = sw2[n-1], sw2[n-2]
			add("arr-swap-last2", rc.A(sw2...))
		}
		add("arr-append-null", rc.A(append(append([]*rc.Item{}, it.Items...), rc.Null())...))
		add("arr<-null", rc.Null())
		add("arr<-map", rc.M())
		add("arr<-bstr", rc.Bs(nil))
	case rc.Map:
		n := len(it.Items)
		if n >= 2 {
			add("map-drop-first", rc.M(it.Items[2:]...))
			add("map-drop-last", rc.M(it.Items[:n-2]...))
			add("map-empty", rc.M())
		}
		add("map-add-entry", rc.M(append(append([]*rc.Item{}, it.Items...), rc.U(9999), rc.U(0))...))
		add("map<-null", rc.Null())
		add("map<-array", rc.A())
	case rc.Tag:
		add("tag-strip", it.Items[0])
		add("tag+1", rc.Tg(it.U+1, it.Items[0]))
		add("tag-1", rc.Tg(it.U-1, it.Items[0]))
		add("tag<-0", rc.Tg(0, it.Items[0]))
	case rc.Simple:
		switch it.U {
		case 20:
			add("bool-flip", rc.Bool(true))
		case 21:
			add("bool-flip", rc.Bool(false))
		case 22, 23:
			add("null<-0", rc.U(0))
			add("null<-bstr", rc.Bs(nil))
			add("null<-array", rc.A())
			add("null<-map", rc.M())
		}
		add("simple<-int", rc.U(1))
	}
	return out
}
