// Package refcbor is an independent reference CBOR codec (RFC 8949, definite lengths only) over an explicit
// data model. It shares no code with go-fdo/cbor and is used as the oracle for canonical form,
// well-formedness and item length.
package refcbor

import (
	"bytes"
	"encoding/binary"
	"errors"
	"fmt"
	"sort"
	"strings"
)

// Kind is the CBOR major type.
type Kind byte

// Major types.
const (
	Uint Kind = iota
	Nint
	Bytes
	Text
	Array
	Map
	Tag
	Simple
)

// Item is one data item. For Uint, U is the value; for Nint the value is -1-U; for Tag U is the tag
// number and Items[0] the content; for Simple U is the simple value (20 false, 21 true, 22 null, 23
// undefined) or, for floats, the raw bits with FloatLen set. Map holds k0,v0,k1,v1,... in Items.
type Item struct {
	Kind     Kind
	U        uint64
	B        []byte
	Items    []*Item
	FloatLen int // 0, 2, 4, 8
	// filled by Parse
	Off, End int  // byte range in the parsed input
	HeadLen  int  // bytes of head
	Shortest bool // head used the shortest form
}

// Constructors.
func U(v uint64) *Item           { return &Item{Kind: Uint, U: v} }
func N(v uint64) *Item           { return &Item{Kind: Nint, U: v} } // value -1-v
func Bs(b []byte) *Item          { return &Item{Kind: Bytes, B: b} }
func T(s string) *Item           { return &Item{Kind: Text, B: []byte(s)} }
func A(items ...*Item) *Item     { return &Item{Kind: Array, Items: items} }
func M(kv ...*Item) *Item        { return &Item{Kind: Map, Items: kv} }
func Tg(n uint64, c *Item) *Item { return &Item{Kind: Tag, U: n, Items: []*Item{c}} }
func Bool(b bool) *Item {
	if b {
		return &Item{Kind: Simple, U: 21}
	}
	return &Item{Kind: Simple, U: 20}
}
func Null() *Item { return &Item{Kind: Simple, U: 22} }

// Int builds an integer item from an int64.
func Int(v int64) *Item {
	if v >= 0 {
		return U(uint64(v))
	}
	return N(uint64(-(v + 1)))
}

// Clone deep-copies an item.
func (it *Item) Clone() *Item {
	c := *it
	c.B = bytes.Clone(it.B)
	c.Items = make([]*Item, len(it.Items))
	for i, x := range it.Items {
		c.Items[i] = x.Clone()
	}
	return &c
}

func head(major Kind, v uint64) []byte {
	m := byte(major) << 5
	switch {
	case v < 24:
		return []byte{m | byte(v)}
	case v <= 0xff:
		return []byte{m | 24, byte(v)}
	case v <= 0xffff:
		return binary.BigEndian.AppendUint16([]byte{m | 25}, uint16(v))
	case v <= 0xffffffff:
		return binary.BigEndian.AppendUint32([]byte{m | 26}, uint32(v))
	default:
		return binary.BigEndian.AppendUint64([]byte{m | 27}, v)
	}
}

// HeadN encodes a head with an explicit additional-info width (0 = immediate, 1,2,4,8); used by mutators.
func HeadN(major Kind, v uint64, width int) []byte {
	m := byte(major) << 5
	switch width {
	case 0:
		return []byte{m | byte(v&0x1f)}
	case 1:
		return []byte{m | 24, byte(v)}
	case 2:
		return binary.BigEndian.AppendUint16([]byte{m | 25}, uint16(v))
	case 4:
		return binary.BigEndian.AppendUint32([]byte{m | 26}, uint32(v))
	default:
		return binary.BigEndian.AppendUint64([]byte{m | 27}, v)
	}
}

// Encode produces the canonical (core deterministic) encoding: shortest heads, map keys sorted
// bytewise by their encoding.
func Encode(it *Item) []byte {
	var buf bytes.Buffer
	encode(&buf, it)
	return buf.Bytes()
}

func encode(w *bytes.Buffer, it *Item) {
	switch it.Kind {
	case Uint, Nint:
		w.Write(head(it.Kind, it.U))
	case Bytes, Text:
		w.Write(head(it.Kind, uint64(len(it.B))))
		w.Write(it.B)
	case Array:
		w.Write(head(Array, uint64(len(it.Items))))
		for _, x := range it.Items {
			encode(w, x)
		}
	case Map:
		n := len(it.Items) / 2
		w.Write(head(Map, uint64(n)))
		type kv struct{ k, v []byte }
		kvs := make([]kv, n)
		for i := 0; i < n; i++ {
			kvs[i] = kv{Encode(it.Items[2*i]), Encode(it.Items[2*i+1])}
		}
		sort.SliceStable(kvs, func(i, j int) bool { return bytes.Compare(kvs[i].k, kvs[j].k) < 0 })
		for _, p := range kvs {
			w.Write(p.k)
			w.Write(p.v)
		}
	case Tag:
		w.Write(head(Tag, it.U))
		encode(w, it.Items[0])
	case Simple:
		switch it.FloatLen {
		case 2:
			w.Write(binary.BigEndian.AppendUint16([]byte{0xf9}, uint16(it.U)))
		case 4:
			w.Write(binary.BigEndian.AppendUint32([]byte{0xfa}, uint32(it.U)))
		case 8:
			w.Write(binary.BigEndian.AppendUint64([]byte{0xfb}, it.U))
		default:
			if it.U < 24 {
				w.WriteByte(0xe0 | byte(it.U))
			} else {
				w.Write([]byte{0xf8, byte(it.U)})
			}
		}
	}
}

// Errors of Parse.
var (
	ErrTruncated  = errors.New("refcbor: truncated")
	ErrIndefinite = errors.New("refcbor: indefinite length / break")
	ErrReserved   = errors.New("refcbor: reserved additional info")
	ErrSimple     = errors.New("refcbor: invalid two-byte simple value")
)

// Parse parses exactly one well-formed definite-length data item from the start of b and returns it
// with the number of bytes it occupies. Nested items are limited only by the input length.
func Parse(b []byte) (*Item, int, error) {
	p := &parser{b: b}
	it, err := p.item(0)
	if err != nil {
		return nil, 0, err
	}
	return it, p.pos, nil
}

// WellFormedLen returns the length of the first item if b starts with a well-formed definite-length item.
func WellFormedLen(b []byte) (int, bool) {
	_, n, err := Parse(b)
	return n, err == nil
}

type parser struct {
	b   []byte
	pos int
}

func (p *parser) item(depth int) (*Item, error) {
	if p.pos >= len(p.b) {
		return nil, ErrTruncated
	}
	start := p.pos
	first := p.b[p.pos]
	p.pos++
	major, ai := Kind(first>>5), first&0x1f
	var v uint64
	width := 0
	switch {
	case ai < 24:
		v = uint64(ai)
	case ai == 24:
		width = 1
	case ai == 25:
		width = 2
	case ai == 26:
		width = 4
	case ai == 27:
		width = 8
	case ai == 31:
		return nil, ErrIndefinite
	default:
		return nil, ErrReserved
	}
	if width > 0 {
		if p.pos+width > len(p.b) {
			return nil, ErrTruncated
		}
		for i := 0; i < width; i++ {
			v = v<<8 | uint64(p.b[p.pos+i])
		}
		p.pos += width
	}
	it := &Item{Kind: major, Off: start, HeadLen: 1 + width}
	it.Shortest = len(head(major, v)) == 1+width
	switch major {
	case Uint, Nint:
		it.U = v
	case Bytes, Text:
		if v > uint64(len(p.b)-p.pos) {
			return nil, ErrTruncated
		}
		it.B = p.b[p.pos : p.pos+int(v)]
		p.pos += int(v)
	case Array, Map:
		n := v
		if major == Map {
			if v > uint64(len(p.b)) {
				return nil, ErrTruncated
			}
			n = 2 * v
		}
		if n > uint64(len(p.b)-p.pos) { // every item needs at least one byte
			return nil, ErrTruncated
		}
		it.Items = make([]*Item, 0, min(int(n), 1024))
		for i := uint64(0); i < n; i++ {
			c, err := p.item(depth + 1)
			if err != nil {
				return nil, err
			}
			it.Items = append(it.Items, c)
		}
	case Tag:
		it.U = v
		c, err := p.item(depth + 1)
		if err != nil {
			return nil, err
		}
		it.Items = []*Item{c}
	case Simple:
		it.U = v
		switch width {
		case 1:
			if v < 32 {
				return nil, ErrSimple
			}
		case 2, 4, 8:
			it.FloatLen = width
			it.Shortest = true
		}
	}
	it.End = p.pos
	return it, nil
}

// Canonical reports whether b is exactly one item in core deterministic form (shortest heads, map keys
// strictly ascending bytewise, no trailing bytes). deep=true also requires byte strings that themselves
// parse completely as one CBOR item to be left alone (they are opaque), so it is not recursive into bstr.
func Canonical(b []byte) error {
	it, n, err := Parse(b)
	if err != nil {
		return err
	}
	if n != len(b) {
		return fmt.Errorf("refcbor: %d trailing bytes", len(b)-n)
	}
	return canonicalItem(b, it)
}

func canonicalItem(b []byte, it *Item) error {
	if !it.Shortest {
		return fmt.Errorf("refcbor: non-shortest head at offset %d", it.Off)
	}
	switch it.Kind {
	case Array, Tag:
		for _, c := range it.Items {
			if err := canonicalItem(b, c); err != nil {
				return err
			}
		}
	case Map:
		for i := 0; i < len(it.Items); i += 2 {
			if err := canonicalItem(b, it.Items[i]); err != nil {
				return err
			}
			if err := canonicalItem(b, it.Items[i+1]); err != nil {
				return err
			}
			if i > 0 {
				prev, cur := it.Items[i-2], it.Items[i]
				if bytes.Compare(b[prev.Off:prev.End], b[cur.Off:cur.End]) >= 0 {
					return fmt.Errorf("refcbor: map keys not strictly ascending at offset %d", cur.Off)
				}
			}
		}
	}
	return nil
}

// Equal compares two items at the value level (head widths ignored, map order ignored).
func Equal(a, b *Item) bool { return bytes.Equal(Encode(a), Encode(b)) }

// String renders diagnostic notation (compact).
func (it *Item) String() string {
	var sb strings.Builder
	diag(&sb, it)
	return sb.String()
}

func diag(sb *strings.Builder, it *Item) {
	switch it.Kind {
	case Uint:
		fmt.Fprintf(sb, "%d", it.U)
	case Nint:
		if it.U == ^uint64(0) {
			sb.WriteString("-18446744073709551616")
		} else {
			fmt.Fprintf(sb, "-%d", it.U+1)
		}
	case Bytes:
		fmt.Fprintf(sb, "h'%x'", it.B)
	case Text:
		fmt.Fprintf(sb, "%q", string(it.B))
	case Array:
		sb.WriteByte('[')
		for i, c := range it.Items {
			if i > 0 {
				sb.WriteString(", ")
			}
			diag(sb, c)
		}
		sb.WriteByte(']')
	case Map:
		sb.WriteByte('{')
		for i := 0; i+1 < len(it.Items); i += 2 {
			if i > 0 {
				sb.WriteString(", ")
			}
			diag(sb, it.Items[i])
			sb.WriteString(": ")
			diag(sb, it.Items[i+1])
		}
		sb.WriteByte('}')
	case Tag:
		fmt.Fprintf(sb, "%d(", it.U)
		diag(sb, it.Items[0])
		sb.WriteByte(')')
	case Simple:
		switch {
		case it.FloatLen > 0:
			fmt.Fprintf(sb, "float%d(%#x)", it.FloatLen*8, it.U)
		case it.U == 20:
			sb.WriteString("false")
		case it.U == 21:
			sb.WriteString("true")
		case it.U == 22:
			sb.WriteString("null")
		case it.U == 23:
			sb.WriteString("undefined")
		default:
			fmt.Fprintf(sb, "simple(%d)", it.U)
		}
	}
}
