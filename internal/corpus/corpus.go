// Package corpus produces genuine library-encoded protocol messages (plaintext, captured from an honest
// in-process DI/TO0/TO1/TO2 run) labelled with the Go target type the receiving side decodes them into.
package corpus

import (
	"context"
	"fmt"
	"sync"

	"github.com/fido-device-onboard/go-fdo/cbor"
	"github.com/fido-device-onboard/go-fdo/kex"
	"github.com/fido-device-onboard/go-fdo/protocol"

	"verif/internal/keys"
	"verif/internal/lab"
)

// Message is one encoded message with the catalogue name of its decode target.
type Message struct {
	Name   string
	Target string
	Bytes  []byte
}

var targetOf = map[string]string{
	"11resp": "fdo.setCredentialsMsg", "22req": "fdo.ownerSign", "30req": "fdo.helloRV", "31resp": "fdo.rvAck",
	"32req": "cose.Sign1Tag[Raw]", "33resp": "cose.Sign1Tag[To1d]", "60req": "fdo.helloDeviceMsg", "61resp": "Sign1Tag[ovhProof]",
	"63resp": "fdo.ovEntry", "64req": "cose.Sign1Tag[Raw]", "65resp": "Sign1Tag[deviceSetup]", "66req": "fdo.deviceServiceInfoReady",
	"67resp": "fdo.ownerServiceInfoReady", "68req": "fdo.deviceServiceInfo", "69resp": "fdo.ownerServiceInfo", "70req": "fdo.doneMsg",
}

var (
	once sync.Once
	msgs []Message
	gerr error
)

// Messages returns the corpus (EC P-256/X509 and EC P-384/COSE runs, voucher chain length 2).
func Messages() []Message {
	once.Do(func() {
		for _, cfg := range []struct {
			kind string
			enc  protocol.KeyEncoding
		}{{"ec256", protocol.X509KeyEnc}, {"ec384", protocol.CoseKeyEnc}, {"ec256", protocol.X5ChainKeyEnc}} {
			k := keys.KindByName(cfg.kind)
			w := lab.NewWorld(k, cfg.enc)
			log, _, err := w.HonestRun(context.Background(), 2, lab.DefaultSuite(k), kex.A128GcmCipher)
			if err != nil {
				gerr = fmt.Errorf("corpus run %s: %w", cfg.kind, err)
				return
			}
			for i, m := range log {
				key := fmt.Sprintf("%d%s", m.Type, m.Dir)
				tg, ok := targetOf[key]
				if !ok {
					tg = "any"
				}
				msgs = append(msgs, Message{Name: fmt.Sprintf("%s/%d:%s#%d", cfg.kind, m.Type, m.Dir, i), Target: tg, Bytes: m.Body})
			}
			for guid, b := range w.Owner.Mem.AllVouchers() {
				msgs = append(msgs, Message{Name: fmt.Sprintf("%s/voucher-%x", cfg.kind, guid[:2]), Target: "fdo.Voucher", Bytes: b})
			}
			if b, err := cbor.Marshal(w.Dev.Cred); err == nil {
				msgs = append(msgs, Message{Name: cfg.kind + "/devcred", Target: "fdo.DeviceCredential", Bytes: b})
			}
		}
	})
	if gerr != nil {
		panic(gerr)
	}
	return msgs
}
