package lab

import (
	"context"
	"fmt"
	"io"
	"sync"

	"github.com/fido-device-onboard/go-fdo/cbor"
	"github.com/fido-device-onboard/go-fdo/serviceinfo"
)

// Call is one recorded module callback.
type Call struct {
	Side string // "owner" or "device"
	Mod  string
	Kind string // HandleInfo ProduceInfo Transition Receive Yield
	Msg  string
	Body []byte
	Arg  bool
}

// Recorder collects module callbacks from both sides.
type Recorder struct {
	mu    sync.Mutex
	Calls []Call
}

func (r *Recorder) add(c Call) {
	r.mu.Lock()
	r.Calls = append(r.Calls, c)
	r.mu.Unlock()
}

// Snapshot returns a copy of the calls.
func (r *Recorder) Snapshot() []Call {
	r.mu.Lock()
	defer r.mu.Unlock()
	return append([]Call(nil), r.Calls...)
}

// Count counts calls matching side/kind.
func (r *Recorder) Count(side, kind string) int {
	n := 0
	for _, c := range r.Snapshot() {
		if c.Side == side && (kind == "" || c.Kind == kind) {
			n++
		}
	}
	return n
}

// Msg is one scripted service-info message.
type Msg struct {
	Name string
	Body []byte // raw bytes written as the message value (must be valid CBOR for library modules; opaque here)
}

// OwnerScript is a scripted owner module: round 0 activates the device module, then each later ProduceInfo
// call emits the next round of messages; it reports done after the last round.
type OwnerScript struct {
	Name       string
	Rounds     [][]Msg
	Block      []bool // per round: report blockPeer (IsMoreServiceInfo)
	Rec        *Recorder
	round      int
	sentActive bool
}

// HandleInfo implements serviceinfo.OwnerModule.
func (m *OwnerScript) HandleInfo(ctx context.Context, messageName string, messageBody io.Reader) error {
	b, err := io.ReadAll(messageBody)
	if err != nil {
		return err
	}
	m.Rec.add(Call{Side: "owner", Mod: m.Name, Kind: "HandleInfo", Msg: messageName, Body: b})
	return nil
}

// ProduceInfo implements serviceinfo.OwnerModule.
func (m *OwnerScript) ProduceInfo(ctx context.Context, p *serviceinfo.Producer) (bool, bool, error) {
	m.Rec.add(Call{Side: "owner", Mod: m.Name, Kind: "ProduceInfo"})
	if !m.sentActive {
		m.sentActive = true
		b, _ := cbor.Marshal(true)
		if err := p.WriteChunk("active", b); err != nil {
			return false, false, err
		}
		return false, len(m.Rounds) == 0, nil
	}
	if m.round < len(m.Rounds) {
		for _, msg := range m.Rounds[m.round] {
			// split into chunks that fit the producer
			body := msg.Body
			for {
				n := p.Available(msg.Name)
				if n <= 0 {
					return false, false, fmt.Errorf("script message does not fit the MTU")
				}
				if n > len(body) {
					n = len(body)
				}
				if err := p.WriteChunk(msg.Name, body[:n]); err != nil {
					return false, false, err
				}
				body = body[n:]
				if len(body) == 0 {
					break
				}
			}
		}
		block := m.round < len(m.Block) && m.Block[m.round]
		m.round++
		return block, m.round >= len(m.Rounds) && !block, nil
	}
	return false, true, nil
}

// DeviceRec is a recording device module; Replies maps a received message name to responses.
type DeviceRec struct {
	Name    string
	Rec     *Recorder
	Replies map[string][]Msg
	OnYield []Msg
	yielded bool
}

// Transition implements serviceinfo.DeviceModule.
func (d *DeviceRec) Transition(active bool) error {
	d.Rec.add(Call{Side: "device", Mod: d.Name, Kind: "Transition", Arg: active})
	return nil
}

// Receive implements serviceinfo.DeviceModule.
func (d *DeviceRec) Receive(ctx context.Context, messageName string, messageBody io.Reader, respond func(string) io.Writer, yield func()) error {
	b, err := io.ReadAll(messageBody)
	if err != nil {
		return err
	}
	d.Rec.add(Call{Side: "device", Mod: d.Name, Kind: "Receive", Msg: messageName, Body: b})
	for _, m := range d.Replies[messageName] {
		if _, err := respond(m.Name).Write(m.Body); err != nil {
			return err
		}
	}
	return nil
}

// Yield implements serviceinfo.DeviceModule.
func (d *DeviceRec) Yield(ctx context.Context, respond func(string) io.Writer, yield func()) error {
	d.Rec.add(Call{Side: "device", Mod: d.Name, Kind: "Yield"})
	if !d.yielded {
		d.yielded = true
		for _, m := range d.OnYield {
			if _, err := respond(m.Name).Write(m.Body); err != nil {
				return err
			}
		}
	}
	return nil
}
