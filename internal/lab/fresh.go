package lab

import (
	"encoding/hex"
	"strings"
	"sync"
)

// Fresh records nonces a party put on the wire during one check. "Fresh" means a value that party has not used
// before: a repeat (2^-128 by chance) or the all-zero value defeats every replay defence built on the nonce, whatever
// the rest of the verification does with it.
type Fresh struct{ m sync.Map }

// Note returns a violation key and description when n is not fresh, else "", "".
func (f *Fresh) Note(where string, n []byte) (key, what string) {
	if len(n) == 0 {
		return "", ""
	}
	h := hex.EncodeToString(n)
	if strings.Trim(h, "0") == "" {
		return "nonce-not-fresh:zero", where + ": the all-zero nonce was issued"
	}
	if prev, dup := f.m.LoadOrStore(h, where); dup {
		return "nonce-not-fresh:repeated", where + ": nonce " + h + " was issued before (" + prev.(string) + ")"
	}
	return "", ""
}
