// Package lab is an in-process FDO deployment built from the real go-fdo handler, responders and client
// roles, joined by an in-memory http.RoundTripper that is the adversary / fault seam.
package lab

import (
	"bytes"
	"context"
	"crypto"
	"crypto/ecdsa"
	"crypto/hmac"
	"crypto/rand"
	"crypto/rsa"
	"crypto/sha256"
	"crypto/sha512"
	"crypto/x509"
	"crypto/x509/pkix"
	"errors"
	"fmt"
	"hash"
	"io"
	"log/slog"
	"net/http"
	"net/http/httptest"
	"sort"
	"strconv"
	"strings"
	"sync"

	fdo "github.com/fido-device-onboard/go-fdo"
	"github.com/fido-device-onboard/go-fdo/cbor"
	"github.com/fido-device-onboard/go-fdo/cose"
	"github.com/fido-device-onboard/go-fdo/custom"
	fdohttp "github.com/fido-device-onboard/go-fdo/http"
	"github.com/fido-device-onboard/go-fdo/kex"
	"github.com/fido-device-onboard/go-fdo/protocol"
	"github.com/fido-device-onboard/go-fdo/serviceinfo"

	"verif/internal/keys"
)

func init() {
	// the library logs warnings (token invalidation etc.) through slog; keep check output clean
	slog.SetDefault(slog.New(slog.NewTextHandler(io.Discard, nil)))
}

// State is everything a server needs from its backend (MemStore and sqlite.DB both satisfy it).
type State interface {
	protocol.TokenService
	fdo.DISessionState
	fdo.TO0SessionState
	fdo.TO1SessionState
	fdo.TO2SessionState
	fdo.RendezvousBlobPersistentState
	fdo.OwnerKeyPersistentState
	fdo.OwnerVoucherPersistentState
	fdo.VoucherReseller
	ManufacturerKey(ctx context.Context, keyType protocol.KeyType, rsaBits int) (crypto.Signer, []*x509.Certificate, error)
}

// Server is one FDO service instance (it can play manufacturer, rendezvous and owner).
type Server struct {
	Name    string
	Role    string // key ring role: "mfg", "owner1", ...
	State   State
	Mem     *MemStore // non-nil when State is a MemStore
	DI      *fdo.DIServer[custom.DeviceMfgInfo]
	TO0     *fdo.TO0Server
	TO1     *fdo.TO1Server
	TO2     *fdo.TO2Server
	Handler fdohttp.Handler
	Reuse   bool
	RvInfo  [][]protocol.RvInstruction
}

// NewMemServer builds a server over a fresh MemStore with the key ring of the given role.
func NewMemServer(name, role string) *Server {
	ms := NewMemStore()
	for _, k := range keys.Kinds {
		key := keys.Get(k.Alg, role)
		ms.AddKey(k.Type, k.Bits, key, keys.IssuedChain(k.Alg+"-"+role, key))
	}
	s := NewServer(name, role, ms, ms.Modules())
	s.Mem = ms
	return s
}

// UseKind makes the server hold, for k's key type, the key of k's own ring (boundary kinds share a key type with
// a standard kind but come from another ring).
func (s *Server) UseKind(k keys.Kind) *Server {
	if s.Mem != nil && k.IsBoundary() {
		key := keys.Get(k.Alg, s.Role)
		s.Mem.AddKey(k.Type, k.Bits, key, keys.IssuedChain(k.Alg+"-"+s.Role, key))
	}
	return s
}

// NewServer wires the real responders and HTTP handler over a state backend.
func NewServer(name, role string, st State, mods serviceinfo.ModuleStateMachine) *Server {
	s := &Server{Name: name, Role: role, State: st, RvInfo: [][]protocol.RvInstruction{}}
	devCA := keys.Get("ec384", "devca")
	devCACert := keys.SelfSigned("ec384-devca", devCA)
	s.DI = &fdo.DIServer[custom.DeviceMfgInfo]{
		Session:               st,
		Vouchers:              st,
		SignDeviceCertificate: custom.SignDeviceCertificate(devCA, []*x509.Certificate{devCACert}),
		DeviceInfo: func(ctx context.Context, info *custom.DeviceMfgInfo, _ []*x509.Certificate) (string, protocol.PublicKey, error) {
			bits := 3072
			if info.KeyType == protocol.RsaPssKeyType && strings.HasSuffix(info.DeviceInfo, "2048") {
				bits = 2048
			}
			mfgKey, chain, err := st.ManufacturerKey(ctx, info.KeyType, bits)
			if err != nil {
				return "", protocol.PublicKey{}, err
			}
			pk, err := EncodePublicKey(info.KeyType, info.KeyEncoding, mfgKey.Public(), chain)
			if err != nil {
				return "", protocol.PublicKey{}, err
			}
			return "verif-device", *pk, nil
		},
		RvInfo: func(context.Context, *fdo.Voucher) ([][]protocol.RvInstruction, error) { return s.RvInfo, nil },
	}
	s.TO0 = &fdo.TO0Server{Session: st, RVBlobs: st}
	s.TO1 = &fdo.TO1Server{Session: st, RVBlobs: st}
	s.TO2 = &fdo.TO2Server{
		Session: st, Modules: mods, Vouchers: st, OwnerKeys: st, VouchersForExtension: st,
		RvInfo:          func(context.Context, fdo.Voucher) ([][]protocol.RvInstruction, error) { return s.RvInfo, nil },
		ReuseCredential: func(context.Context, fdo.Voucher) (bool, error) { return s.Reuse, nil },
	}
	s.Handler = fdohttp.Handler{Tokens: st, DIResponder: s.DI, TO0Responder: s.TO0, TO1Responder: s.TO1, TO2Responder: s.TO2}
	return s
}

// EncodePublicKey builds a protocol.PublicKey in the requested encoding.
func EncodePublicKey(t protocol.KeyType, enc protocol.KeyEncoding, pub crypto.PublicKey, chain []*x509.Certificate) (*protocol.PublicKey, error) {
	switch enc {
	case protocol.X509KeyEnc, protocol.CoseKeyEnc:
		switch p := pub.(type) {
		case *ecdsa.PublicKey:
			return protocol.NewPublicKey(t, p, enc == protocol.CoseKeyEnc)
		case *rsa.PublicKey:
			return protocol.NewPublicKey(t, p, enc == protocol.CoseKeyEnc)
		}
		return nil, fmt.Errorf("unsupported key %T", pub)
	case protocol.X5ChainKeyEnc:
		return protocol.NewPublicKey(t, chain, false)
	}
	return nil, fmt.Errorf("unsupported encoding %d", enc)
}

// OwnerSigner returns the server's signing key for a key kind.
func (s *Server) OwnerSigner(k keys.Kind) crypto.Signer { return keys.Get(k.Alg, s.Role) }

// ---------------- wire ----------------

// Exchange is one HTTP request/response pair as seen by the adversary.
type Exchange struct {
	Idx        int
	MsgType    int
	Path       string
	Method     string
	ReqHeader  http.Header
	ReqBody    []byte
	Status     int
	RespHeader http.Header
	RespBody   []byte
	RespType   int // Message-Type header of the response (255 for errors), -1 unknown
	// set by hooks
	Order     int   // position in serving order (exchanges may be served in another order than they were created)
	Err       error // abort the exchange with a transport error (before or after the server saw it)
	SkipServe bool  // Pre hook answered itself (Status/RespHeader/RespBody filled in)
	Served    bool
	// Panic: the handler panicked while serving this request (when Wire.RecoverPanics is set): as under net/http the
	// connection is dropped without an answer
	Panic any
}

// Wire joins a client transport with a server handler in memory.
type Wire struct {
	H      http.Handler
	Pre    func(x *Exchange) // may alter the request, set Err (request lost) or SkipServe
	Post   func(x *Exchange) // may alter the response or set Err (response lost)
	mu     sync.Mutex
	Log    []*Exchange
	served int
	// Serving is the index (in Log) of the exchange whose request the handler is processing right now, -1 if none.
	Serving int
	// RecoverPanics: behave like net/http's server: a panic of the handler aborts that one request (no answer)
	RecoverPanics bool
}

// NewWire creates a wire to a server.
func NewWire(s *Server) *Wire { return &Wire{H: s.Handler} }

// Transport returns a fresh real HTTP transport (with its own token jar) over this wire.
func (w *Wire) Transport() *fdohttp.Transport {
	return &fdohttp.Transport{BaseURL: "http://lab", Client: &http.Client{Transport: w}}
}

// RoundTrip implements http.RoundTripper.
func (w *Wire) RoundTrip(req *http.Request) (*http.Response, error) {
	var body []byte
	if req.Body != nil {
		body, _ = io.ReadAll(req.Body)
		_ = req.Body.Close()
	}
	x := &Exchange{Path: req.URL.Path, Method: req.Method, ReqHeader: req.Header.Clone(), ReqBody: body, MsgType: -1, RespType: -1}
	if i := strings.LastIndex(x.Path, "/"); i >= 0 {
		if n, err := strconv.Atoi(x.Path[i+1:]); err == nil {
			x.MsgType = n
		}
	}
	w.mu.Lock()
	x.Idx = len(w.Log)
	w.Log = append(w.Log, x)
	w.mu.Unlock()
	if w.Pre != nil {
		w.Pre(x)
	}
	if x.Err != nil {
		return nil, x.Err
	}
	if !x.SkipServe {
		w.Serve(req.Context(), x)
	}
	if w.Post != nil {
		w.Post(x)
	}
	if x.Err != nil {
		return nil, x.Err
	}
	if x.Panic != nil {
		return nil, fmt.Errorf("verif: connection aborted (the handler panicked: %v)", x.Panic)
	}
	resp := &http.Response{
		StatusCode: x.Status, Status: fmt.Sprintf("%d %s", x.Status, http.StatusText(x.Status)),
		Header: x.RespHeader.Clone(), Body: io.NopCloser(bytes.NewReader(x.RespBody)), ContentLength: int64(len(x.RespBody)),
		Request: req, Proto: "HTTP/1.1", ProtoMajor: 1, ProtoMinor: 1,
	}
	if cl := x.RespHeader.Get("Content-Length"); cl != "" {
		if n, err := strconv.ParseInt(cl, 10, 64); err == nil {
			resp.ContentLength = n
		}
	} else {
		resp.ContentLength = -1
	}
	return resp, nil
}

// Serve delivers the (possibly altered) request of x to the real handler and records the response.
func (w *Wire) Serve(ctx context.Context, x *Exchange) {
	r := httptest.NewRequest(x.Method, "http://lab"+x.Path, bytes.NewReader(x.ReqBody)).WithContext(ctx)
	r.Header = x.ReqHeader.Clone()
	r.ContentLength = int64(len(x.ReqBody))
	if cl := x.ReqHeader.Get("X-Verif-Content-Length"); cl != "" { // adversarial override
		n, _ := strconv.ParseInt(cl, 10, 64)
		r.ContentLength = n
		r.Header.Del("X-Verif-Content-Length")
	}
	rec := httptest.NewRecorder()
	prev := w.Serving
	w.Serving = x.Idx
	w.mu.Lock()
	w.served++
	x.Order = w.served
	w.mu.Unlock()
	func() {
		if w.RecoverPanics {
			defer func() {
				if p := recover(); p != nil {
					x.Panic = p
				}
			}()
		}
		w.H.ServeHTTP(rec, r)
	}()
	w.Serving = prev
	if x.Panic != nil {
		x.Served, x.Status, x.RespHeader, x.RespBody, x.RespType = true, 0, http.Header{}, nil, -1
		return
	}
	x.Served = true
	x.Status = rec.Code
	x.RespHeader = rec.Header().Clone()
	x.RespBody = rec.Body.Bytes()
	x.RespType = -1
	if mt := x.RespHeader.Get("Message-Type"); mt != "" {
		if n, err := strconv.Atoi(strings.TrimSpace(mt)); err == nil {
			x.RespType = n
		}
	}
}

// ServedLog returns the exchanges that reached the handler, in the order they were served.
func (w *Wire) ServedLog() []*Exchange {
	w.mu.Lock()
	defer w.mu.Unlock()
	var out []*Exchange
	for _, x := range w.Log {
		if x.Served {
			out = append(out, x)
		}
	}
	sort.SliceStable(out, func(i, j int) bool { return out[i].Order < out[j].Order })
	return out
}

// Send posts a raw message (adversary side), returning the exchange.
func (w *Wire) Send(msgType int, token string, body []byte) *Exchange {
	x := &Exchange{Path: "/fdo/101/msg/" + strconv.Itoa(msgType), Method: "POST", ReqHeader: http.Header{}, ReqBody: body, MsgType: msgType}
	x.ReqHeader.Set("Content-Type", "application/cbor")
	if token != "" {
		x.ReqHeader.Set("Authorization", token)
	}
	w.mu.Lock()
	x.Idx = len(w.Log)
	w.Log = append(w.Log, x)
	w.mu.Unlock()
	w.Serve(context.Background(), x)
	return x
}

// ErrCut is the transport error injected for lost requests/responses.
var ErrCut = errors.New("lab: connection cut")

// ---------------- device ----------------

// Device holds the device-side secrets and credential.
type Device struct {
	// HmacFault, when set, makes the device's HMACs hardware-style (FaultyHmac) and is asked at every Sum
	HmacFault func(op string) bool
	Kind   keys.Kind
	Enc    protocol.KeyEncoding
	Key    crypto.Signer
	Secret []byte
	Cred   *fdo.DeviceCredential
}

// NewDevice creates a device of a key kind ("device" / "device2" role selects the key).
func NewDevice(k keys.Kind, enc protocol.KeyEncoding, role string) *Device {
	sec := make([]byte, 32)
	_, _ = rand.Read(sec)
	return &Device{Kind: k, Enc: enc, Key: keys.Get(k.Alg, role), Secret: sec}
}

// Hmacs returns fresh HMAC instances over the device secret.
func (d *Device) Hmacs() (hash.Hash, hash.Hash) {
	h256, h384 := hash.Hash(hmac.New(sha256.New, d.Secret)), hash.Hash(hmac.New(sha512.New384, d.Secret))
	if d.HmacFault != nil {
		return &FaultyHmac{Hash: h256, Fail: d.HmacFault}, &FaultyHmac{Hash: h384, Fail: d.HmacFault}
	}
	return h256, h384
}

// FaultyHmac is a hardware-style HMAC: it offers the optional Err() method, and every Sum asks Fail whether the
// hardware fails this time; a failed Sum returns its argument unchanged (no MAC) and the error stays readable through
// Err() until the next Reset, as the TPM-backed implementation behaves.
type FaultyHmac struct {
	hash.Hash
	Fail func(op string) bool
	err  error
}

func (f *FaultyHmac) Err() error { return f.err }
func (f *FaultyHmac) Reset()     { f.err = nil; f.Hash.Reset() }
func (f *FaultyHmac) Sum(b []byte) []byte {
	if f.Fail != nil && f.Fail("Sum") {
		f.err = fmt.Errorf("verif: hardware HMAC failed to finalise")
		return b
	}
	return f.Hash.Sum(b)
}

// DI runs the real device-initialisation client.
func (d *Device) DI(ctx context.Context, tr fdo.Transport) error {
	var sigAlg x509.SignatureAlgorithm
	if d.Kind.PSS {
		sigAlg = x509.SHA256WithRSAPSS
	}
	csrDER, err := x509.CreateCertificateRequest(rand.Reader, &x509.CertificateRequest{Subject: pkix.Name{CommonName: "device.verif"}, SignatureAlgorithm: sigAlg}, d.Key)
	if err != nil {
		return err
	}
	csr, err := x509.ParseCertificateRequest(csrDER)
	if err != nil {
		return err
	}
	h256, h384 := d.Hmacs()
	cred, err := fdo.DI(ctx, tr, custom.DeviceMfgInfo{
		KeyType: d.Kind.Type, KeyEncoding: d.Enc, SerialNumber: "sn-" + d.Kind.Name, DeviceInfo: "verif" + strconv.Itoa(d.Kind.Bits),
		CertInfo: cbor.X509CertificateRequest(*csr),
	}, fdo.DIConfig{HmacSha256: h256, HmacSha384: h384, Key: d.Key, PSS: d.Kind.PSS})
	if err != nil {
		return err
	}
	d.Cred = cred
	return nil
}

// TO2Config returns a TO2 configuration for this device.
func (d *Device) TO2Config(suite kex.Suite, cipher kex.CipherSuiteID) fdo.TO2Config {
	h256, h384 := d.Hmacs()
	return fdo.TO2Config{
		Cred: *d.Cred, HmacSha256: h256, HmacSha384: h384, Key: d.Key, PSS: d.Kind.PSS,
		Devmod:      serviceinfo.Devmod{Os: "linux", Arch: "amd64", Version: "1", Device: "verif", FileSep: ";", Bin: "amd64"},
		KeyExchange: suite, CipherSuite: cipher,
	}
}

// TO1 runs the real TO1 client.
func (d *Device) TO1(ctx context.Context, tr fdo.Transport) (*cose.Sign1[protocol.To1d, []byte], error) {
	return fdo.TO1(ctx, tr, *d.Cred, d.Key, &fdo.TO1Options{PSS: d.Kind.PSS})
}

// DefaultSuite returns a key exchange suite valid for the kind.
func DefaultSuite(k keys.Kind) kex.Suite {
	switch {
	case k.Type == protocol.Secp256r1KeyType:
		return kex.ECDH256Suite
	case k.Type == protocol.Secp384r1KeyType:
		return kex.ECDH384Suite
	case k.Alg == "rsa2048":
		return kex.ASYMKEX2048Suite
	default:
		return kex.DHKEXid15Suite
	}
}

// Transfer moves the voucher of guid from one server to another, extending it with from's key of that
// kind to to's key (what a supply chain does out of band). Returns the extended voucher.
func Transfer(ctx context.Context, from, to *Server, k keys.Kind, guid protocol.GUID) (*fdo.Voucher, error) {
	ov, err := from.State.RemoveVoucher(ctx, guid)
	if err != nil {
		return nil, err
	}
	x, err := Extend(ov, from.OwnerSigner(k), to.OwnerSigner(k), k)
	if err != nil {
		return nil, err
	}
	if err := to.State.AddVoucher(ctx, x); err != nil {
		return nil, err
	}
	return x, nil
}

// Extend extends a voucher to next's public key (X5Chain encoding uses a self-signed chain).
func Extend(ov *fdo.Voucher, owner crypto.Signer, next crypto.Signer, k keys.Kind) (*fdo.Voucher, error) {
	if ov.Header.Val.ManufacturerKey.Encoding == protocol.X5ChainKeyEnc {
		return fdo.ExtendVoucher(ov, owner, keys.IssuedChain(k.Alg+"-chain-"+fmt.Sprintf("%p", next), next), nil)
	}
	switch p := next.Public().(type) {
	case *ecdsa.PublicKey:
		return fdo.ExtendVoucher(ov, owner, p, nil)
	case *rsa.PublicKey:
		return fdo.ExtendVoucher(ov, owner, p, nil)
	}
	return nil, fmt.Errorf("unsupported key")
}

// RSAKey returns the owner RSA key an ASYMKEX suite needs (nil for other suites).
func RSAKey(s kex.Suite) *rsa.PrivateKey {
	switch s {
	case kex.ASYMKEX2048Suite:
		return keys.Get("rsa2048", "owner1").(*rsa.PrivateKey)
	case kex.ASYMKEX3072Suite:
		return keys.Get("rsa3072", "owner1").(*rsa.PrivateKey)
	}
	return nil
}

// RSAPub is the public half of RSAKey.
func RSAPub(s kex.Suite) *rsa.PublicKey {
	if k := RSAKey(s); k != nil {
		return &k.PublicKey
	}
	return nil
}
