package lab

import (
	"context"
	"crypto"
	"crypto/rand"
	"crypto/x509"
	"encoding"
	"encoding/hex"
	"fmt"
	"sync"
	"time"

	fdo "github.com/fido-device-onboard/go-fdo"
	"github.com/fido-device-onboard/go-fdo/cbor"
	"github.com/fido-device-onboard/go-fdo/cose"
	"github.com/fido-device-onboard/go-fdo/custom"
	"github.com/fido-device-onboard/go-fdo/kex"
	"github.com/fido-device-onboard/go-fdo/protocol"
	"github.com/fido-device-onboard/go-fdo/serviceinfo"
)

// Effect is one journal record of the store: the externally meaningful effects the properties talk about.
type Effect struct {
	Seq   int
	At    int    // position marker from MemStore.Stamp (exchange index), -1 if none
	Kind  string // AddVoucher ReplaceVoucher RemoveVoucher SetRVBlob NewToken InvalidateToken HandleInfo ProduceInfo
	Token string
	GUID  protocol.GUID
	Old   protocol.GUID
	Data  []byte // CBOR of voucher / to1d / message body
	Exp   time.Time
	Note  string
}

type session struct {
	proto  protocol.Protocol
	fields map[string][]byte // CBOR encoded values, copy-on-read like a database
	mods   *modState
}

type modState struct {
	list []NamedModule
	idx  int
	init bool
	slot []byte // persisting state machine: the serialised state of the current module
}

// NamedModule is an owner service info module with its name.
type NamedModule struct {
	Name string
	Mod  serviceinfo.OwnerModule
}

type keyID struct {
	Type protocol.KeyType
	Bits int
}

type ownerKey struct {
	Key   crypto.Signer
	Chain []*x509.Certificate
}

// MemStore implements every server-state interface of go-fdo in memory with an effect journal, a fault /
// scheduling hook in front of every method and a virtual clock for blob expiry.
type MemStore struct {
	// OpaqueKeys: OwnerKey / ManufacturerKey hand keys out as opaque crypto.Signer values
	OpaqueKeys bool
	mu       sync.Mutex
	sessions map[string]*session
	vouchers map[protocol.GUID][]byte
	blobs    map[protocol.GUID]blobRec
	keys     map[keyID]ownerKey

	Journal []Effect
	// Hook, if set, runs before every store method (outside the lock). A non-nil error is returned to the
	// library as the method's error (fault injection); it is also the scheduling point for C19.
	Hook func(method, token string) error
	// Skew is added to the real clock when deciding blob expiry.
	Skew time.Duration
	// OwnerModules builds the owner module list for a TO2 session once devmod completed.
	OwnerModules func(ctx context.Context, guid protocol.GUID, devmod serviceinfo.Devmod, supported []string) []NamedModule
	// AllModules runs every owner module, including those the device did not list in devmod:modules.
	AllModules bool
	// Stamp, if set, supplies a position marker (e.g. the index of the HTTP exchange being served) for journal entries.
	Stamp func() int
	// invalidated tokens (kept to tell "never issued" from "invalidated" in oracles)
	Dead map[string]bool
}

type blobRec struct {
	to1d []byte
	ov   []byte
	exp  time.Time
}

type tokenKey struct{}

// NewMemStore creates an empty store.
func NewMemStore() *MemStore {
	return &MemStore{sessions: map[string]*session{}, vouchers: map[protocol.GUID][]byte{}, blobs: map[protocol.GUID]blobRec{},
		keys: map[keyID]ownerKey{}, Dead: map[string]bool{}}
}

func (s *MemStore) hook(ctx context.Context, method string) error {
	if s.Hook == nil {
		return nil
	}
	tok, _ := ctx.Value(tokenKey{}).(string)
	return s.Hook(method, tok)
}

func (s *MemStore) journal(e Effect) {
	e.Seq = len(s.Journal)
	if s.Stamp != nil {
		e.At = s.Stamp()
	}
	s.Journal = append(s.Journal, e)
}

// JournalSince returns a copy of effects from index i.
func (s *MemStore) JournalSince(i int) []Effect {
	s.mu.Lock()
	defer s.mu.Unlock()
	return append([]Effect(nil), s.Journal[i:]...)
}

// JournalLen returns the journal length.
func (s *MemStore) JournalLen() int { s.mu.Lock(); defer s.mu.Unlock(); return len(s.Journal) }

// ---- token service ----

// NewToken implements protocol.TokenService.
func (s *MemStore) NewToken(ctx context.Context, p protocol.Protocol) (string, error) {
	if err := s.hook(ctx, "NewToken"); err != nil {
		return "", err
	}
	var b [16]byte
	_, _ = rand.Read(b[:])
	tok := hex.EncodeToString(b[:])
	s.mu.Lock()
	s.sessions[tok] = &session{proto: p, fields: map[string][]byte{}}
	s.journal(Effect{Kind: "NewToken", Token: tok, Note: p.String()})
	s.mu.Unlock()
	return tok, nil
}

// InvalidateToken implements protocol.TokenService.
func (s *MemStore) InvalidateToken(ctx context.Context) error {
	if err := s.hook(ctx, "InvalidateToken"); err != nil {
		return err
	}
	tok, _ := ctx.Value(tokenKey{}).(string)
	s.mu.Lock()
	defer s.mu.Unlock()
	if _, ok := s.sessions[tok]; !ok {
		return fdo.ErrInvalidSession
	}
	delete(s.sessions, tok)
	s.Dead[tok] = true
	s.journal(Effect{Kind: "InvalidateToken", Token: tok})
	return nil
}

// TokenContext implements protocol.TokenService.
func (s *MemStore) TokenContext(ctx context.Context, tok string) context.Context {
	return context.WithValue(ctx, tokenKey{}, tok)
}

// TokenFromContext implements protocol.TokenService.
func (s *MemStore) TokenFromContext(ctx context.Context) (string, bool) {
	tok, ok := ctx.Value(tokenKey{}).(string)
	return tok, ok
}

// Live reports whether a token currently names a session.
func (s *MemStore) Live(tok string) bool {
	s.mu.Lock()
	defer s.mu.Unlock()
	_, ok := s.sessions[tok]
	return ok
}

// SessionFields returns the names of the fields set in a session (for state keys).
func (s *MemStore) SessionFields(tok string) map[string][]byte {
	s.mu.Lock()
	defer s.mu.Unlock()
	ss, ok := s.sessions[tok]
	if !ok {
		return nil
	}
	out := map[string][]byte{}
	for k, v := range ss.fields {
		out[k] = v
	}
	return out
}

func (s *MemStore) set(ctx context.Context, method, field string, v any) error {
	if err := s.hook(ctx, method); err != nil {
		return err
	}
	b, err := cbor.Marshal(v)
	if err != nil {
		return err
	}
	tok, _ := ctx.Value(tokenKey{}).(string)
	s.mu.Lock()
	defer s.mu.Unlock()
	ss, ok := s.sessions[tok]
	if !ok {
		return fdo.ErrInvalidSession
	}
	ss.fields[field] = b
	return nil
}

func (s *MemStore) get(ctx context.Context, method, field string, v any) error {
	if err := s.hook(ctx, method); err != nil {
		return err
	}
	tok, _ := ctx.Value(tokenKey{}).(string)
	s.mu.Lock()
	ss, ok := s.sessions[tok]
	var b []byte
	if ok {
		b, ok = ss.fields[field]
		if !ok {
			s.mu.Unlock()
			return fdo.ErrNotFound
		}
	}
	s.mu.Unlock()
	if !ok {
		return fdo.ErrInvalidSession
	}
	return cbor.Unmarshal(b, v)
}

// ---- DI ----

func (s *MemStore) SetDeviceCertChain(ctx context.Context, chain []*x509.Certificate) error {
	c := make([]*cbor.X509Certificate, len(chain))
	for i, x := range chain {
		c[i] = (*cbor.X509Certificate)(x)
	}
	return s.set(ctx, "SetDeviceCertChain", "devchain", c)
}

func (s *MemStore) DeviceCertChain(ctx context.Context) ([]*x509.Certificate, error) {
	var c []*cbor.X509Certificate
	if err := s.get(ctx, "DeviceCertChain", "devchain", &c); err != nil {
		return nil, err
	}
	out := make([]*x509.Certificate, len(c))
	for i, x := range c {
		out[i] = (*x509.Certificate)(x)
	}
	return out, nil
}

func (s *MemStore) SetIncompleteVoucherHeader(ctx context.Context, ovh *fdo.VoucherHeader) error {
	return s.set(ctx, "SetIncompleteVoucherHeader", "ovh", ovh)
}

func (s *MemStore) IncompleteVoucherHeader(ctx context.Context) (*fdo.VoucherHeader, error) {
	var ovh fdo.VoucherHeader
	if err := s.get(ctx, "IncompleteVoucherHeader", "ovh", &ovh); err != nil {
		return nil, err
	}
	return &ovh, nil
}

// ---- TO0 / TO1 ----

func (s *MemStore) SetTO0SignNonce(ctx context.Context, n protocol.Nonce) error {
	return s.set(ctx, "SetTO0SignNonce", "to0nonce", n)
}
func (s *MemStore) TO0SignNonce(ctx context.Context) (n protocol.Nonce, err error) {
	err = s.get(ctx, "TO0SignNonce", "to0nonce", &n)
	return
}
func (s *MemStore) SetTO1ProofNonce(ctx context.Context, n protocol.Nonce) error {
	return s.set(ctx, "SetTO1ProofNonce", "to1nonce", n)
}
func (s *MemStore) TO1ProofNonce(ctx context.Context) (n protocol.Nonce, err error) {
	err = s.get(ctx, "TO1ProofNonce", "to1nonce", &n)
	return
}

// ---- TO2 ----

func (s *MemStore) SetGUID(ctx context.Context, g protocol.GUID) error {
	return s.set(ctx, "SetGUID", "guid", g)
}
func (s *MemStore) GUID(ctx context.Context) (g protocol.GUID, err error) {
	err = s.get(ctx, "GUID", "guid", &g)
	return
}
func (s *MemStore) SetRvInfo(ctx context.Context, rv [][]protocol.RvInstruction) error {
	return s.set(ctx, "SetRvInfo", "rvinfo", rv)
}
func (s *MemStore) RvInfo(ctx context.Context) (rv [][]protocol.RvInstruction, err error) {
	err = s.get(ctx, "RvInfo", "rvinfo", &rv)
	return
}
func (s *MemStore) SetReplacementGUID(ctx context.Context, g protocol.GUID) error {
	return s.set(ctx, "SetReplacementGUID", "rguid", g)
}
func (s *MemStore) ReplacementGUID(ctx context.Context) (g protocol.GUID, err error) {
	err = s.get(ctx, "ReplacementGUID", "rguid", &g)
	return
}
func (s *MemStore) SetReplacementHmac(ctx context.Context, h protocol.Hmac) error {
	return s.set(ctx, "SetReplacementHmac", "rhmac", h)
}
func (s *MemStore) ReplacementHmac(ctx context.Context) (h protocol.Hmac, err error) {
	err = s.get(ctx, "ReplacementHmac", "rhmac", &h)
	return
}

type xsessRec struct {
	Suite string
	State []byte
}

func (s *MemStore) SetXSession(ctx context.Context, suite kex.Suite, sess kex.Session) error {
	m, ok := sess.(encoding.BinaryMarshaler)
	if !ok {
		return fmt.Errorf("key exchange state does not support binary marshaling")
	}
	b, err := m.MarshalBinary()
	if err != nil {
		return err
	}
	return s.set(ctx, "SetXSession", "xsess", xsessRec{string(suite), b})
}

func (s *MemStore) XSession(ctx context.Context) (kex.Suite, kex.Session, error) {
	var r xsessRec
	if err := s.get(ctx, "XSession", "xsess", &r); err != nil {
		return "", nil, err
	}
	sess := kex.Suite(r.Suite).New(nil, 1)
	u, ok := sess.(encoding.BinaryUnmarshaler)
	if !ok {
		return "", nil, fmt.Errorf("key exchange state does not support binary unmarshaling")
	}
	if err := u.UnmarshalBinary(r.State); err != nil {
		return "", nil, err
	}
	return kex.Suite(r.Suite), sess, nil
}

func (s *MemStore) SetProveDeviceNonce(ctx context.Context, n protocol.Nonce) error {
	return s.set(ctx, "SetProveDeviceNonce", "pdnonce", n)
}
func (s *MemStore) ProveDeviceNonce(ctx context.Context) (n protocol.Nonce, err error) {
	err = s.get(ctx, "ProveDeviceNonce", "pdnonce", &n)
	return
}
func (s *MemStore) SetSetupDeviceNonce(ctx context.Context, n protocol.Nonce) error {
	return s.set(ctx, "SetSetupDeviceNonce", "sdnonce", n)
}
func (s *MemStore) SetupDeviceNonce(ctx context.Context) (n protocol.Nonce, err error) {
	err = s.get(ctx, "SetupDeviceNonce", "sdnonce", &n)
	return
}
func (s *MemStore) SetMTU(ctx context.Context, m uint16) error { return s.set(ctx, "SetMTU", "mtu", m) }
func (s *MemStore) MTU(ctx context.Context) (m uint16, err error) {
	err = s.get(ctx, "MTU", "mtu", &m)
	return
}

type devmodRec struct {
	Devmod   []byte
	Modules  []string
	Complete bool
}

func (s *MemStore) SetDevmod(ctx context.Context, d serviceinfo.Devmod, modules []string, complete bool) error {
	b, err := cbor.Marshal(d)
	if err != nil {
		return err
	}
	return s.set(ctx, "SetDevmod", "devmod", devmodRec{b, modules, complete})
}

func (s *MemStore) Devmod(ctx context.Context) (d serviceinfo.Devmod, modules []string, complete bool, err error) {
	var r devmodRec
	if err = s.get(ctx, "Devmod", "devmod", &r); err != nil {
		return
	}
	err = cbor.Unmarshal(r.Devmod, &d)
	return d, r.Modules, r.Complete, err
}

// ---- vouchers ----

func (s *MemStore) AddVoucher(ctx context.Context, ov *fdo.Voucher) error {
	if err := s.hook(ctx, "AddVoucher"); err != nil {
		return err
	}
	b, err := cbor.Marshal(ov)
	if err != nil {
		return err
	}
	tok, _ := ctx.Value(tokenKey{}).(string)
	s.mu.Lock()
	defer s.mu.Unlock()
	s.vouchers[ov.Header.Val.GUID] = b
	s.journal(Effect{Kind: "AddVoucher", Token: tok, GUID: ov.Header.Val.GUID, Data: b})
	return nil
}

func (s *MemStore) ReplaceVoucher(ctx context.Context, old protocol.GUID, ov *fdo.Voucher) error {
	if err := s.hook(ctx, "ReplaceVoucher"); err != nil {
		return err
	}
	b, err := cbor.Marshal(ov)
	if err != nil {
		return err
	}
	tok, _ := ctx.Value(tokenKey{}).(string)
	s.mu.Lock()
	defer s.mu.Unlock()
	delete(s.vouchers, old)
	s.vouchers[ov.Header.Val.GUID] = b
	s.journal(Effect{Kind: "ReplaceVoucher", Token: tok, GUID: ov.Header.Val.GUID, Old: old, Data: b})
	return nil
}

func (s *MemStore) RemoveVoucher(ctx context.Context, g protocol.GUID) (*fdo.Voucher, error) {
	if err := s.hook(ctx, "RemoveVoucher"); err != nil {
		return nil, err
	}
	s.mu.Lock()
	b, ok := s.vouchers[g]
	if ok {
		delete(s.vouchers, g)
		s.journal(Effect{Kind: "RemoveVoucher", GUID: g})
	}
	s.mu.Unlock()
	if !ok {
		return nil, fdo.ErrNotFound
	}
	var ov fdo.Voucher
	if err := cbor.Unmarshal(b, &ov); err != nil {
		return nil, err
	}
	return &ov, nil
}

func (s *MemStore) Voucher(ctx context.Context, g protocol.GUID) (*fdo.Voucher, error) {
	if err := s.hook(ctx, "Voucher"); err != nil {
		return nil, err
	}
	s.mu.Lock()
	b, ok := s.vouchers[g]
	s.mu.Unlock()
	if !ok {
		return nil, fdo.ErrNotFound
	}
	var ov fdo.Voucher
	if err := cbor.Unmarshal(b, &ov); err != nil {
		return nil, err
	}
	return &ov, nil
}

// PutVoucherAs files a voucher under an arbitrary GUID (an owner that answers for a GUID with some other voucher).
func (s *MemStore) PutVoucherAs(g protocol.GUID, b []byte) {
	s.mu.Lock()
	s.vouchers[g] = b
	s.mu.Unlock()
}

// VoucherBytes returns the stored CBOR of a voucher.
func (s *MemStore) VoucherBytes(g protocol.GUID) ([]byte, bool) {
	s.mu.Lock()
	defer s.mu.Unlock()
	b, ok := s.vouchers[g]
	return b, ok
}

// AllVouchers returns a snapshot guid -> CBOR.
func (s *MemStore) AllVouchers() map[protocol.GUID][]byte {
	s.mu.Lock()
	defer s.mu.Unlock()
	out := map[protocol.GUID][]byte{}
	for k, v := range s.vouchers {
		out[k] = v
	}
	return out
}

// ---- rendezvous blobs ----

func (s *MemStore) SetRVBlob(ctx context.Context, ov *fdo.Voucher, to1d *cose.Sign1[protocol.To1d, []byte], exp time.Time) error {
	if err := s.hook(ctx, "SetRVBlob"); err != nil {
		return err
	}
	ob, err := cbor.Marshal(ov)
	if err != nil {
		return err
	}
	tb, err := cbor.Marshal(to1d.Tag())
	if err != nil {
		return err
	}
	tok, _ := ctx.Value(tokenKey{}).(string)
	s.mu.Lock()
	defer s.mu.Unlock()
	s.blobs[ov.Header.Val.GUID] = blobRec{tb, ob, exp}
	s.journal(Effect{Kind: "SetRVBlob", Token: tok, GUID: ov.Header.Val.GUID, Data: tb, Exp: exp})
	return nil
}

func (s *MemStore) RVBlob(ctx context.Context, g protocol.GUID) (*cose.Sign1[protocol.To1d, []byte], *fdo.Voucher, error) {
	if err := s.hook(ctx, "RVBlob"); err != nil {
		return nil, nil, err
	}
	s.mu.Lock()
	r, ok := s.blobs[g]
	skew := s.Skew
	s.mu.Unlock()
	if !ok || !time.Now().Add(skew).Before(r.exp) {
		return nil, nil, fdo.ErrNotFound
	}
	var t cose.Sign1Tag[protocol.To1d, []byte]
	if err := cbor.Unmarshal(r.to1d, &t); err != nil {
		return nil, nil, err
	}
	var ov fdo.Voucher
	if err := cbor.Unmarshal(r.ov, &ov); err != nil {
		return nil, nil, err
	}
	return t.Untag(), &ov, nil
}

// BlobBytes returns the stored to1d CBOR and expiry.
func (s *MemStore) BlobBytes(g protocol.GUID) ([]byte, time.Time, bool) {
	s.mu.Lock()
	defer s.mu.Unlock()
	r, ok := s.blobs[g]
	return r.to1d, r.exp, ok
}

// ---- keys ----

// AddKey registers an owner/manufacturer key.
func (s *MemStore) AddKey(t protocol.KeyType, bits int, k crypto.Signer, chain []*x509.Certificate) {
	s.keys[normKey(t, bits)] = ownerKey{k, chain}
}

func normKey(t protocol.KeyType, bits int) keyID {
	switch t {
	case protocol.Secp256r1KeyType, protocol.Secp384r1KeyType:
		bits = 0
	case protocol.Rsa2048RestrKeyType:
		bits = 2048
	}
	return keyID{t, bits}
}

func (s *MemStore) OwnerKey(ctx context.Context, t protocol.KeyType, bits int) (crypto.Signer, []*x509.Certificate, error) {
	if err := s.hook(ctx, "OwnerKey"); err != nil {
		return nil, nil, err
	}
	k, ok := s.keys[normKey(t, bits)]
	if !ok {
		return nil, nil, fdo.ErrNotFound
	}
	if s.OpaqueKeys {
		return OpaqueSigner{k.Key}, k.Chain, nil
	}
	return k.Key, k.Chain, nil
}

// OpaqueSigner hides the concrete key type behind crypto.Signer, the way an HSM-, KMS- or TPM-backed key is handed
// out: the interface promises nothing more.
type OpaqueSigner struct{ crypto.Signer }

func (s *MemStore) ManufacturerKey(ctx context.Context, t protocol.KeyType, bits int) (crypto.Signer, []*x509.Certificate, error) {
	return s.OwnerKey(ctx, t, bits)
}

// SetDeviceSelfInfo is the optional DI hook (ignored).
func (s *MemStore) SetDeviceSelfInfo(ctx context.Context, info *custom.DeviceMfgInfo) error {
	return s.hook(ctx, "SetDeviceSelfInfo")
}

// ---- module state machine (per token) ----

// Modules returns a serviceinfo.ModuleStateMachine bound to this store.
func (s *MemStore) Modules() serviceinfo.ModuleStateMachine { return &msm{s} }

type msm struct{ s *MemStore }

func (m *msm) state(ctx context.Context) (*session, string, error) {
	tok, _ := ctx.Value(tokenKey{}).(string)
	ss, ok := m.s.sessions[tok]
	if !ok {
		return nil, tok, fdo.ErrInvalidSession
	}
	return ss, tok, nil
}

func (m *msm) Module(ctx context.Context) (string, serviceinfo.OwnerModule, error) {
	if err := m.s.hook(ctx, "Module"); err != nil {
		return "", nil, err
	}
	m.s.mu.Lock()
	defer m.s.mu.Unlock()
	ss, _, err := m.state(ctx)
	if err != nil {
		return "", nil, err
	}
	if ss.mods == nil || !ss.mods.init {
		return "", nil, fmt.Errorf("NextModule never called")
	}
	if ss.mods.idx >= len(ss.mods.list) {
		return "", nil, fmt.Errorf("NextModule already returned false")
	}
	nm := ss.mods.list[ss.mods.idx]
	return nm.Name, nm.Mod, nil
}

func (m *msm) NextModule(ctx context.Context) (bool, error) {
	if err := m.s.hook(ctx, "NextModule"); err != nil {
		return false, err
	}
	m.s.mu.Lock()
	ss, _, err := m.state(ctx)
	if err != nil {
		m.s.mu.Unlock()
		return false, err
	}
	if ss.mods != nil && ss.mods.init {
		ss.mods.idx++
		ok := ss.mods.idx < len(ss.mods.list)
		m.s.mu.Unlock()
		return ok, nil
	}
	m.s.mu.Unlock()
	guid, err := m.s.GUID(ctx)
	if err != nil {
		return false, err
	}
	devmod, supported, complete, err := m.s.Devmod(ctx)
	if err != nil {
		return false, err
	}
	if !complete {
		return false, fmt.Errorf("devmod did not complete")
	}
	var list []NamedModule
	if m.s.OwnerModules != nil {
		for _, nm := range m.s.OwnerModules(ctx, guid, devmod, supported) {
			if m.s.AllModules {
				list = append(list, nm)
				continue
			}
			for _, sup := range supported {
				if sup == nm.Name {
					list = append(list, nm)
					break
				}
			}
		}
	}
	m.s.mu.Lock()
	defer m.s.mu.Unlock()
	ss.mods = &modState{list: list, init: true}
	return len(list) > 0, nil
}

func (m *msm) CleanupModules(ctx context.Context) {
	_ = m.s.hook(ctx, "CleanupModules")
	m.s.mu.Lock()
	defer m.s.mu.Unlock()
	if ss, _, err := m.state(ctx); err == nil {
		ss.mods = nil
	}
}

// ---- persisting module state machine ----

// Rehydratable is an owner module whose whole state can be taken out and put back: the persisting state machine keeps
// no module object between two messages.
type Rehydratable interface {
	serviceinfo.OwnerModule
	Snapshot() []byte
	Restore([]byte)
}

// PersistingModules returns a state machine of the kind the ModulePersister documentation calls option 3: nothing but
// (index of the current module, its serialised state) survives a message; Module() builds a FRESH module object from
// the OwnerModules factory and restores the stored state into it; PersistModule stores the state of the module it is
// given into the single slot; NextModule moves on and empties the slot.
func (s *MemStore) PersistingModules() serviceinfo.ModuleStateMachine { return &pmsm{msm{s}} }

type pmsm struct{ msm }

func (m *pmsm) Module(ctx context.Context) (string, serviceinfo.OwnerModule, error) {
	name, _, err := m.msm.Module(ctx)
	if err != nil {
		return "", nil, err
	}
	m.s.mu.Lock()
	ss, _, _ := m.state(ctx)
	idx, slot := ss.mods.idx, ss.mods.slot
	m.s.mu.Unlock()
	guid, err := m.s.GUID(ctx)
	if err != nil {
		return "", nil, err
	}
	devmod, supported, _, err := m.s.Devmod(ctx)
	if err != nil {
		return "", nil, err
	}
	// a fresh object for the current module
	for _, nm := range m.s.OwnerModules(ctx, guid, devmod, supported) {
		if nm.Name == name {
			_ = idx
			if rh, ok := nm.Mod.(Rehydratable); ok {
				if slot != nil {
					rh.Restore(slot)
				}
				return name, rh, nil
			}
			return "", nil, fmt.Errorf("module %q cannot be rehydrated", name)
		}
	}
	return "", nil, fmt.Errorf("module %q not produced by the factory", name)
}

func (m *pmsm) NextModule(ctx context.Context) (bool, error) {
	ok, err := m.msm.NextModule(ctx)
	m.s.mu.Lock()
	if ss, _, e := m.state(ctx); e == nil && ss.mods != nil {
		ss.mods.slot = nil
	}
	m.s.mu.Unlock()
	return ok, err
}

// PersistModule implements serviceinfo.ModulePersister.
func (m *pmsm) PersistModule(ctx context.Context, name string, module serviceinfo.OwnerModule) error {
	rh, ok := module.(Rehydratable)
	if !ok {
		return nil // devmod and other modules the machine does not own
	}
	m.s.mu.Lock()
	defer m.s.mu.Unlock()
	ss, _, err := m.state(ctx)
	if err != nil {
		return err
	}
	if ss.mods == nil {
		return nil
	}
	ss.mods.slot = rh.Snapshot()
	return nil
}
