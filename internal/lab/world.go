package lab

import (
	"bytes"
	"context"
	"fmt"
	"io"

	fdo "github.com/fido-device-onboard/go-fdo"
	"github.com/fido-device-onboard/go-fdo/cbor"
	"github.com/fido-device-onboard/go-fdo/cose"
	"github.com/fido-device-onboard/go-fdo/kex"
	"github.com/fido-device-onboard/go-fdo/protocol"

	"verif/internal/keys"
)

// PlainMsg is one plaintext protocol message observed at the fdo.Transport seam.
type PlainMsg struct {
	Type int
	Dir  string // "req" or "resp"
	Body []byte
}

// RecTransport records plaintext requests and responses around an inner transport.
type RecTransport struct {
	Inner fdo.Transport
	Log   []PlainMsg
}

// Send implements fdo.Transport.
func (t *RecTransport) Send(ctx context.Context, msgType uint8, msg any, sess kex.Session) (uint8, io.ReadCloser, error) {
	if b, err := cbor.Marshal(msg); err == nil {
		t.Log = append(t.Log, PlainMsg{int(msgType), "req", b})
	}
	typ, rc, err := t.Inner.Send(ctx, msgType, msg, sess)
	if err != nil {
		return typ, rc, err
	}
	b, rerr := io.ReadAll(rc)
	_ = rc.Close()
	if rerr != nil {
		return typ, nil, rerr
	}
	t.Log = append(t.Log, PlainMsg{int(typ), "resp", b})
	return typ, io.NopCloser(bytes.NewReader(b)), nil
}

// World is a three-party deployment: manufacturer, rendezvous, owner(s), and one device.
type World struct {
	Kind   keys.Kind
	Enc    protocol.KeyEncoding
	Mfg    *Server
	RV     *Server
	Owner  *Server
	Owner2 *Server
	Dev    *Device
	WMfg   *Wire
	WRV    *Wire
	WOwner *Wire
}

// NewWorld builds servers and a device for a key kind / encoding (no protocol has run yet).
func NewWorld(k keys.Kind, enc protocol.KeyEncoding) *World {
	w := &World{Kind: k, Enc: enc}
	w.Mfg = NewMemServer("mfg", "mfg").UseKind(k)
	w.RV = NewMemServer("rv", "owner3").UseKind(k) // the RV server's own keys are irrelevant
	w.Owner = NewMemServer("owner", "owner1").UseKind(k)
	w.Owner2 = NewMemServer("owner2", "owner2").UseKind(k)
	w.Dev = NewDevice(k, enc, "device")
	w.WMfg, w.WRV, w.WOwner = NewWire(w.Mfg), NewWire(w.RV), NewWire(w.Owner)
	return w
}

// Manufacture runs DI and hands the voucher to the first owner through `hops` extensions
// (hops >= 1; intermediate holders use the owner2/owner3 rings, the last one is Owner).
func (w *World) Manufacture(ctx context.Context, hops int) (*fdo.Voucher, error) {
	if err := w.Dev.DI(ctx, w.WMfg.Transport()); err != nil {
		return nil, fmt.Errorf("DI: %w", err)
	}
	ov, err := w.Mfg.State.RemoveVoucher(ctx, w.Dev.Cred.GUID)
	if err != nil {
		return nil, err
	}
	signer := w.Mfg.OwnerSigner(w.Kind)
	roles := []string{"owner2", "owner3"}
	for i := 0; i < hops-1; i++ {
		next := keys.Get(w.Kind.Alg, roles[i%2])
		if ov, err = Extend(ov, signer, next, w.Kind); err != nil {
			return nil, fmt.Errorf("extend hop %d: %w", i, err)
		}
		signer = next
	}
	if ov, err = Extend(ov, signer, w.Owner.OwnerSigner(w.Kind), w.Kind); err != nil {
		return nil, fmt.Errorf("extend to owner: %w", err)
	}
	if err := w.Owner.State.AddVoucher(ctx, ov); err != nil {
		return nil, err
	}
	return ov, nil
}

// Register runs the real TO0 client of the owner against the rendezvous server.
func (w *World) Register(ctx context.Context, tr fdo.Transport, addrs []protocol.RvTO2Addr) (uint32, error) {
	c := &fdo.TO0Client{Vouchers: w.Owner.State, OwnerKeys: w.Owner.State}
	return c.RegisterBlob(ctx, tr, w.Dev.Cred.GUID, addrs)
}

// DefaultAddrs is a small TO2 address list.
func DefaultAddrs() []protocol.RvTO2Addr {
	dns := "owner.verif.example"
	return []protocol.RvTO2Addr{{DNSAddress: &dns, Port: 8080, TransportProtocol: protocol.HTTPTransport}}
}

// HonestRun performs DI, extension, TO0, TO1, TO2 and returns the plaintext transcript.
func (w *World) HonestRun(ctx context.Context, hops int, suite kex.Suite, cipher kex.CipherSuiteID) ([]PlainMsg, *cose.Sign1[protocol.To1d, []byte], error) {
	var log []PlainMsg
	rec := func(tr fdo.Transport) *RecTransport { return &RecTransport{Inner: tr} }
	tmfg := rec(w.WMfg.Transport())
	if err := w.Dev.DI(ctx, tmfg); err != nil {
		return nil, nil, fmt.Errorf("DI: %w", err)
	}
	log = append(log, tmfg.Log...)
	ov, err := w.Mfg.State.RemoveVoucher(ctx, w.Dev.Cred.GUID)
	if err != nil {
		return nil, nil, err
	}
	signer := w.Mfg.OwnerSigner(w.Kind)
	roles := []string{"owner2", "owner3"}
	for i := 0; i < hops-1; i++ {
		next := keys.Get(w.Kind.Alg, roles[i%2])
		if ov, err = Extend(ov, signer, next, w.Kind); err != nil {
			return nil, nil, err
		}
		signer = next
	}
	if ov, err = Extend(ov, signer, w.Owner.OwnerSigner(w.Kind), w.Kind); err != nil {
		return nil, nil, err
	}
	if err := w.Owner.State.AddVoucher(ctx, ov); err != nil {
		return nil, nil, err
	}
	t0 := rec(w.WRV.Transport())
	if _, err := w.Register(ctx, t0, DefaultAddrs()); err != nil {
		return nil, nil, fmt.Errorf("TO0: %w", err)
	}
	log = append(log, t0.Log...)
	t1 := rec(w.WRV.Transport())
	to1d, err := w.Dev.TO1(ctx, t1)
	if err != nil {
		return nil, nil, fmt.Errorf("TO1: %w", err)
	}
	log = append(log, t1.Log...)
	t2 := rec(w.WOwner.Transport())
	cred, err := fdo.TO2(ctx, t2, to1d, w.Dev.TO2Config(suite, cipher))
	if err != nil {
		return nil, nil, fmt.Errorf("TO2: %w", err)
	}
	log = append(log, t2.Log...)
	if cred != nil {
		w.Dev.Cred = cred
	}
	return log, to1d, nil
}

// Agree checks that a stored voucher verifies against the credential a device holds: header MAC under the
// device secret, manufacturer-key hash, GUID, rendezvous info and device-certificate hash, with the library's
// own Verify* methods. It returns "" or the first disagreement.
func Agree(cred *fdo.DeviceCredential, dev *Device, voucher []byte) string {
	var ov fdo.Voucher
	if err := cbor.Unmarshal(voucher, &ov); err != nil {
		return "stored voucher does not decode: " + err.Error()
	}
	h256, h384 := dev.Hmacs()
	if err := ov.VerifyHeader(h256, h384); err != nil {
		return "VerifyHeader: " + err.Error()
	}
	if err := ov.VerifyManufacturerKey(cred.PublicKeyHash); err != nil {
		return "VerifyManufacturerKey: " + err.Error()
	}
	if ov.Header.Val.GUID != cred.GUID {
		return fmt.Sprintf("GUID %x in voucher, %x in credential", ov.Header.Val.GUID, cred.GUID)
	}
	a, _ := cbor.Marshal(ov.Header.Val.RvInfo)
	b, _ := cbor.Marshal(cred.RvInfo)
	if !bytes.Equal(a, b) {
		return fmt.Sprintf("rendezvous info differs: voucher %x credential %x", a, b)
	}
	if ov.Header.Val.DeviceInfo != cred.DeviceInfo {
		return "device info differs"
	}
	if err := ov.VerifyCertChainHash(); err != nil {
		return "VerifyCertChainHash: " + err.Error()
	}
	if err := ov.VerifyEntries(); err != nil {
		return "VerifyEntries: " + err.Error()
	}
	return ""
}
