// Package probe wraps calls into the library with panic capture (value + top go-fdo frame), exact
// allocation measurement and allocation-site attribution.
package probe

import (
	"fmt"
	"regexp"
	"runtime"
	"sort"
	"strings"
)

// Panic describes a recovered panic.
type Panic struct {
	Value string
	Frame string // top-most function inside go-fdo on the panicking stack
}

var digits = regexp.MustCompile(`[0-9]+`)
var hexaddr = regexp.MustCompile(`0x[0-9a-f]+`)

// Key is a stable signature for known-findings: top library frame + normalised message.
func (p *Panic) Key() string {
	msg := hexaddr.ReplaceAllString(p.Value, "0xN")
	msg = digits.ReplaceAllString(msg, "N")
	if len(msg) > 80 {
		msg = msg[:80]
	}
	return "panic:" + p.Frame + ":" + msg
}

// Call runs f and returns a *Panic if it panicked.
func Call(f func()) (p *Panic) {
	defer func() {
		if r := recover(); r != nil {
			p = &Panic{Value: fmt.Sprint(r), Frame: topLibFrame()}
		}
	}()
	f()
	return nil
}

func shortFn(name string) string {
	name = strings.TrimPrefix(name, "github.com/fido-device-onboard/go-fdo/")
	name = strings.TrimPrefix(name, "github.com/fido-device-onboard/go-fdo.")
	// strip generic instantiation noise
	if i := strings.Index(name, "[..."); i >= 0 {
		name = name[:i] + name[i+5:]
	}
	return name
}

func topLibFrame() string {
	pcs := make([]uintptr, 64)
	n := runtime.Callers(3, pcs)
	frames := runtime.CallersFrames(pcs[:n])
	for {
		fr, more := frames.Next()
		if strings.Contains(fr.Function, "fido-device-onboard/go-fdo") {
			return shortFn(fr.Function)
		}
		if !more {
			break
		}
	}
	return "?"
}

// Alloc returns the exact number of heap bytes allocated while running f (single-goroutine callers only;
// uses runtime.ReadMemStats, which flushes per-P caches).
func Alloc(f func()) uint64 {
	var a, b runtime.MemStats
	runtime.ReadMemStats(&a)
	f()
	runtime.ReadMemStats(&b)
	return b.TotalAlloc - a.TotalAlloc
}

// AllocSite re-runs f with MemProfileRate=1 and returns "leaf<-firstLibFrame" of the stack that allocated
// the most bytes during f.
func AllocSite(f func()) string {
	old := runtime.MemProfileRate
	runtime.MemProfileRate = 1
	defer func() { runtime.MemProfileRate = old }()
	snapshot := func() map[string]int64 {
		runtime.GC()
		runtime.GC()
		var recs []runtime.MemProfileRecord
		n, _ := runtime.MemProfile(nil, true)
		for {
			recs = make([]runtime.MemProfileRecord, n+64)
			var ok bool
			n, ok = runtime.MemProfile(recs, true)
			if ok {
				recs = recs[:n]
				break
			}
		}
		m := map[string]int64{}
		for _, r := range recs {
			m[siteOf(r.Stack())] += r.AllocBytes
		}
		return m
	}
	before := snapshot()
	func() {
		defer func() { _ = recover() }()
		f()
	}()
	after := snapshot()
	type kv struct {
		k string
		v int64
	}
	var d []kv
	for k, v := range after {
		if dv := v - before[k]; dv > 0 {
			d = append(d, kv{k, dv})
		}
	}
	if len(d) == 0 {
		return "?"
	}
	sort.Slice(d, func(i, j int) bool { return d[i].v > d[j].v })
	return d[0].k
}

func siteOf(stk []uintptr) string {
	frames := runtime.CallersFrames(stk)
	leaf, lib := "", ""
	for {
		fr, more := frames.Next()
		fn := fr.Function
		if leaf == "" && fn != "" && !strings.HasPrefix(fn, "runtime.") {
			leaf = shortFn(fn)
		}
		if strings.Contains(fn, "fido-device-onboard/go-fdo") {
			lib = shortFn(fn)
			break
		}
		if !more {
			break
		}
	}
	if lib == "" {
		lib = "?"
	}
	if leaf == lib {
		return lib
	}
	return leaf + "<-" + lib
}
