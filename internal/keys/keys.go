// Package keys provides a cached key ring (keys are inputs, not code under test). Keys are stored as
// PKCS#8 PEM under /verif/.cache/keys and generated on first use.
package keys

import (
	"crypto"
	"crypto/ecdsa"
	"crypto/elliptic"
	"crypto/rand"
	"crypto/rsa"
	"crypto/x509"
	"crypto/x509/pkix"
	"encoding/pem"
	"fmt"
	"math/big"
	"os"
	"path/filepath"
	"strings"
	"sync"
	"time"

	"github.com/fido-device-onboard/go-fdo/protocol"

	"verif/internal/ev"
)

// Kind is one of the six key configurations the library supports.
type Kind struct {
	Name string // ec256 ec384 rsa2048restr rsapkcs3072 rsapss2048 rsapss3072
	Type protocol.KeyType
	Bits int    // RSA bits or 0
	Alg  string // ec256 ec384 rsa2048 rsa3072: the underlying key material class
	PSS  bool
}

// Kinds lists all key configurations.
var Kinds = []Kind{
	{"ec256", protocol.Secp256r1KeyType, 0, "ec256", false},
	{"ec384", protocol.Secp384r1KeyType, 0, "ec384", false},
	{"rsa2048restr", protocol.Rsa2048RestrKeyType, 2048, "rsa2048", false},
	{"rsapkcs3072", protocol.RsaPkcsKeyType, 3072, "rsa3072", false},
	{"rsapss2048", protocol.RsaPssKeyType, 2048, "rsa2048", true},
	{"rsapss3072", protocol.RsaPssKeyType, 3072, "rsa3072", true},
}

// BoundaryKinds are EC key configurations whose public point has a coordinate with a leading zero byte (about one
// key in 128 per coordinate): encoders that strip leading zeros and parsers that demand fixed widths meet only here.
// They are not part of Kinds (the full products run over Kinds); checks that want them ask for them.
var BoundaryKinds = []Kind{
	{"ec256-x0", protocol.Secp256r1KeyType, 0, "ec256x0", false},
	{"ec256-y0", protocol.Secp256r1KeyType, 0, "ec256y0", false},
	{"ec384-x0", protocol.Secp384r1KeyType, 0, "ec384x0", false},
	{"ec384-y0", protocol.Secp384r1KeyType, 0, "ec384y0", false},
}

// IsBoundary reports whether k is one of BoundaryKinds.
func (k Kind) IsBoundary() bool { return len(k.Alg) > 5 && k.Alg[:2] == "ec" }

// KindByName finds a Kind.
func KindByName(n string) Kind {
	for _, k := range BoundaryKinds {
		if k.Name == n {
			return k
		}
	}
	for _, k := range Kinds {
		if k.Name == n {
			return k
		}
	}
	panic("unknown key kind " + n)
}

// Encodings valid for a kind.
func (k Kind) Encodings() []protocol.KeyEncoding {
	if k.Bits == 0 {
		return []protocol.KeyEncoding{protocol.X509KeyEnc, protocol.X5ChainKeyEnc, protocol.CoseKeyEnc}
	}
	return []protocol.KeyEncoding{protocol.X509KeyEnc, protocol.X5ChainKeyEnc}
}

var (
	mu    sync.Mutex
	cache = map[string]crypto.Signer{}
)

func dir() string { return filepath.Join(ev.Root, ".cache", "keys") }

// Get returns the key named "<alg>-<role>" (alg in ec256, ec384, rsa2048, rsa3072), generating and
// caching it if absent.
func Get(alg, role string) crypto.Signer {
	name := alg + "-" + role
	mu.Lock()
	defer mu.Unlock()
	if k, ok := cache[name]; ok {
		return k
	}
	path := filepath.Join(dir(), name+".pem")
	if b, err := os.ReadFile(path); err == nil {
		if blk, _ := pem.Decode(b); blk != nil {
			if k, err := x509.ParsePKCS8PrivateKey(blk.Bytes); err == nil {
				cache[name] = k.(crypto.Signer)
				return cache[name]
			}
		}
	}
	var k crypto.Signer
	var err error
	switch alg {
	case "ec256":
		k, err = ecdsa.GenerateKey(elliptic.P256(), rand.Reader)
	case "ec384":
		k, err = ecdsa.GenerateKey(elliptic.P384(), rand.Reader)
	case "ec256x0", "ec256y0", "ec384x0", "ec384y0":
		curve, size := elliptic.P256(), 32
		if alg[:5] == "ec384" {
			curve, size = elliptic.P384(), 48
		}
		for {
			ek, e := ecdsa.GenerateKey(curve, rand.Reader)
			if e != nil {
				panic(e)
			}
			c := ek.X
			if alg[5] == 'y' {
				c = ek.Y
			}
			if len(c.Bytes()) < size {
				k = ek
				break
			}
		}
	case "rsa2048":
		k, err = rsa.GenerateKey(rand.Reader, 2048)
	case "rsa3072":
		k, err = rsa.GenerateKey(rand.Reader, 3072)
	default:
		panic("unknown key alg " + alg)
	}
	if err != nil {
		panic(err)
	}
	der, err := x509.MarshalPKCS8PrivateKey(k)
	if err != nil {
		panic(err)
	}
	_ = os.MkdirAll(dir(), 0o755)
	tmp := fmt.Sprintf("%s.%d.tmp", path, os.Getpid())
	if err := os.WriteFile(tmp, pem.EncodeToMemory(&pem.Block{Type: "PRIVATE KEY", Bytes: der}), 0o600); err == nil {
		_ = os.Rename(tmp, path)
	}
	cache[name] = k
	return k
}

// Pregenerate creates every key used by the checks (called from setup).
func Pregenerate() {
	var wg sync.WaitGroup
	for _, alg := range []string{"ec256", "ec384", "rsa2048", "rsa3072", "ec256x0", "ec256y0", "ec384x0", "ec384y0"} {
		for _, role := range Roles {
			wg.Add(1)
			go func() { defer wg.Done(); Get(alg, role) }()
		}
	}
	wg.Wait()
}

// Roles used across the lab.
var Roles = []string{"mfg", "owner1", "owner2", "owner3", "stranger", "device", "device2", "devca", "mfg2"}

var certMu sync.Mutex
var certCache = map[string]*x509.Certificate{}

// SelfSigned returns a (cached per process) self-signed CA certificate for a key.
func SelfSigned(name string, k crypto.Signer) *x509.Certificate {
	certMu.Lock()
	defer certMu.Unlock()
	if c, ok := certCache[name]; ok {
		return c
	}
	tmpl := &x509.Certificate{
		SerialNumber:          big.NewInt(int64(len(name)) + 7),
		Subject:               pkix.Name{CommonName: "verif " + name},
		NotBefore:             time.Now().Add(-time.Hour),
		NotAfter:              time.Now().Add(30 * 365 * 24 * time.Hour),
		BasicConstraintsValid: true,
		IsCA:                  true,
		KeyUsage:              x509.KeyUsageDigitalSignature | x509.KeyUsageCertSign,
	}
	if strings.Contains(name, "pss") {
		if rk, ok := k.Public().(*rsa.PublicKey); ok && rk.Size() >= 256 {
			tmpl.SignatureAlgorithm = x509.SHA256WithRSAPSS
		}
	}
	der, err := x509.CreateCertificate(rand.Reader, tmpl, tmpl, k.Public(), k)
	if err != nil {
		panic(err)
	}
	c, err := x509.ParseCertificate(der)
	if err != nil {
		panic(err)
	}
	certCache[name] = c
	return c
}

var chainCache = map[string][]*x509.Certificate{}

// IssuedChain returns (cached per process) a two-certificate chain for a key: the leaf certificate carrying the key,
// issued by a separate CA key, followed by that CA's certificate - the shape X5CHAIN public keys have in deployments
// (a chain of one self-signed certificate cannot tell "the first certificate" from "the last").
func IssuedChain(name string, k crypto.Signer) []*x509.Certificate {
	ca := Get("ec384", "devca")
	caCert := SelfSigned("ec384-devca", ca)
	certMu.Lock()
	defer certMu.Unlock()
	if c, ok := chainCache[name]; ok {
		return c
	}
	tmpl := &x509.Certificate{
		SerialNumber: big.NewInt(int64(len(name)) + 1000),
		Subject:      pkix.Name{CommonName: "verif leaf " + name},
		NotBefore:    time.Now().Add(-time.Hour),
		NotAfter:     time.Now().Add(30 * 365 * 24 * time.Hour),
		KeyUsage:     x509.KeyUsageDigitalSignature,
	}
	der, err := x509.CreateCertificate(rand.Reader, tmpl, caCert, k.Public(), ca)
	if err != nil {
		panic(err)
	}
	leaf, err := x509.ParseCertificate(der)
	if err != nil {
		panic(err)
	}
	chainCache[name] = []*x509.Certificate{leaf, caCert}
	return chainCache[name]
}
