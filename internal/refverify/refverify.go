// Package refverify holds independent reference verifiers (FDO ownership voucher chain, COSE_Sign1, EAT
// claims, to0d/to1d binding) written against the FDO 1.1 / RFC 8152 text on top of refcbor and the Go standard
// library only. They never call the go-fdo code they are the oracle for.
package refverify

import (
	"bytes"
	"crypto"
	"crypto/ecdsa"
	"crypto/elliptic"
	"crypto/hmac"
	"crypto/rsa"
	"crypto/sha256"
	"crypto/sha512"
	"crypto/x509"
	"errors"
	"fmt"
	"hash"
	"math/big"

	rc "verif/internal/refcbor"
)

// IntOf returns the integer value of a uint/nint item.
func IntOf(it *rc.Item) (int64, bool) {
	switch {
	case it == nil:
		return 0, false
	case it.Kind == rc.Uint && it.U < 1<<62:
		return int64(it.U), true
	case it.Kind == rc.Nint && it.U < 1<<62:
		return -int64(it.U) - 1, true
	}
	return 0, false
}

// HashByAlg maps FDO hash algorithm ids to constructors (-16 SHA-256, -43 SHA-384, 5 HMAC-SHA256, 6 HMAC-SHA384).
func HashByAlg(alg int64) func() hash.Hash {
	switch alg {
	case -16, 5:
		return sha256.New
	case -43, 6:
		return sha512.New384
	}
	return nil
}

var sigHash = map[int64]crypto.Hash{-7: crypto.SHA256, -35: crypto.SHA384, -257: crypto.SHA256, -258: crypto.SHA384, -37: crypto.SHA256, -38: crypto.SHA384}

// ParsePublicKeyAnyType decodes the key material of an FDO PublicKey item without relating it to its type label
// (for unauthenticated hints such as CUPHOwnerPubKey, where only the key itself matters).
func ParsePublicKeyAnyType(it *rc.Item) (crypto.PublicKey, error) {
	if it == nil || it.Kind != rc.Array || len(it.Items) != 3 {
		return nil, errors.New("public key: not a 3-array")
	}
	for _, t := range []uint64{10, 1} {
		c := it.Clone()
		c.Items[0] = rc.U(t)
		if k, err := ParsePublicKey(c); err == nil {
			return k, nil
		}
	}
	return nil, errors.New("public key: not parseable")
}

// ParsePublicKey decodes an FDO PublicKey item [type, enc, body].
func ParsePublicKey(it *rc.Item) (crypto.PublicKey, error) {
	if it == nil || it.Kind != rc.Array || len(it.Items) != 3 {
		return nil, errors.New("public key: not a 3-array")
	}
	typ, ok1 := IntOf(it.Items[0])
	enc, ok2 := IntOf(it.Items[1])
	if !ok1 || !ok2 {
		return nil, errors.New("public key: type/encoding not integers")
	}
	body := it.Items[2]
	var pub crypto.PublicKey
	switch enc {
	case 1: // X509: bstr DER SubjectPublicKeyInfo
		if body.Kind != rc.Bytes && body.Kind != rc.Text { // the decoder treats byte and text strings alike (value level)
			return nil, errors.New("public key: x509 body not bstr")
		}
		k, err := x509.ParsePKIXPublicKey(body.B)
		if err != nil {
			return nil, err
		}
		pub = k
	case 2: // X5CHAIN: array of bstr DER certificates
		if body.Kind != rc.Array || len(body.Items) == 0 || (body.Items[0].Kind != rc.Bytes && body.Items[0].Kind != rc.Text) {
			return nil, errors.New("public key: x5chain body")
		}
		c, err := x509.ParseCertificate(body.Items[0].B)
		if err != nil {
			return nil, err
		}
		pub = c.PublicKey
	case 3: // COSE_Key
		if body.Kind != rc.Map {
			return nil, errors.New("public key: cose body not a map")
		}
		get := func(label int64) *rc.Item {
			for i := 0; i+1 < len(body.Items); i += 2 {
				if v, ok := IntOf(body.Items[i]); ok && v == label {
					return body.Items[i+1]
				}
			}
			return nil
		}
		if kty, ok := IntOf(get(1)); !ok || kty != 2 {
			return nil, errors.New("public key: cose key type not EC2")
		}
		crv, _ := IntOf(get(-1))
		var curve elliptic.Curve
		switch crv {
		case 1:
			curve = elliptic.P256()
		case 2:
			curve = elliptic.P384()
		default:
			return nil, errors.New("public key: cose curve")
		}
		x, y := get(-2), get(-3)
		str := func(i *rc.Item) bool { return i != nil && (i.Kind == rc.Bytes || i.Kind == rc.Text) }
		if !str(x) || !str(y) {
			return nil, errors.New("public key: cose coordinates")
		}
		pub = &ecdsa.PublicKey{Curve: curve, X: new(big.Int).SetBytes(x.B), Y: new(big.Int).SetBytes(y.B)}
	default:
		return nil, fmt.Errorf("public key: encoding %d", enc)
	}
	switch pub.(type) {
	case *ecdsa.PublicKey:
		if typ != 10 && typ != 11 {
			return nil, errors.New("public key: EC key with non-EC type")
		}
	case *rsa.PublicKey:
		if typ != 1 && typ != 5 && typ != 6 {
			return nil, errors.New("public key: RSA key with non-RSA type")
		}
	default:
		return nil, errors.New("public key: unsupported key")
	}
	return pub, nil
}

// Sign1 is a parsed COSE_Sign1 (tagged or not).
type Sign1 struct {
	Protected   []byte
	Unprotected *rc.Item
	Payload     []byte // nil when null
	Signature   []byte
	Alg         int64
	AlgOK       bool
	Raw         *rc.Item // the 4-array
}

// ParseSign1 parses a COSE_Sign1 item; tag 18 is required when tagged is true.
func ParseSign1(it *rc.Item, tagged bool) (*Sign1, error) {
	if it == nil {
		return nil, errors.New("sign1: nil")
	}
	if it.Kind == rc.Tag {
		if it.U != 18 {
			return nil, errors.New("sign1: wrong tag")
		}
		it = it.Items[0]
	} else if tagged {
		return nil, errors.New("sign1: untagged")
	}
	if it.Kind != rc.Array || len(it.Items) != 4 || it.Items[0].Kind != rc.Bytes || it.Items[1].Kind != rc.Map || it.Items[3].Kind != rc.Bytes {
		return nil, errors.New("sign1: shape")
	}
	s := &Sign1{Protected: it.Items[0].B, Unprotected: it.Items[1], Signature: it.Items[3].B, Raw: it}
	if it.Items[2].Kind == rc.Bytes {
		s.Payload = it.Items[2].B
		if s.Payload == nil {
			s.Payload = []byte{}
		}
	} else if !(it.Items[2].Kind == rc.Simple && (it.Items[2].U == 22 || it.Items[2].U == 23)) {
		return nil, errors.New("sign1: payload type")
	}
	if len(s.Protected) > 0 {
		pm, n, err := rc.Parse(s.Protected)
		if err != nil || n != len(s.Protected) || pm.Kind != rc.Map {
			return nil, errors.New("sign1: protected header")
		}
		for i := 0; i+1 < len(pm.Items); i += 2 {
			if l, ok := IntOf(pm.Items[i]); ok && l == 1 {
				s.Alg, s.AlgOK = IntOf(pm.Items[i+1])
			}
		}
	}
	return s, nil
}

// Verify checks the signature over Sig_structure with external data aad.
func (s *Sign1) Verify(pub crypto.PublicKey, aad []byte) bool {
	if !s.AlgOK || s.Payload == nil {
		return false
	}
	h, ok := sigHash[s.Alg]
	if !ok {
		return false
	}
	hh := h.New()
	hh.Write(rc.Encode(rc.A(rc.T("Signature1"), rc.Bs(s.Protected), rc.Bs(aad), rc.Bs(s.Payload))))
	digest := hh.Sum(nil)
	switch k := pub.(type) {
	case *ecdsa.PublicKey:
		if s.Alg != -7 && s.Alg != -35 {
			return false
		}
		n := (k.Params().N.BitLen() + 7) / 8
		if len(s.Signature) != 2*n {
			return false
		}
		if !k.Curve.IsOnCurve(k.X, k.Y) {
			return false
		}
		return ecdsa.Verify(k, digest, new(big.Int).SetBytes(s.Signature[:n]), new(big.Int).SetBytes(s.Signature[n:]))
	case *rsa.PublicKey:
		switch s.Alg {
		case -257, -258:
			return rsa.VerifyPKCS1v15(k, h, digest, s.Signature) == nil
		case -37, -38:
			return rsa.VerifyPSS(k, h, digest, s.Signature, &rsa.PSSOptions{SaltLength: rsa.PSSSaltLengthEqualsHash, Hash: h}) == nil
		}
	}
	return false
}

// UnprotectedGet returns the value of an integer label in the unprotected map.
func (s *Sign1) UnprotectedGet(label int64) *rc.Item {
	for i := 0; i+1 < len(s.Unprotected.Items); i += 2 {
		if l, ok := IntOf(s.Unprotected.Items[i]); ok && l == label {
			return s.Unprotected.Items[i+1]
		}
	}
	return nil
}

// Voucher is a parsed ownership voucher [ver, bstr header, hmac, certchain/null, entries].
type Voucher struct {
	HeaderBytes []byte   // content of the header bstr (the encoded OVHeader array)
	Header      *rc.Item // decoded header array [ver, guid, rvinfo, devinfo, pubkey, certchainhash/null]
	Hmac        *rc.Item // [alg, value]
	CertChain   *rc.Item // array of bstr or null
	Entries     []*rc.Item
	GUID        []byte
}

// ParseVoucher parses a voucher item.
func ParseVoucher(it *rc.Item) (*Voucher, error) {
	if it == nil || it.Kind != rc.Array || len(it.Items) != 5 || it.Items[1].Kind != rc.Bytes || it.Items[4].Kind != rc.Array {
		return nil, errors.New("voucher: shape")
	}
	v := &Voucher{HeaderBytes: it.Items[1].B, Hmac: it.Items[2], CertChain: it.Items[3], Entries: it.Items[4].Items}
	return v, v.parseHeader()
}

func (v *Voucher) parseHeader() error {
	h, n, err := rc.Parse(v.HeaderBytes)
	if err != nil || n != len(v.HeaderBytes) || h.Kind != rc.Array || len(h.Items) != 6 || h.Items[1].Kind != rc.Bytes || h.Items[3].Kind != rc.Text {
		return errors.New("voucher: header shape")
	}
	v.Header = h
	v.GUID = h.Items[1].B
	return nil
}

// FromParts builds a voucher from the pieces the device receives in TO2 (header bytes, hmac item, entries).
func FromParts(headerBytes []byte, hmacItem *rc.Item, entries []*rc.Item) (*Voucher, error) {
	v := &Voucher{HeaderBytes: headerBytes, Hmac: hmacItem, Entries: entries}
	return v, v.parseHeader()
}

// ManufacturerKey returns the key in the header.
func (v *Voucher) ManufacturerKey() (crypto.PublicKey, error) {
	return ParsePublicKey(v.Header.Items[4])
}

// VerifyHMAC checks the header HMAC under the device secret.
func (v *Voucher) VerifyHMAC(secret []byte) bool {
	if v.Hmac == nil || v.Hmac.Kind != rc.Array || len(v.Hmac.Items) != 2 || v.Hmac.Items[1].Kind != rc.Bytes {
		return false
	}
	alg, ok := IntOf(v.Hmac.Items[0])
	if !ok || (alg != 5 && alg != 6) {
		return false
	}
	m := hmac.New(HashByAlg(alg), secret)
	m.Write(rc.Encode(v.Header)) // canonical re-encoding of the header value (value level)
	return hmac.Equal(m.Sum(nil), v.Hmac.Items[1].B)
}

// VerifyKeyHash checks hash(manufacturer PublicKey encoding) against a [alg, value] credential hash.
func (v *Voucher) VerifyKeyHash(alg int64, value []byte) bool {
	hf := HashByAlg(alg)
	if hf == nil || (alg != -16 && alg != -43) {
		return false
	}
	h := hf()
	h.Write(rc.Encode(v.Header.Items[4]))
	return bytes.Equal(h.Sum(nil), value)
}

// VerifyCertChainHash checks the hash of the concatenated device certificates against the header.
func (v *Voucher) VerifyCertChainHash() bool {
	hh := v.Header.Items[5]
	if v.CertChain == nil {
		return false
	}
	null := func(x *rc.Item) bool { return x.Kind == rc.Simple && (x.U == 22 || x.U == 23) }
	if null(hh) && null(v.CertChain) {
		return true
	}
	if null(hh) || null(v.CertChain) || v.CertChain.Kind != rc.Array || hh.Kind != rc.Array || len(hh.Items) != 2 || hh.Items[1].Kind != rc.Bytes {
		return false
	}
	alg, _ := IntOf(hh.Items[0])
	hf := HashByAlg(alg)
	if hf == nil {
		return false
	}
	h := hf()
	for _, c := range v.CertChain.Items {
		if c.Kind != rc.Bytes {
			return false
		}
		h.Write(c.B)
	}
	return bytes.Equal(h.Sum(nil), hh.Items[1].B)
}

// DeviceKey returns the public key of the first device certificate.
func (v *Voucher) DeviceKey() (crypto.PublicKey, error) {
	if v.CertChain == nil || v.CertChain.Kind != rc.Array || len(v.CertChain.Items) == 0 || v.CertChain.Items[0].Kind != rc.Bytes {
		return nil, errors.New("voucher: no device certificate")
	}
	c, err := x509.ParseCertificate(v.CertChain.Items[0].B)
	if err != nil {
		return nil, err
	}
	return c.PublicKey, nil
}

// VerifyEntries walks the entry chain and returns the current owner key (the manufacturer key when there
// are no entries).
func (v *Voucher) VerifyEntries() (crypto.PublicKey, error) {
	key, err := v.ManufacturerKey()
	if err != nil {
		return nil, err
	}
	if len(v.Entries) == 0 {
		return key, nil
	}
	var alg int64
	var prev []byte
	hdrInfo := append(append([]byte{}, v.GUID...), v.Header.Items[3].B...)
	for i, e := range v.Entries {
		s, err := ParseSign1(e, true)
		if err != nil {
			return nil, fmt.Errorf("entry %d: %w", i, err)
		}
		if s.Payload == nil || !s.Verify(key, nil) {
			return nil, fmt.Errorf("entry %d: signature does not verify under the previous owner key", i)
		}
		p, n, err := rc.Parse(s.Payload)
		if err != nil || n != len(s.Payload) || p.Kind != rc.Array || len(p.Items) != 4 {
			return nil, fmt.Errorf("entry %d: payload shape", i)
		}
		ph, hh := p.Items[0], p.Items[1]
		if ph.Kind != rc.Array || len(ph.Items) != 2 || hh.Kind != rc.Array || len(hh.Items) != 2 || ph.Items[1].Kind != rc.Bytes || hh.Items[1].Kind != rc.Bytes {
			return nil, fmt.Errorf("entry %d: hash shape", i)
		}
		a, _ := IntOf(ph.Items[0])
		if i == 0 {
			alg = a
			if alg != -16 && alg != -43 {
				return nil, fmt.Errorf("entry 0: hash algorithm %d", alg)
			}
		}
		ha, _ := IntOf(hh.Items[0])
		if ha != alg {
			return nil, fmt.Errorf("entry %d: header hash algorithm differs", i)
		}
		hf := HashByAlg(alg)
		h := hf()
		if i == 0 {
			h.Write(rc.Encode(v.Header))
			h.Write(rc.Encode(v.Hmac))
		} else {
			h.Write(prev)
		}
		if !bytes.Equal(h.Sum(nil), ph.Items[1].B) {
			return nil, fmt.Errorf("entry %d: previous hash mismatch", i)
		}
		h2 := hf()
		h2.Write(hdrInfo)
		if !bytes.Equal(h2.Sum(nil), hh.Items[1].B) {
			return nil, fmt.Errorf("entry %d: header info hash mismatch", i)
		}
		key, err = ParsePublicKey(p.Items[3])
		if err != nil {
			return nil, fmt.Errorf("entry %d: %w", i, err)
		}
		prev = rc.Encode(rc.Tg(18, s.Raw))
	}
	return key, nil
}

// KeysEqual compares two public keys.
func KeysEqual(a, b crypto.PublicKey) bool {
	type eq interface{ Equal(crypto.PublicKey) bool }
	if x, ok := a.(eq); ok {
		return x.Equal(b)
	}
	return false
}

// EAT extracts nonce (claim 10), ueid (claim 256) and the FDO claim (-257) from an EAT payload map.
func EAT(payload []byte) (nonce, ueid []byte, fdoClaim *rc.Item, err error) {
	m, n, perr := rc.Parse(payload)
	if perr != nil || n != len(payload) || m.Kind != rc.Map {
		return nil, nil, nil, errors.New("eat: not a map")
	}
	for i := 0; i+1 < len(m.Items); i += 2 {
		l, ok := IntOf(m.Items[i])
		if !ok {
			continue
		}
		v := m.Items[i+1]
		switch l {
		case 10:
			if v.Kind == rc.Bytes {
				nonce = v.B
			}
		case 256:
			if v.Kind == rc.Bytes {
				ueid = v.B
			}
		case -257:
			fdoClaim = v
		}
	}
	return
}
