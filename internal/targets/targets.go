// Package targets is the catalogue of Go decode targets used on the wire by go-fdo (generic shapes,
// convention types, COSE structures, protocol types and the unexported TO0/TO1/TO2/DI message structs
// reached through the overlay re-export file).
package targets

import (
	"time"

	fdo "github.com/fido-device-onboard/go-fdo"
	"github.com/fido-device-onboard/go-fdo/blob"
	"github.com/fido-device-onboard/go-fdo/cbor"
	"github.com/fido-device-onboard/go-fdo/cose"
	"github.com/fido-device-onboard/go-fdo/protocol"
	"github.com/fido-device-onboard/go-fdo/serviceinfo"
)

// Target is a named factory of fresh decode destinations (pointers).
type Target struct {
	Name string
	New  func() any
	Core bool // part of the reduced set used by the most expensive families
}

type twoInts struct {
	A int
	B int
}
type optStruct struct {
	A int
	B string
	C bool `cbor:",omitempty"`
}
type ptrStruct struct {
	A *int
	B *[]byte
	C *twoInts
}
type embedStruct struct {
	twoIntsE
	S string
}
type twoIntsE struct {
	X int
	Y int
}
type anyStruct struct {
	A any
	B []any
}

func t[T any](name string, core bool) Target {
	return Target{Name: name, New: func() any { return new(T) }, Core: core}
}

// All returns the catalogue.
func All() []Target {
	_ = time.Now
	return []Target{
		t[any]("any", true),
		t[int]("int", false),
		t[int8]("int8", false),
		t[uint16]("uint16", false),
		t[int64]("int64", true),
		t[uint64]("uint64", true),
		t[bool]("bool", false),
		t[[]byte]("[]byte", true),
		t[string]("string", true),
		t[[16]byte]("[16]byte", true),
		t[[]any]("[]any", true),
		t[[]int]("[]int", true),
		t[[3]int]("[3]int", false),
		t[[][]byte]("[][]byte", false),
		t[map[int]int]("map[int]int", true),
		t[map[string][]byte]("map[string][]byte", false),
		t[map[any]any]("map[any]any", true),
		t[twoInts]("struct{A,B int}", true),
		t[*twoInts]("*struct{A,B int}", false),
		t[optStruct]("struct{A int;B string;C bool omitempty}", true),
		t[ptrStruct]("struct{*int;*[]byte;*struct}", false),
		t[embedStruct]("struct{embedded;S}", false),
		t[anyStruct]("struct{A any;B []any}", true),
		t[struct{}]("struct{}", false),
		t[cbor.Tag[cbor.RawBytes]]("Tag[RawBytes]", true),
		t[cbor.Tag[int]]("Tag[int]", false),
		t[cbor.Bstr[any]]("Bstr[any]", true),
		t[cbor.Bstr[int]]("Bstr[int]", true),
		t[cbor.Bstr[twoInts]]("Bstr[struct]", false),
		t[cbor.ByteWrap[[]byte]]("ByteWrap[[]byte]", true),
		t[cbor.ByteWrap[any]]("ByteWrap[any]", true),
		t[cbor.RawBytes]("RawBytes", true),
		t[cbor.X509Certificate]("X509Certificate", true),
		t[[]*cbor.X509Certificate]("[]*X509Certificate", false),
		t[cbor.X509CertificateRequest]("X509CertificateRequest", true),
		t[cbor.Timestamp]("Timestamp", true),
		t[cose.Sign1[cbor.RawBytes, []byte]]("cose.Sign1[Raw]", true),
		t[cose.Sign1Tag[cbor.RawBytes, []byte]]("cose.Sign1Tag[Raw]", true),
		t[cose.Sign1Tag[protocol.To1d, []byte]]("cose.Sign1Tag[To1d]", false),
		t[cose.Mac0Tag[cbor.RawBytes, []byte]]("cose.Mac0Tag[Raw]", false),
		t[cose.Encrypt0Tag[cbor.RawBytes, []byte]]("cose.Encrypt0Tag[Raw]", true),
		t[cose.Key]("cose.Key", true),
		t[cose.IntOrStr]("cose.IntOrStr", false),
		t[cose.HeaderMap]("cose.HeaderMap", false),
		t[protocol.PublicKey]("protocol.PublicKey", true),
		t[protocol.Hash]("protocol.Hash", true),
		t[protocol.RvInstruction]("protocol.RvInstruction", false),
		t[[][]protocol.RvInstruction]("[][]RvInstruction", false),
		t[protocol.RvTO2Addr]("protocol.RvTO2Addr", false),
		t[protocol.To1d]("protocol.To1d", false),
		t[protocol.ErrorMessage]("protocol.ErrorMessage", true),
		t[serviceinfo.KV]("serviceinfo.KV", true),
		t[serviceinfo.DevmodModulesChunk]("serviceinfo.DevmodModulesChunk", false),
		t[fdo.Voucher]("fdo.Voucher", true),
		t[fdo.VoucherHeader]("fdo.VoucherHeader", true),
		t[fdo.VoucherEntryPayload]("fdo.VoucherEntryPayload", false),
		t[fdo.DeviceCredential]("fdo.DeviceCredential", false),
		t[blob.DeviceCredential]("blob.DeviceCredential", false),
		t[fdo.XHelloDeviceMsg]("fdo.helloDeviceMsg", true),
		t[cose.Sign1Tag[fdo.XOvhProof, []byte]]("Sign1Tag[ovhProof]", true),
		t[fdo.XOvEntry]("fdo.ovEntry", false),
		t[cose.Sign1Tag[fdo.XDeviceSetup, []byte]]("Sign1Tag[deviceSetup]", false),
		t[fdo.XDeviceServiceInfoReady]("fdo.deviceServiceInfoReady", false),
		t[fdo.XOwnerServiceInfoReady]("fdo.ownerServiceInfoReady", false),
		t[fdo.XDeviceServiceInfo]("fdo.deviceServiceInfo", true),
		t[fdo.XOwnerServiceInfo]("fdo.ownerServiceInfo", true),
		t[fdo.XDoneMsg]("fdo.doneMsg", false),
		t[fdo.XTo0d]("fdo.to0d", false),
		t[fdo.XOwnerSign]("fdo.ownerSign", true),
		t[fdo.XHelloRV]("fdo.helloRV", false),
		t[fdo.XRvAck]("fdo.rvAck", false),
		t[fdo.XSetCredentialsMsg]("fdo.setCredentialsMsg", false),
		t[fdo.XEatoken]("fdo.eatoken", true),
	}
}

// Core returns the reduced catalogue.
func Core() []Target {
	var out []Target
	for _, x := range All() {
		if x.Core {
			out = append(out, x)
		}
	}
	return out
}
