// Package workers shards an index space [0,total) of deterministic cases over subprocesses of the same
// binary, so that fatal runtime aborts (out of memory, stack exhaustion) and hangs are survivable and are
// attributed to the exact case that caused them.
//
// Protocol (worker stdout, one JSON object per line):
//
//	{"t":"r","i":N}                      about to run risky case N (flushed before the case runs)
//	{"t":"v","i":N,"key":..,"what":..,"replay":..}   violation
//	{"t":"d","k":[..]}                   distinct outcome keys seen so far (periodic / final)
//	{"t":"s","k":..,"v":..}              sample
//	{"t":"done","evals":N,"extra":{..}}  range finished
package workers

import (
	"bufio"
	"encoding/json"
	"fmt"
	"os"
	"os/exec"
	"runtime"
	"strconv"
	"sync"
	"syscall"
	"time"
)

// Ctx is what a case function uses to report.
type Ctx struct {
	w        *bufio.Writer
	distinct map[string]struct{}
	Extra    map[string]int64
	Evals    int64
	MarkAll  bool
	idx      int
	skip     map[string]bool
}

// RiskyLabel marks a risky sub-case (e.g. one decode target) of the current case. It returns false if the
// parent told this worker to skip that sub-case because it already crashed a previous worker.
func (c *Ctx) RiskyLabel(label string) bool {
	if c.skip[fmt.Sprintf("%d/%s", c.idx, label)] {
		return false
	}
	b, _ := json.Marshal(map[string]any{"t": "r", "i": c.idx, "l": label})
	c.w.Write(b)
	c.w.WriteByte('\n')
	c.w.Flush()
	return true
}

// Risky flushes a marker so a fatal crash in the current case is attributed to it.
func (c *Ctx) Risky() {
	fmt.Fprintf(c.w, "{\"t\":\"r\",\"i\":%d}\n", c.idx)
	c.w.Flush()
}

// Violation reports a violation for the current case.
func (c *Ctx) Violation(key, what string, replay any) {
	b, _ := json.Marshal(map[string]any{"t": "v", "i": c.idx, "key": key, "what": what, "replay": replay})
	c.w.Write(b)
	c.w.WriteByte('\n')
}

// Distinct records an outcome-class key.
func (c *Ctx) Distinct(k string) { c.distinct[k] = struct{}{} }

// Sample reports a sample case.
func (c *Ctx) Sample(v any) {
	b, _ := json.Marshal(map[string]any{"t": "s", "v": v})
	c.w.Write(b)
	c.w.WriteByte('\n')
}

// Family is a deterministic, index-addressable case family.
type Family struct {
	Name  string
	Total func(tier string) int
	// Run executes cases [lo,hi). It must call ctx.Begin(i) for each case.
	Run func(ctx *Ctx, tier string, lo, hi int)
}

// Begin marks the start of case i.
func (c *Ctx) Begin(i int) {
	c.idx = i
	c.Evals++
	if c.MarkAll {
		c.Risky()
	}
}

// IsWorker reports whether this process was started as a worker; if so it runs and exits.
func MaybeWorker(families []Family) {
	if len(os.Args) < 2 || os.Args[1] != "--worker" {
		return
	}
	// args: --worker family tier lo hi markall
	// Address-space limit: a multi-gigabyte allocation aborts this worker quickly (and is attributed to the
	// marked case) instead of exhausting the machine.
	lim := uint64(3 << 30)
	if v := os.Getenv("VERIF_WORKER_AS"); v != "" {
		if n, err := strconv.ParseUint(v, 10, 64); err == nil {
			lim = n
		}
	}
	_ = syscall.Setrlimit(syscall.RLIMIT_AS, &syscall.Rlimit{Cur: lim, Max: lim})
	name, tier := os.Args[2], os.Args[3]
	lo, _ := strconv.Atoi(os.Args[4])
	hi, _ := strconv.Atoi(os.Args[5])
	ctx := &Ctx{w: bufio.NewWriterSize(os.Stdout, 1<<16), distinct: map[string]struct{}{}, Extra: map[string]int64{}, MarkAll: os.Args[6] == "1", skip: map[string]bool{}}
	if len(os.Args) > 7 {
		var sk []string
		_ = json.Unmarshal([]byte(os.Args[7]), &sk)
		for _, k := range sk {
			ctx.skip[k] = true
		}
	}
	for _, f := range families {
		if f.Name == name {
			f.Run(ctx, tier, lo, hi)
			keys := make([]string, 0, len(ctx.distinct))
			for k := range ctx.distinct {
				keys = append(keys, k)
			}
			b, _ := json.Marshal(map[string]any{"t": "d", "k": keys})
			ctx.w.Write(b)
			ctx.w.WriteByte('\n')
			b, _ = json.Marshal(map[string]any{"t": "done", "evals": ctx.Evals, "extra": ctx.Extra})
			ctx.w.Write(b)
			ctx.w.WriteByte('\n')
			ctx.w.Flush()
			os.Exit(0)
		}
	}
	fmt.Fprintf(os.Stderr, "unknown family %s\n", name)
	os.Exit(3)
}

// Violation as collected by the parent.
type Violation struct {
	Idx    int
	Key    string
	What   string
	Replay any
}

// Result of running a family.
type Result struct {
	Evals      int64
	Distinct   map[string]struct{}
	Extra      map[string]int64
	Violations []Violation
	Samples    []any
	Crashes    int
	TimedOut   bool
}

// Options for Run.
type Options struct {
	Procs       int           // parallel subprocesses (default NumCPU)
	Chunk       int           // cases per subprocess invocation (default total/(4*procs))
	CaseTimeout time.Duration // wall limit per chunk without progress => hang attributed to the marked case
	Deadline    time.Time     // overall deadline (zero = none); remaining chunks are skipped and TimedOut set
	Env         []string
	SingleProc  bool // GOMAXPROCS=1 in workers
}

// Run executes the family over [0,total) and gathers results.
func Run(f Family, tier string, opt Options) *Result {
	total := f.Total(tier)
	if opt.Procs <= 0 {
		opt.Procs = runtime.NumCPU()
	}
	if opt.Chunk <= 0 {
		opt.Chunk = total/(4*opt.Procs) + 1
	}
	if opt.CaseTimeout == 0 {
		opt.CaseTimeout = 120 * time.Second
	}
	res := &Result{Distinct: map[string]struct{}{}, Extra: map[string]int64{}}
	var mu sync.Mutex
	type job struct{ lo, hi int }
	jobs := make(chan job, total/opt.Chunk+2)
	for lo := 0; lo < total; lo += opt.Chunk {
		jobs <- job{lo, min(lo+opt.Chunk, total)}
	}
	close(jobs)
	var wg sync.WaitGroup
	for p := 0; p < opt.Procs; p++ {
		wg.Add(1)
		go func() {
			defer wg.Done()
			for j := range jobs {
				if !opt.Deadline.IsZero() && time.Now().After(opt.Deadline) {
					mu.Lock()
					res.TimedOut = true
					mu.Unlock()
					continue
				}
				runRange(f, tier, j.lo, j.hi, opt, res, &mu)
			}
		}()
	}
	wg.Wait()
	return res
}

// runRange runs [lo,hi) in a subprocess; on a crash or hang it attributes and resumes at the culprit case
// with the culprit sub-case added to the skip list.
func runRange(f Family, tier string, lo, hi int, opt Options, res *Result, mu *sync.Mutex) {
	markAll := false
	var skip []string
	for lo < hi {
		lastMarked, label, done, killed := runOnce(f, tier, lo, hi, markAll, skip, opt, res, mu)
		if done {
			return
		}
		if lastMarked >= lo {
			what := "fatal runtime abort (out of memory / unrecoverable crash) while handling this case"
			key := "fatal-crash"
			if killed {
				what = fmt.Sprintf("no progress for %v (hang) on this case", opt.CaseTimeout)
				key = "hang"
			}
			if label != "" {
				key += ":" + label
				what += " [" + label + "]"
			}
			mu.Lock()
			res.Crashes++
			res.Violations = append(res.Violations, Violation{Idx: lastMarked, Key: key, What: what, Replay: map[string]any{"family": f.Name, "index": lastMarked, "label": label, "tier": tier}})
			mu.Unlock()
			if label != "" {
				skip = append(skip, fmt.Sprintf("%d/%s", lastMarked, label))
				lo = lastMarked
			} else {
				lo = lastMarked + 1
			}
			markAll = false
			continue
		}
		if markAll {
			fmt.Fprintf(os.Stderr, "HARNESS-ERROR: worker for %s [%d,%d) died before first case\n", f.Name, lo, hi)
			os.Exit(2)
		}
		markAll = true // rerun the same range marking every case to find the culprit
	}
}

func runOnce(f Family, tier string, lo, hi int, markAll bool, skip []string, opt Options, res *Result, mu *sync.Mutex) (lastMarked int, label string, done, killed bool) {
	ma := "0"
	if markAll {
		ma = "1"
	}
	skb, _ := json.Marshal(skip)
	cmd := exec.Command(os.Args[0], "--worker", f.Name, tier, strconv.Itoa(lo), strconv.Itoa(hi), ma, string(skb))
	cmd.Env = append(os.Environ(), opt.Env...)
	if opt.SingleProc {
		cmd.Env = append(cmd.Env, "GOMAXPROCS=1")
	}
	cmd.Stderr = nil
	out, err := cmd.StdoutPipe()
	if err != nil {
		fmt.Fprintf(os.Stderr, "HARNESS-ERROR: %v\n", err)
		os.Exit(2)
	}
	if err := cmd.Start(); err != nil {
		fmt.Fprintf(os.Stderr, "HARNESS-ERROR: %v\n", err)
		os.Exit(2)
	}
	lastMarked = -1
	progress := make(chan struct{}, 1)
	finished := make(chan struct{})
	go func() {
		t := time.NewTimer(opt.CaseTimeout)
		for {
			select {
			case <-progress:
				if !t.Stop() {
					select {
					case <-t.C:
					default:
					}
				}
				t.Reset(opt.CaseTimeout)
			case <-t.C:
				killed = true
				_ = cmd.Process.Kill()
				return
			case <-finished:
				return
			}
		}
	}()
	sc := bufio.NewScanner(out)
	sc.Buffer(make([]byte, 1<<20), 1<<26)
	for sc.Scan() {
		select {
		case progress <- struct{}{}:
		default:
		}
		var m struct {
			T      string           `json:"t"`
			I      int              `json:"i"`
			L      string           `json:"l"`
			Key    string           `json:"key"`
			What   string           `json:"what"`
			Replay any              `json:"replay"`
			K      []string         `json:"k"`
			V      any              `json:"v"`
			Evals  int64            `json:"evals"`
			Extra  map[string]int64 `json:"extra"`
		}
		if err := json.Unmarshal(sc.Bytes(), &m); err != nil {
			continue
		}
		mu.Lock()
		switch m.T {
		case "r":
			lastMarked, label = m.I, m.L
		case "v":
			res.Violations = append(res.Violations, Violation{Idx: m.I, Key: m.Key, What: m.What, Replay: m.Replay})
		case "d":
			for _, k := range m.K {
				res.Distinct[k] = struct{}{}
			}
		case "s":
			if len(res.Samples) < 8 {
				res.Samples = append(res.Samples, m.V)
			}
		case "done":
			res.Evals += m.Evals
			for k, v := range m.Extra {
				res.Extra[k] += v
			}
			done = true
		}
		mu.Unlock()
	}
	_ = cmd.Wait()
	close(finished)
	return lastMarked, label, done, killed
}
