package main

import "verif/internal/keys"

func main() { keys.Pregenerate() }
