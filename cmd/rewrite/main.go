// Command rewrite is the source-to-source rewriter of the verification build: it turns Go's language-level
// synchronisation constructs in the given files of the CURRENT /repo tree into calls on the vsync shims and writes
// a `go build -overlay` description. It refuses (exit 2) any synchronisation construct it does not translate, so a
// change to /repo can make a check error out but never silently lose a scheduling point.
//
// usage: rewrite -out <dir> -json <overlay.json> [-base <existing overlay json to merge>] file.go...
package main

import (
	"bytes"
	"encoding/json"
	"flag"
	"fmt"
	"go/ast"
	"go/format"
	"go/parser"
	"go/token"
	"os"
	"path/filepath"
	"strings"
)

const vsyncPath = "github.com/fido-device-onboard/go-fdo/zzvsync"

var refused []string

func refuse(fset *token.FileSet, n ast.Node, what string) {
	refused = append(refused, fmt.Sprintf("%s: %s", fset.Position(n.Pos()), what))
}

func sel(pkg, name string) ast.Expr { return &ast.SelectorExpr{X: ast.NewIdent(pkg), Sel: ast.NewIdent(name)} }

func call(fun ast.Expr, args ...ast.Expr) *ast.CallExpr { return &ast.CallExpr{Fun: fun, Args: args} }

func method(recv ast.Expr, name string, args ...ast.Expr) *ast.CallExpr {
	return call(&ast.SelectorExpr{X: recv, Sel: ast.NewIdent(name)}, args...)
}

func chanType(elem ast.Expr) ast.Expr {
	return &ast.StarExpr{X: &ast.IndexExpr{X: sel("vsync", "Chan"), Index: elem}}
}

func isPkgSel(e ast.Expr, pkg, name string) bool {
	s, ok := e.(*ast.SelectorExpr)
	if !ok {
		return false
	}
	id, ok := s.X.(*ast.Ident)
	return ok && id.Name == pkg && s.Sel.Name == name
}

// ctxDone matches E.Done() and returns E.
func ctxDone(e ast.Expr) (ast.Expr, bool) {
	c, ok := e.(*ast.CallExpr)
	if !ok || len(c.Args) != 0 {
		return nil, false
	}
	s, ok := c.Fun.(*ast.SelectorExpr)
	if !ok || s.Sel.Name != "Done" {
		return nil, false
	}
	return s.X, true
}

type rewriter struct {
	fset *token.FileSet
	n    int
}

// recvOperand translates the channel operand of a receive.
func (r *rewriter) recvOperand(x ast.Expr) ast.Expr {
	if e, ok := ctxDone(x); ok {
		return call(sel("vsync", "Done"), r.expr(e))
	}
	return r.expr(x)
}

func (r *rewriter) exprs(es []ast.Expr) []ast.Expr {
	for i := range es {
		es[i] = r.expr(es[i])
	}
	return es
}

// expr rewrites an expression tree bottom-up.
func (r *rewriter) expr(e ast.Expr) ast.Expr {
	switch x := e.(type) {
	case nil:
		return nil
	case *ast.ChanType:
		return chanType(r.expr(x.Value))
	case *ast.UnaryExpr:
		if x.Op == token.ARROW {
			return method(r.recvOperand(x.X), "Recv")
		}
		x.X = r.expr(x.X)
		return x
	case *ast.CallExpr:
		if id, ok := x.Fun.(*ast.Ident); ok {
			switch id.Name {
			case "make":
				if ct, ok := x.Args[0].(*ast.ChanType); ok {
					size := ast.Expr(&ast.BasicLit{Kind: token.INT, Value: "0"})
					if len(x.Args) > 1 {
						size = r.expr(x.Args[1])
					}
					return call(&ast.IndexExpr{X: sel("vsync", "NewChan"), Index: r.expr(ct.Value)}, size)
				}
			case "close":
				if len(x.Args) == 1 {
					return method(r.expr(x.Args[0]), "Close")
				}
			}
		}
		switch {
		case isPkgSel(x.Fun, "io", "Pipe"):
			return call(sel("vsync", "Pipe"))
		case isPkgSel(x.Fun, "context", "WithCancel"):
			return call(sel("vsync", "WithCancel"), r.exprs(x.Args)...)
		case isPkgSel(x.Fun, "context", "WithTimeout"), isPkgSel(x.Fun, "context", "WithDeadline"):
			return call(sel("vsync", "WithTimeout"), r.exprs(x.Args)...)
		}
		if s, ok := x.Fun.(*ast.SelectorExpr); ok && len(x.Args) == 0 && s.Sel.Name == "Err" {
			if id, ok := s.X.(*ast.Ident); ok && strings.Contains(strings.ToLower(id.Name), "ctx") {
				return call(sel("vsync", "Err"), id)
			}
		}
		for _, bad := range [][2]string{{"time", "After"}, {"time", "Sleep"}, {"time", "NewTimer"}, {"time", "NewTicker"}, {"time", "AfterFunc"}, {"time", "Tick"}, {"reflect", "Select"}, {"context", "AfterFunc"}} {
			if isPkgSel(x.Fun, bad[0], bad[1]) {
				refuse(r.fset, x, bad[0]+"."+bad[1]+" is not translated")
			}
		}
		x.Fun = r.expr(x.Fun)
		x.Args = r.exprs(x.Args)
		return x
	case *ast.SelectorExpr:
		if id, ok := x.X.(*ast.Ident); ok {
			switch {
			case id.Name == "sync" && (x.Sel.Name == "Mutex" || x.Sel.Name == "WaitGroup"):
				return sel("vsync", x.Sel.Name)
			case id.Name == "sync":
				refuse(r.fset, x, "sync."+x.Sel.Name+" is not translated")
			case id.Name == "atomic":
				refuse(r.fset, x, "sync/atomic is not translated")
			}
		}
		x.X = r.expr(x.X)
		return x
	case *ast.StarExpr:
		x.X = r.expr(x.X)
		return x
	case *ast.ParenExpr:
		x.X = r.expr(x.X)
		return x
	case *ast.BinaryExpr:
		x.X, x.Y = r.expr(x.X), r.expr(x.Y)
		return x
	case *ast.IndexExpr:
		x.X, x.Index = r.expr(x.X), r.expr(x.Index)
		return x
	case *ast.IndexListExpr:
		x.X = r.expr(x.X)
		x.Indices = r.exprs(x.Indices)
		return x
	case *ast.SliceExpr:
		x.X, x.Low, x.High, x.Max = r.expr(x.X), r.expr(x.Low), r.expr(x.High), r.expr(x.Max)
		return x
	case *ast.TypeAssertExpr:
		x.X, x.Type = r.expr(x.X), r.expr(x.Type)
		return x
	case *ast.KeyValueExpr:
		x.Key, x.Value = r.expr(x.Key), r.expr(x.Value)
		return x
	case *ast.CompositeLit:
		x.Type = r.expr(x.Type)
		x.Elts = r.exprs(x.Elts)
		return x
	case *ast.FuncLit:
		r.funcType(x.Type)
		r.block(x.Body)
		return x
	case *ast.ArrayType:
		x.Len, x.Elt = r.expr(x.Len), r.expr(x.Elt)
		return x
	case *ast.MapType:
		x.Key, x.Value = r.expr(x.Key), r.expr(x.Value)
		return x
	case *ast.FuncType:
		r.funcType(x)
		return x
	case *ast.StructType:
		r.fields(x.Fields)
		return x
	case *ast.InterfaceType:
		r.fields(x.Methods)
		return x
	case *ast.Ellipsis:
		x.Elt = r.expr(x.Elt)
		return x
	}
	return e
}

func (r *rewriter) fields(fl *ast.FieldList) {
	if fl == nil {
		return
	}
	for _, f := range fl.List {
		f.Type = r.expr(f.Type)
	}
}

func (r *rewriter) funcType(ft *ast.FuncType) {
	r.fields(ft.TypeParams)
	r.fields(ft.Params)
	r.fields(ft.Results)
}

func (r *rewriter) block(b *ast.BlockStmt) {
	if b == nil {
		return
	}
	for i := range b.List {
		b.List[i] = r.stmt(b.List[i])
	}
}

func (r *rewriter) stmts(l []ast.Stmt) []ast.Stmt {
	for i := range l {
		l[i] = r.stmt(l[i])
	}
	return l
}

func (r *rewriter) stmt(s ast.Stmt) ast.Stmt {
	switch x := s.(type) {
	case nil:
		return nil
	case *ast.SendStmt:
		return &ast.ExprStmt{X: method(r.expr(x.Chan), "Send", r.expr(x.Value))}
	case *ast.GoStmt:
		c := r.expr(x.Call).(*ast.CallExpr)
		return &ast.ExprStmt{X: call(sel("vsync", "Go"), &ast.FuncLit{Type: &ast.FuncType{Params: &ast.FieldList{}}, Body: &ast.BlockStmt{List: []ast.Stmt{&ast.ExprStmt{X: c}}}})}
	case *ast.SelectStmt:
		return r.selectStmt(x)
	case *ast.AssignStmt:
		if len(x.Lhs) == 2 && len(x.Rhs) == 1 {
			if u, ok := x.Rhs[0].(*ast.UnaryExpr); ok && u.Op == token.ARROW {
				x.Lhs = r.exprs(x.Lhs)
				x.Rhs[0] = method(r.recvOperand(u.X), "Recv2")
				return x
			}
		}
		x.Lhs, x.Rhs = r.exprs(x.Lhs), r.exprs(x.Rhs)
		return x
	case *ast.ExprStmt:
		x.X = r.expr(x.X)
		return x
	case *ast.BlockStmt:
		r.block(x)
		return x
	case *ast.IfStmt:
		x.Init, x.Cond = r.stmt(x.Init), r.expr(x.Cond)
		r.block(x.Body)
		x.Else = r.stmt(x.Else)
		return x
	case *ast.ForStmt:
		x.Init, x.Cond, x.Post = r.stmt(x.Init), r.expr(x.Cond), r.stmt(x.Post)
		r.block(x.Body)
		return x
	case *ast.RangeStmt:
		x.X = r.expr(x.X)
		r.block(x.Body)
		return x
	case *ast.SwitchStmt:
		x.Init, x.Tag = r.stmt(x.Init), r.expr(x.Tag)
		r.block(x.Body)
		return x
	case *ast.TypeSwitchStmt:
		x.Init, x.Assign = r.stmt(x.Init), r.stmt(x.Assign)
		r.block(x.Body)
		return x
	case *ast.CaseClause:
		x.List = r.exprs(x.List)
		x.Body = r.stmts(x.Body)
		return x
	case *ast.ReturnStmt:
		x.Results = r.exprs(x.Results)
		return x
	case *ast.DeferStmt:
		x.Call = r.expr(x.Call).(*ast.CallExpr)
		return x
	case *ast.LabeledStmt:
		if _, ok := x.Stmt.(*ast.SelectStmt); ok {
			refuse(r.fset, x, "labeled select is not translated")
		}
		x.Stmt = r.stmt(x.Stmt)
		return x
	case *ast.DeclStmt:
		r.decl(x.Decl)
		return x
	case *ast.IncDecStmt:
		x.X = r.expr(x.X)
		return x
	}
	return s
}

// selectStmt translates a select into: { c0 := vsync.RecvCase(..); ...; switch vsync.Select(hasDefault, c0, ...) { case 0: ... } }
func (r *rewriter) selectStmt(x *ast.SelectStmt) ast.Stmt {
	r.n++
	id := r.n
	var pre []ast.Stmt
	var caseVars []ast.Expr
	sw := &ast.SwitchStmt{Body: &ast.BlockStmt{}}
	hasDefault := false
	for i, cl := range x.Body.List {
		cc := cl.(*ast.CommClause)
		body := r.stmts(cc.Body)
		if cc.Comm == nil {
			hasDefault = true
			sw.Body.List = append(sw.Body.List, &ast.CaseClause{Body: body})
			continue
		}
		name := ast.NewIdent(fmt.Sprintf("_vsel%d_%d", id, i))
		idx := &ast.BasicLit{Kind: token.INT, Value: fmt.Sprint(len(caseVars))}
		var mk ast.Expr
		var bind []ast.Stmt
		recvOf := func(e ast.Expr) (ast.Expr, bool) {
			u, ok := e.(*ast.UnaryExpr)
			if !ok || u.Op != token.ARROW {
				return nil, false
			}
			return r.recvOperand(u.X), true
		}
		switch c := cc.Comm.(type) {
		case *ast.SendStmt:
			mk = call(sel("vsync", "SendCase"), r.expr(c.Chan), r.expr(c.Value))
		case *ast.ExprStmt:
			ch, ok := recvOf(c.X)
			if !ok {
				refuse(r.fset, c, "unsupported select communication")
				continue
			}
			mk = call(sel("vsync", "RecvCase"), ch)
		case *ast.AssignStmt:
			ch, ok := recvOf(c.Rhs[0])
			if !ok {
				refuse(r.fset, c, "unsupported select communication")
				continue
			}
			mk = call(sel("vsync", "RecvCase"), ch)
			rhs := []ast.Expr{&ast.SelectorExpr{X: name, Sel: ast.NewIdent("V")}}
			if len(c.Lhs) == 2 {
				rhs = append(rhs, &ast.SelectorExpr{X: name, Sel: ast.NewIdent("Ok")})
			}
			bind = append(bind, &ast.AssignStmt{Lhs: r.exprs(c.Lhs), Tok: c.Tok, Rhs: rhs})
		default:
			refuse(r.fset, cc, "unsupported select communication")
			continue
		}
		pre = append(pre, &ast.AssignStmt{Lhs: []ast.Expr{name}, Tok: token.DEFINE, Rhs: []ast.Expr{mk}})
		caseVars = append(caseVars, name)
		sw.Body.List = append(sw.Body.List, &ast.CaseClause{List: []ast.Expr{idx}, Body: append(bind, body...)})
	}
	def := "false"
	if hasDefault {
		def = "true"
	}
	sw.Tag = call(sel("vsync", "Select"), append([]ast.Expr{ast.NewIdent(def)}, caseVars...)...)
	return &ast.BlockStmt{List: append(pre, sw)}
}

func (r *rewriter) decl(d ast.Decl) {
	switch x := d.(type) {
	case *ast.FuncDecl:
		r.fields(x.Recv)
		r.funcType(x.Type)
		r.block(x.Body)
	case *ast.GenDecl:
		for _, sp := range x.Specs {
			switch s := sp.(type) {
			case *ast.TypeSpec:
				r.fields(s.TypeParams)
				s.Type = r.expr(s.Type)
			case *ast.ValueSpec:
				s.Type = r.expr(s.Type)
				s.Values = r.exprs(s.Values)
			}
		}
	}
}

// insertYields puts vsync.Yield() before every statement of every statement list in the file (function bodies,
// blocks, case and select clauses), so that two threads running this code can be interleaved at statement
// granularity. Function literals are covered because their bodies are blocks too.
func insertYields(f *ast.File) int {
	n := 0
	yield := func() ast.Stmt { return &ast.ExprStmt{X: call(sel("vsync", "StmtYield"))} }
	with := func(l []ast.Stmt) []ast.Stmt {
		if len(l) == 0 {
			return l
		}
		out := make([]ast.Stmt, 0, 2*len(l))
		for _, s := range l {
			out = append(out, yield(), s)
			n++
		}
		return out
	}
	clauseLists := map[*ast.BlockStmt]bool{} // bodies of switch/select hold clauses, not statements
	ast.Inspect(f, func(x ast.Node) bool {
		switch b := x.(type) {
		case *ast.FuncDecl:
			if b.Name.Name == "init" && b.Recv == nil {
				return false // package initialisation runs before any scheduler exists
			}
		case *ast.SwitchStmt:
			clauseLists[b.Body] = true
		case *ast.TypeSwitchStmt:
			clauseLists[b.Body] = true
		case *ast.SelectStmt:
			clauseLists[b.Body] = true
		case *ast.BlockStmt:
			if !clauseLists[b] {
				b.List = with(b.List)
			}
		case *ast.CaseClause:
			b.Body = with(b.Body)
		case *ast.CommClause:
			b.Body = with(b.Body)
		}
		return true
	})
	return n
}

func uses(f *ast.File, pkg string) bool {
	found := false
	ast.Inspect(f, func(n ast.Node) bool {
		if s, ok := n.(*ast.SelectorExpr); ok {
			if id, ok := s.X.(*ast.Ident); ok && id.Name == pkg {
				found = true
			}
		}
		return !found
	})
	return found
}

func main() {
	out := flag.String("out", "", "output directory")
	jsonPath := flag.String("json", "", "overlay json to write")
	base := flag.String("base", "", "overlay json to merge")
	vsyncSrc := flag.String("vsync", "/verif/internal/vsync/vsync.go", "vsync source injected as "+vsyncPath)
	yieldList := flag.String("yield", "", "comma separated files (among the arguments) that also get a scheduling point before every statement")
	flag.Parse()
	yieldFiles := map[string]bool{}
	for _, p := range strings.Split(*yieldList, ",") {
		if p != "" {
			yieldFiles[p] = true
		}
	}
	overlay := map[string]map[string]string{"Replace": {}}
	if *base != "" {
		b, err := os.ReadFile(*base)
		if err == nil {
			_ = json.Unmarshal(b, &overlay)
		}
	}
	if err := os.MkdirAll(*out, 0o755); err != nil {
		fmt.Fprintln(os.Stderr, err)
		os.Exit(2)
	}
	counts := map[string]int{}
	for _, path := range flag.Args() {
		fset := token.NewFileSet()
		f, err := parser.ParseFile(fset, path, nil, parser.SkipObjectResolution)
		if err != nil {
			fmt.Fprintf(os.Stderr, "rewrite: %v\n", err)
			os.Exit(2)
		}
		// count constructs before rewriting (reported, so a reader can see what was translated)
		ast.Inspect(f, func(n ast.Node) bool {
			switch x := n.(type) {
			case *ast.SelectStmt:
				counts["select"]++
			case *ast.GoStmt:
				counts["go"]++
			case *ast.SendStmt:
				counts["send"]++
			case *ast.ChanType:
				counts["chan type"]++
			case *ast.UnaryExpr:
				if x.Op == token.ARROW {
					counts["receive"]++
				}
			}
			return true
		})
		r := &rewriter{fset: fset}
		for _, d := range f.Decls {
			r.decl(d)
		}
		if yieldFiles[path] {
			counts["statement yield"] += insertYields(f)
			f.Comments = nil // free-floating comments cannot be placed among position-less inserted statements
		}
		// imports: add vsync, drop sync if no longer used
		var keep []ast.Spec
		imported := false
		for _, d := range f.Decls {
			g, ok := d.(*ast.GenDecl)
			if !ok || g.Tok != token.IMPORT {
				continue
			}
			keep = nil
			for _, sp := range g.Specs {
				is := sp.(*ast.ImportSpec)
				p := strings.Trim(is.Path.Value, `"`)
				name := filepath.Base(p)
				if is.Name != nil {
					name = is.Name.Name
				}
				if (p == "sync" || p == "context" || p == "io" || p == "time") && !uses(f, name) {
					continue
				}
				keep = append(keep, sp)
			}
			keep = append(keep, &ast.ImportSpec{Name: ast.NewIdent("vsync"), Path: &ast.BasicLit{Kind: token.STRING, Value: `"` + vsyncPath + `"`}})
			g.Specs = keep
			if !g.Lparen.IsValid() {
				g.Lparen, g.Rparen = g.Pos(), g.End()
			}
			imported = true
			break
		}
		if !imported {
			f.Decls = append([]ast.Decl{&ast.GenDecl{Tok: token.IMPORT, Specs: []ast.Spec{
				&ast.ImportSpec{Name: ast.NewIdent("vsync"), Path: &ast.BasicLit{Kind: token.STRING, Value: `"` + vsyncPath + `"`}}}}}, f.Decls...)
		}
		var buf bytes.Buffer
		if err := format.Node(&buf, fset, f); err != nil {
			fmt.Fprintf(os.Stderr, "rewrite: printing %s: %v\n", path, err)
			os.Exit(2)
		}
		dst := filepath.Join(*out, strings.ReplaceAll(strings.TrimPrefix(path, "/"), "/", "__"))
		if err := os.WriteFile(dst, buf.Bytes(), 0o644); err != nil {
			fmt.Fprintln(os.Stderr, err)
			os.Exit(2)
		}
		overlay["Replace"][path] = dst
	}
	if len(refused) > 0 {
		for _, m := range refused {
			fmt.Fprintln(os.Stderr, "rewrite: REFUSED:", m)
		}
		os.Exit(2)
	}
	// inject the vsync package into the go-fdo module
	overlay["Replace"]["/repo/zzvsync/vsync.go"] = *vsyncSrc
	b, _ := json.MarshalIndent(overlay, "", " ")
	if err := os.WriteFile(*jsonPath, b, 0o644); err != nil {
		fmt.Fprintln(os.Stderr, err)
		os.Exit(2)
	}
	fmt.Printf("rewrite: translated %v in %d files\n", counts, flag.NArg())
}
