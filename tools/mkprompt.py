import json,sys
rnd=sys.argv[1]; ids=sys.argv[2:]
props={json.loads(l)['id']:json.loads(l) for l in open('/verif/properties.jsonl')}
extra={}
try: extra=json.load(open('/tmp/seedgen/extra_%s.json'%rnd))
except Exception: pass
for i in ids:
    p=props[i]
    t=f"""You are working on a scratch git worktree of the Go library fido-device-onboard/go-fdo (FIDO Device Onboard 1.1; stdlib-only) at /tmp/wt{rnd}/{i}. Work ONLY inside /tmp/wt{rnd}/{i} and write your deliverables to /tmp/seedout{rnd}/{i}/. Never touch /repo or /verif, and do not read anything under /verif.

Environment: the sandbox is offline. Before every go command: `export GOFLAGS=-mod=mod GOPROXY=off` (do NOT set GOSUMDB). The repository has four modules: `.`, `./fsim`, `./sqlite`, `./tpm`. Full test suite: `for m in . ./fsim ./sqlite ./tpm; do (cd $m && go test -vet=off -count=1 -timeout 25m ./... 2>&1 | tail -n 30); done` (a few minutes at most).

## The property

Title: {p['title']}

Statement: {p['statement']}

Quantified over: {p['quantifier']['text']}

Why the existing tests cannot settle it: {p['why_tests_cant']}

Anchors (where the mechanism lives): {json.dumps(p['anchors'].get('mechanism',[]))}
Files: {', '.join(p['anchors']['files'])}

## Your task

Produce ONE realistic change to the library's source (not to its tests) that BREAKS this property while the code still compiles and the full existing test suite of all four modules still passes. The change should look like something a developer could plausibly commit (a refactor, optimisation, 'simplification', robustness clean-up, caching, reordering), not an obvious sabotage, and must be SUBTLE: it must need something specific to manifest — a particular interleaving, a crash or fault at a particular point, a multi-step sequence of operations, an unusual or boundary input, a particular configuration, or two cooperating sites that each look fine alone — not something ordinary honest use would expose at once. {extra.get(i,'')}

Also produce a demonstration: a Go test file (package-internal or external test, placed in one package directory of the worktree) that FAILS with your change applied and PASSES on the unchanged tree. The demonstration must be deterministic (fail every time with the change; if a race/interleaving is needed, construct it deterministically or loop until certain, and say so).

Steps:
1. Read the relevant code. Choose the change. Apply it in the worktree.
2. Run the full suite of all four modules with the change (no demo file present): all must pass. If not, pick another change.
3. Write the demo test; run it with the change (must fail), then revert the change with `git diff > /tmp/seedout{rnd}/{i}/patch.diff && git apply -R /tmp/seedout{rnd}/{i}/patch.diff` and run it again (must pass). NEVER use `git stash` (the stash is shared between worktrees that other people are using at the same time).
4. Write deliverables into /tmp/seedout{rnd}/{i}/:
   - `patch.diff`: `git diff` of the library change ONLY (without the demo file), applying cleanly with `git apply` on a clean checkout of the worktree's HEAD.
   - the demo test file (single file).
   - `meta.json` with keys: "property" ("{i}"), "summary" (what the change is and why it breaks the property), "needs_to_manifest" (what specific input/sequence/schedule/fault/configuration is needed), "files_changed" (list), "demo_file" (file name), "demo_dir" (directory relative to the repository root where the demo file must be placed, e.g. "." or "cose" or "sqlite"), "demo_test_regex" (for `go test -run`), "demo_needs_race_flag" (bool), "author_ran" (list of {{"command","outcome"}}).
5. Leave the worktree with your change reverted (clean `git status` apart from nothing). Report in your final message: a one-paragraph description and the verdicts of your runs.
"""
    open(f'/tmp/seedout{rnd}/{i}/PROMPT.md','w').write(t)
print('ok')
