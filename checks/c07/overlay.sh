#!/bin/bash
# Overlay for C07: the fdo/kex re-export files plus copies of the CURRENT /repo/to0.go and /repo/sqlite/sqlite.go in
# which time.Now() goes through a settable clock, so that registration histories on the real SQLite rendezvous store
# can be explored at chosen clock positions (expiry is computed in to0.go and filtered in sqlite.go).
set -e
OUT="$1"; D=/verif/.cache/overlay/c07; mkdir -p "$D"
sed 's/time\.Now()/verifNow()/g' /repo/sqlite/sqlite.go > "$D/sqlite.go"
sed 's/time\.Now()/verifNow()/g' /repo/to0.go > "$D/to0.go"
grep -q 'verifNow()' "$D/sqlite.go" || { echo "overlay: no time.Now() call found in sqlite.go (clock seam lost)"; exit 1; }
grep -q 'verifNow()' "$D/to0.go" || { echo "overlay: no time.Now() call found in to0.go (clock seam lost)"; exit 1; }
cat > "$D/zz_verif_clock_sqlite.go" <<'G'
package sqlite

import "time"

// VerifNow is the clock used by the store under verification builds (injected by /verif, never part of /repo).
var VerifNow = time.Now

func verifNow() time.Time { return VerifNow() }
G
cat > "$D/zz_verif_clock_fdo.go" <<'G'
package fdo

import "time"

// VerifNow is the clock used by TO0 under verification builds (injected by /verif, never part of /repo).
var VerifNow = time.Now

func verifNow() time.Time { return VerifNow() }
G
printf '{"Replace":{"/repo/zz_verif_export.go":"/verif/overlay/fdo_export.go","/repo/kex/zz_verif_export.go":"/verif/overlay/kex_export.go","/repo/sqlite/sqlite.go":"%s/sqlite.go","/repo/sqlite/zz_verif_clock.go":"%s/zz_verif_clock_sqlite.go","/repo/to0.go":"%s/to0.go","/repo/zz_verif_clock.go":"%s/zz_verif_clock_fdo.go"}}\n' "$D" "$D" "$D" "$D" > "$OUT"
