package main

// Layer R — registration histories on the real SQLite rendezvous store.
//
// A state is a history of rendezvous-side events on ONE database file served by the real handler, TO0Server and
// TO1Server: the owner registers / re-registers a device's redirect with another address list and another
// time-to-live, a second device of the same owner is registered, the clock moves. After EVERY history both devices run
// the real TO1. The reference model keeps, per GUID, the latest registration (address list, expiry): TO1 must succeed
// exactly while that registration has not expired and must hand out exactly that registration's blob.

import (
	"context"
	"fmt"
	"os"
	"path/filepath"
	"strings"
	"time"

	fdo "github.com/fido-device-onboard/go-fdo"
	fdohttp "github.com/fido-device-onboard/go-fdo/http"
	"github.com/fido-device-onboard/go-fdo/protocol"
	"github.com/fido-device-onboard/go-fdo/sqlite"

	"verif/internal/keys"
	"verif/internal/lab"
)

type regModel struct {
	addr string
	exp  time.Time
	ok   bool
}

type regOp struct {
	name string
	dev  int // 0/1: registration for that device; -1: clock
	addr string
	ttl  uint32
	adv  time.Duration
}

var regOps = []regOp{
	{"reg(d0,a,1h)", 0, "a", 3600, 0},
	{"reg(d0,b,2h)", 0, "b", 7200, 0},
	{"reg(d0,c,30m)", 0, "c", 1800, 0},
	{"reg(d1,d,2h)", 1, "d", 7200, 0},
	{"reg(d1,e,20m)", 1, "e", 1200, 0},
	{"clock+45m", -1, "", 0, 45 * time.Minute},
	{"clock+100m", -1, "", 0, 100 * time.Minute},
	// positions inside the very second a 30-minute registration expires in (the clock starts at a fraction of a second)
	{"clock+30m-500ms", -1, "", 0, 30*time.Minute - 500*time.Millisecond},
	{"clock+30m+500ms", -1, "", 0, 30*time.Minute + 500*time.Millisecond},
}

func regAddrs(name string) []protocol.RvTO2Addr {
	dns := name + ".owner.example"
	return []protocol.RvTO2Addr{{DNSAddress: &dns, Port: 8000 + uint16(name[0]), TransportProtocol: protocol.HTTPTransport}}
}

// policyCap > 0: the rendezvous server's AcceptVoucher policy grants at most that many seconds.
func sqliteRegistrations(depth int, policyCap uint32) {
	ctx := context.Background()
	k := keys.KindByName("ec256")
	w := lab.NewWorld(k, protocol.X509KeyEnc)
	if _, err := w.Manufacture(ctx, 1); err != nil {
		r.Violation("lab-setup:sqlite-reg", err.Error(), nil)
		return
	}
	devs := []*lab.Device{w.Dev, lab.NewDevice(k, protocol.X509KeyEnc, "device2")}
	if err := devs[1].DI(ctx, w.WMfg.Transport()); err != nil {
		r.Violation("lab-setup:sqlite-reg", err.Error(), nil)
		return
	}
	if _, err := lab.Transfer(ctx, w.Mfg, w.Owner, k, devs[1].Cred.GUID); err != nil {
		r.Violation("lab-setup:sqlite-reg", err.Error(), nil)
		return
	}
	base := "/dev/shm"
	if _, err := os.Stat(base); err != nil {
		base = "/var/tmp"
	}
	dir, err := os.MkdirTemp(base, "verif-c07-")
	if err != nil {
		r.Fatal("%v", err)
	}
	defer os.RemoveAll(dir)
	var now time.Time
	sqlite.VerifNow = func() time.Time { return now }
	fdo.VerifNow = func() time.Time { return now }
	defer func() { sqlite.VerifNow, fdo.VerifNow = time.Now, time.Now }()
	n := 0
	var rec func(seq []int)
	rec = func(seq []int) {
		// the store is rebuilt for every history (a state IS its history)
		n++
		path := filepath.Join(dir, fmt.Sprintf("rv%d.sqlite", n))
		db, err := sqlite.Open(path, "")
		if err != nil {
			r.Fatal("sqlite: %v", err)
		}
		defer func() { _ = db.Close(); _ = os.Remove(path) }()
		to0 := &fdo.TO0Server{Session: db, RVBlobs: db}
		if policyCap > 0 {
			to0.AcceptVoucher = func(_ context.Context, _ fdo.Voucher, requested uint32) (uint32, error) {
				return min(requested, policyCap), nil
			}
		}
		h := fdohttp.Handler{Tokens: db, TO0Responder: to0, TO1Responder: &fdo.TO1Server{Session: db, RVBlobs: db}}
		wire := &lab.Wire{H: h}
		now = time.Unix(1_900_000_000, 400_000_000)
		model := [2]regModel{}
		var hist []string
		for _, i := range seq {
			op := regOps[i]
			hist = append(hist, op.name)
			if op.dev < 0 {
				now = now.Add(op.adv)
				continue
			}
			c := &fdo.TO0Client{Vouchers: w.Owner.State, OwnerKeys: w.Owner.State, TTL: op.ttl}
			ttl, err := c.RegisterBlob(ctx, wire.Transport(), devs[op.dev].Cred.GUID, regAddrs(op.addr))
			r.Transitions.Add(1)
			if err != nil {
				r.Violation("sqlite-reg:to0-fails", fmt.Sprintf("history %v: the owner's TO0 fails on the SQLite rendezvous store: %v", hist, err), map[string]any{"layer": "sqlite-registrations", "history": hist})
				return
			}
			granted := op.ttl
			if policyCap > 0 {
				granted = min(op.ttl, policyCap)
			}
			if ttl != granted {
				r.Violation("sqlite-reg:ttl", fmt.Sprintf("history %v: requested %d s, policy cap %d s: reply reports %d s, granted is %d s", hist, op.ttl, policyCap, ttl, granted), map[string]any{"layer": "sqlite-registrations", "history": hist, "policy_cap": policyCap})
			}
			model[op.dev] = regModel{op.addr, now.Add(time.Duration(granted) * time.Second), true}
		}
		r.States.Add(1)
		r.Evaluations.Add(1)
		for di, d := range devs {
			blob, err := d.TO1(ctx, wire.Transport())
			r.Transitions.Add(1)
			m := model[di]
			// the store keeps whole seconds: between the truncated and the exact expiry instant either answer is accepted
			live := m.ok && !now.After(time.Unix(m.exp.Unix(), 0))
			dead := !m.ok || now.After(m.exp)
			repl := map[string]any{"layer": "sqlite-registrations", "history": hist, "device": di}
			switch {
			case !live && !dead:
				r.Add("sqlite_reg_probes_inside_the_truncated_second", 1)
			case live && err != nil:
				r.Violation("sqlite-reg:registered-but-refused", fmt.Sprintf("history %v: device %d is registered (address %q) until %d s after now, yet TO1 fails: %v", hist, di, m.addr, int(m.exp.Sub(now).Seconds()), err), repl)
			case dead && err == nil:
				r.Violation("sqlite-reg:released-after-expiry", fmt.Sprintf("history %v: device %d has no live registration (registered=%v, expired %d s ago), yet TO1 released a redirect", hist, di, m.ok, int(now.Sub(m.exp).Seconds())), repl)
			case live:
				got := ""
				if blob != nil && blob.Payload != nil && len(blob.Payload.Val.RV) == 1 && blob.Payload.Val.RV[0].DNSAddress != nil {
					got = strings.TrimSuffix(*blob.Payload.Val.RV[0].DNSAddress, ".owner.example")
				}
				if got != m.addr {
					r.Violation("sqlite-reg:superseded-blob-released", fmt.Sprintf("history %v: the latest registration of device %d names address %q, TO1 released the blob for %q", hist, di, m.addr, got), repl)
				} else if ok, verr := blob.Verify(w.Owner.OwnerSigner(k).Public(), nil, nil); verr != nil || !ok {
					r.Violation("sqlite-reg:blob-signature", fmt.Sprintf("history %v: the released blob does not verify under the owner key (%v)", hist, verr), repl)
				}
			}
		}
		r.Distinct(fmt.Sprintf("sqlite-reg|%d|%s", policyCap, strings.Join(hist, ";")))
		if len(seq) == depth {
			return
		}
		for i := range regOps {
			rec(append(append([]int{}, seq...), i))
		}
	}
	rec(nil)
	r.Add("sqlite_registration_histories", int64(n))
}
