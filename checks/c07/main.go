// C07 — TO1 releases the registered redirect, unmodified, only to the proven device.
//
// Deviation-bounded exploration of the adversarial TO1 client, the clock and the return path against the
// real TO1Server (behind the real HTTP handler) and the real device-side TO1/TO2 code.
package main

import (
	"bytes"
	"context"
	"crypto"
	"encoding/hex"
	"fmt"
	"net"
	"sync"
	"time"

	fdo "github.com/fido-device-onboard/go-fdo"
	"github.com/fido-device-onboard/go-fdo/cbor"
	"github.com/fido-device-onboard/go-fdo/cose"
	"github.com/fido-device-onboard/go-fdo/kex"
	"github.com/fido-device-onboard/go-fdo/protocol"

	"verif/internal/cbormut"
	"verif/internal/ev"
	"verif/internal/keys"
	"verif/internal/lab"
	"verif/internal/probe"
	rc "verif/internal/refcbor"
	rv "verif/internal/refverify"
)

var r *ev.Run

type env struct {
	kind      keys.Kind
	w         *lab.World
	dev2      *lab.Device
	regTo1d   map[protocol.GUID][]byte // to1d (tag 18) bytes as the owner registered them
	regOV     map[protocol.GUID][]byte // voucher CBOR registered with the blob
	exp       map[protocol.GUID]time.Time
	addrsName string
}

// rvInfoFor gives the credential's rendezvous directives a shape per environment: the device-side check of the
// to1d must not depend on what the credential says about how to find the owner (a directive list may mix
// rendezvous-bypass directives with ordinary rendezvous-service directives in either order).
func rvInfoFor(shape string) [][]protocol.RvInstruction {
	enc := func(v any) []byte { b, _ := cbor.Marshal(v); return b }
	rvd := []protocol.RvInstruction{{Variable: protocol.RVDns, Value: enc("rv.verif.example")}, {Variable: protocol.RVDevPort, Value: enc(uint16(8041))}, {Variable: protocol.RVProtocol, Value: enc(uint8(protocol.RVProtHTTP))}}
	byp := []protocol.RvInstruction{{Variable: protocol.RVBypass}, {Variable: protocol.RVDns, Value: enc("owner.verif.example")}, {Variable: protocol.RVDevPort, Value: enc(uint16(8043))}, {Variable: protocol.RVProtocol, Value: enc(uint8(protocol.RVProtHTTP))}}
	switch shape {
	case "dns":
		return [][]protocol.RvInstruction{rvd}
	case "ip":
		return [][]protocol.RvInstruction{byp, rvd}
	case "both":
		return [][]protocol.RvInstruction{rvd, byp}
	case "three":
		return [][]protocol.RvInstruction{byp}
	}
	return [][]protocol.RvInstruction{}
}

func addrLists() map[string][]protocol.RvTO2Addr {
	dns, dns2 := "owner.verif.example", "b.example"
	ip4, ip6 := net.IP{10, 1, 2, 3}, net.ParseIP("2001:db8::7")
	return map[string][]protocol.RvTO2Addr{
		"dns":   {{DNSAddress: &dns, Port: 8080, TransportProtocol: protocol.HTTPTransport}},
		"empty": {},
		"ip":    {{IPAddress: &ip4, Port: 443, TransportProtocol: protocol.HTTPSTransport}},
		"both":  {{IPAddress: &ip6, DNSAddress: &dns2, Port: 1, TransportProtocol: protocol.TCPTransport}},
		"three": {{DNSAddress: &dns, Port: 65535, TransportProtocol: protocol.TLSTransport}, {IPAddress: &ip4, Port: 0, TransportProtocol: protocol.CoAPTransport}, {DNSAddress: &dns2, IPAddress: &ip6, Port: 5683, TransportProtocol: protocol.CoAPSTransport}},
	}
}

func newEnv(k keys.Kind, enc protocol.KeyEncoding, addrsName string) (*env, error) {
	ctx := context.Background()
	w := lab.NewWorld(k, enc)
	w.Mfg.RvInfo = rvInfoFor(addrsName)
	if _, err := w.Manufacture(ctx, 2); err != nil {
		return nil, err
	}
	e := &env{kind: k, w: w, regTo1d: map[protocol.GUID][]byte{}, regOV: map[protocol.GUID][]byte{}, exp: map[protocol.GUID]time.Time{}, addrsName: addrsName}
	// second device of the same line, same owner
	e.dev2 = lab.NewDevice(k, enc, "device2")
	if err := e.dev2.DI(ctx, w.WMfg.Transport()); err != nil {
		return nil, fmt.Errorf("DI dev2: %w", err)
	}
	if _, err := lab.Transfer(ctx, w.Mfg, w.Owner, k, e.dev2.Cred.GUID); err != nil {
		return nil, fmt.Errorf("transfer dev2: %w", err)
	}
	for _, g := range []protocol.GUID{w.Dev.Cred.GUID, e.dev2.Cred.GUID} {
		c := &fdo.TO0Client{Vouchers: w.Owner.State, OwnerKeys: w.Owner.State, TTL: 3600}
		wire := lab.NewWire(w.RV)
		wire.Pre = func(x *lab.Exchange) {
			if x.MsgType == 22 {
				if it, _, err := rc.Parse(x.ReqBody); err == nil && it.Kind == rc.Array && len(it.Items) == 2 {
					e.regTo1d[g] = rc.Encode(it.Items[1])
				}
			}
		}
		if _, err := c.RegisterBlob(ctx, wire.Transport(), g, addrLists()[addrsName]); err != nil {
			return nil, fmt.Errorf("TO0: %w", err)
		}
		_, exp, _ := w.RV.Mem.BlobBytes(g)
		e.exp[g] = exp
		ovb, _ := w.Owner.Mem.VoucherBytes(g)
		e.regOV[g] = ovb
	}
	return e, nil
}

// setClock positions the rendezvous server's clock at expiry+delta for guid.
func (e *env) setClock(g protocol.GUID, delta time.Duration) {
	e.w.RV.Mem.Skew = time.Until(e.exp[g]) + delta
}

type outcome struct {
	req30, req32 []byte
	nonce        []byte
	resp30Type   int
	resp32Type   int
	resp32       []byte
	blob         *cose.Sign1[protocol.To1d, []byte]
	err          error
	applied      bool
	clockAt32    time.Duration // offset relative to expiry when 32 was served
	clockSet     bool
}

type hooks struct {
	mut30, mut32 func([]byte) []byte
	mut33        func([]byte) []byte
	before30     func()
	between      func()
}

func (e *env) to1(dev *lab.Device, key crypto.Signer, h hooks) outcome {
	var o outcome
	wire := lab.NewWire(e.w.RV)
	wire.Pre = func(x *lab.Exchange) {
		switch x.MsgType {
		case 30:
			if h.before30 != nil {
				h.before30()
			}
			if h.mut30 != nil {
				if nb := h.mut30(x.ReqBody); nb != nil {
					x.ReqBody, o.applied = nb, true
				}
			}
			o.req30 = bytes.Clone(x.ReqBody)
		case 32:
			if h.between != nil {
				h.between()
			}
			if h.mut32 != nil {
				if nb := h.mut32(x.ReqBody); nb != nil {
					x.ReqBody, o.applied = nb, true
				}
			}
			o.req32 = bytes.Clone(x.ReqBody)
		}
	}
	wire.Post = func(x *lab.Exchange) {
		switch x.MsgType {
		case 30:
			o.resp30Type = x.RespType
			if it, _, err := rc.Parse(x.RespBody); err == nil && x.RespType == 31 && it.Kind == rc.Array && len(it.Items) >= 1 {
				o.nonce = it.Items[0].B
				if k, w := fresh.Note(e.kind.Name+" TO1.HelloRVAck", o.nonce); k != "" {
					r.Violation(k, w, nil)
				}
			}
		case 32:
			o.resp32Type, o.resp32 = x.RespType, bytes.Clone(x.RespBody)
			if h.mut33 != nil && x.RespType == 33 {
				if nb := h.mut33(x.RespBody); nb != nil {
					x.RespBody, o.applied = nb, true
					x.RespHeader.Set("Content-Length", fmt.Sprint(len(nb)))
				}
			}
		}
	}
	if p := probe.Call(func() {
		o.blob, o.err = fdo.TO1(context.Background(), wire.Transport(), *dev.Cred, key, &fdo.TO1Options{PSS: e.kind.PSS})
	}); p != nil {
		r.Violation(p.Key(), "TO1 attempt panics: "+p.Value+" in "+p.Frame, nil)
	}
	return o
}

// refRelease is the reference predicate: may the server release a blob in response to this ProveToRV?
func (e *env) refRelease(req32 []byte, nonce []byte, expired bool) (bool, string) {
	if expired {
		return false, "registration expired"
	}
	it, n, err := rc.Parse(req32)
	if err != nil || n != len(req32) {
		return false, "not CBOR"
	}
	s, err := rv.ParseSign1(it, true)
	if err != nil || s.Payload == nil {
		return false, "not a COSE_Sign1"
	}
	en, ueid, _, err := rv.EAT(s.Payload)
	if err != nil {
		return false, err.Error()
	}
	if len(nonce) == 0 || !bytes.Equal(en, nonce) {
		return false, "EAT nonce is not the one issued in this session"
	}
	if len(ueid) != 17 || ueid[0] != 1 {
		return false, "UEID malformed"
	}
	var g protocol.GUID
	copy(g[:], ueid[1:])
	ovb, ok := e.regOV[g]
	if !ok {
		return false, "no registration for the claimed GUID"
	}
	ovi, _, err := rc.Parse(ovb)
	if err != nil {
		return false, "stored voucher"
	}
	v, err := rv.ParseVoucher(ovi)
	if err != nil {
		return false, err.Error()
	}
	dk, err := v.DeviceKey()
	if err != nil {
		return false, err.Error()
	}
	if !s.Verify(dk, nil) {
		return false, "token is not signed with the registered voucher's device key"
	}
	return true, ""
}

var fresh lab.Fresh

func (e *env) judgeServer(class, what string, o outcome, expired bool, wantRelease *bool) {
	r.Evaluations.Add(1)
	repl := map[string]any{"kind": e.kind.Name, "class": class, "what": what, "req30": hex.EncodeToString(o.req30), "req32": hex.EncodeToString(o.req32), "nonce": hex.EncodeToString(o.nonce), "expired": expired}
	released := o.resp32Type == 33
	ok, why := false, "no ProveToRV reached the server"
	if o.req32 != nil {
		// value level: normalise what was received through the codec (see DESIGN: decoder leniencies)
		var norm cose.Sign1Tag[cbor.RawBytes, []byte]
		if err := cbor.Unmarshal(o.req32, &norm); err == nil && norm.Payload != nil {
			var eat fdo.XEatoken
			if err := cbor.Unmarshal([]byte(norm.Payload.Val), &eat); err == nil {
				if pb, err := cbor.Marshal(eat); err == nil {
					norm.Payload.Val = pb
					if nb, err := cbor.Marshal(norm); err == nil {
						ok, why = e.refRelease(nb, o.nonce, expired)
					}
				}
			}
		} else {
			why = "not decodable"
		}
	}
	if released && class == "replay" {
		r.Violation("released-on-replay", fmt.Sprintf("%s %s (%s): the RV server returned the redirect for a ProveToRV recorded in an earlier session", e.kind.Name, class, what), repl)
	}
	if released && !ok {
		r.Violation("released-without-proof:"+class, fmt.Sprintf("%s %s (%s): RV server returned the redirect although the reference predicate fails: %s", e.kind.Name, class, what, why), repl)
	}
	if wantRelease != nil && *wantRelease && !released {
		r.Violation("honest-refused:"+class, fmt.Sprintf("%s %s (%s): honest device did not obtain its redirect: %v", e.kind.Name, class, what, o.err), repl)
	}
	if released {
		// fidelity of what the server sent
		g := e.w.Dev.Cred.GUID
		if it, _, err := rc.Parse(o.req32); err == nil {
			if s, err := rv.ParseSign1(it, true); err == nil && s.Payload != nil {
				if _, ueid, _, err := rv.EAT(s.Payload); err == nil && len(ueid) == 17 {
					copy(g[:], ueid[1:])
				}
			}
		}
		if want := e.regTo1d[g]; !bytes.Equal(want, o.resp32) {
			r.Violation("blob-altered-by-server:"+class, fmt.Sprintf("%s %s: RVRedirect %x differs from the registered to1d %x", e.kind.Name, class, o.resp32, want), repl)
		}
	}
	r.Distinct(fmt.Sprintf("%s|%s|%v|%v|%s", e.kind.Name, class, released, ok, why))
}

func yes() *bool { b := true; return &b }

func (e *env) serverLeg() {
	dev, key := e.w.Dev, e.w.Dev.Key
	g := dev.Cred.GUID
	e.setClock(g, -30*time.Minute)
	base := e.to1(dev, key, hooks{})
	e.judgeServer("honest", "baseline", base, false, yes())
	if base.req32 == nil {
		return
	}
	opts := cbormut.Options{Leaf: true, ByteFlips: true, IntDomain: []int64{-7, -35, -257, -37, 10, 256, -257}}
	n30, n32 := len(cbormut.Enumerate(base.req30, opts)), len(cbormut.Enumerate(base.req32, opts))
	r.Add("mutants_30", int64(n30))
	r.Add("mutants_32", int64(n32))
	pick := func(i int, m *cbormut.Mutant) func([]byte) []byte {
		return func(body []byte) []byte {
			ms := cbormut.Enumerate(body, opts)
			if i >= len(ms) {
				return nil
			}
			*m = ms[i]
			nb := m.Get()
			if nb == nil || bytes.Equal(nb, body) {
				return nil
			}
			return nb
		}
	}
	for i := 0; i < n30; i++ {
		var m cbormut.Mutant
		if o := e.to1(dev, key, hooks{mut30: pick(i, &m)}); o.applied {
			e.judgeServer("leaf30:"+m.Op, m.Path, o, false, nil)
		}
	}
	for i := 0; i < n32; i++ {
		var m cbormut.Mutant
		if o := e.to1(dev, key, hooks{mut32: pick(i, &m)}); o.applied {
			e.judgeServer("leaf32:"+m.Op, m.Path, o, false, nil)
		}
	}
	// foreign signers (the real client with another key)
	for _, fk := range [][2]string{{e.kind.Alg, "stranger"}, {e.kind.Alg, "device2"}, {e.kind.Alg, "owner1"}, {e.kind.Alg, "mfg"}, {"ec256", "stranger"}, {"ec384", "stranger"}, {"rsa2048", "stranger"}} {
		if fk[0] == e.kind.Alg && fk[1] == "device" {
			continue
		}
		e.judgeServer("foreign-signer", fk[0]+"-"+fk[1], e.to1(dev, keys.Get(fk[0], fk[1]), hooks{}), false, nil)
	}
	// device2's key claiming device's GUID and vice versa
	d2as1 := *e.dev2
	d2as1.Cred = dev.Cred
	e.judgeServer("guid-of-another-device", "device2 key, device GUID", e.to1(&d2as1, e.dev2.Key, hooks{}), false, nil)
	// HelloRV names device2 (registered), ProveToRV is device's own genuine proof: allowed only if the proof itself is sound for the UEID's GUID
	e.judgeServer("hello-names-other-guid", "HelloRV for device2, proof by device", e.to1(dev, key, hooks{mut30: func(b []byte) []byte {
		it, _, _ := rc.Parse(b)
		it.Items[0] = rc.Bs(e.dev2.Cred.GUID[:])
		return rc.Encode(it)
	}}), false, nil)
	// replays of a genuine ProveToRV: in a later session (stale nonce)
	e.judgeServer("replay", "genuine ProveToRV of an earlier session", e.to1(dev, key, hooks{mut32: func([]byte) []byte { return bytes.Clone(base.req32) }}), false, nil)
	// clock positions
	for _, pos := range []struct {
		name            string
		before, between time.Duration
		expired         bool
	}{{"valid-throughout", -time.Hour, -time.Hour, false}, {"just-before-expiry", -2 * time.Second, -2 * time.Second, false},
		{"expired-before-hello", 2 * time.Second, 2 * time.Second, true}, {"expires-between-hello-and-prove", -2 * time.Second, 2 * time.Second, true},
		{"long-expired", time.Hour, time.Hour, true}, {"expired-then-clock-back", 2 * time.Second, -time.Hour, false}} {
		o := e.to1(dev, key, hooks{before30: func() { e.setClock(g, pos.before) }, between: func() { e.setClock(g, pos.between) }})
		var want *bool
		if !pos.expired && pos.before < 0 {
			want = yes()
		}
		e.judgeServer("clock:"+pos.name, pos.name, o, pos.expired, want)
		e.setClock(g, -30*time.Minute)
	}
}

// deviceLeg: alterations of RVRedirect on its way to the device, then the real TO2 with whatever TO1 returned.
func (e *env) deviceLeg(quick bool) {
	dev, key := e.w.Dev, e.w.Dev.Key
	g := dev.Cred.GUID
	e.setClock(g, -30*time.Minute)
	suite := lab.DefaultSuite(e.kind)
	runTO2 := func(blob *cose.Sign1[protocol.To1d, []byte]) (cred *fdo.DeviceCredential, err error, sent64 bool) {
		// a private owner instance per run so that a successful TO2 does not consume the voucher for later runs
		ow := lab.NewMemServer("owner", "owner1")
		var ov fdo.Voucher
		_ = cbor.Unmarshal(e.regOV[g], &ov)
		_ = ow.State.AddVoucher(context.Background(), &ov)
		wire := lab.NewWire(ow)
		wire.Pre = func(x *lab.Exchange) {
			if x.MsgType == 64 {
				sent64 = true
			}
		}
		if p := probe.Call(func() {
			cred, err = fdo.TO2(context.Background(), wire.Transport(), blob, dev.TO2Config(suite, kex.A128GcmCipher))
		}); p != nil {
			r.Violation(p.Key(), "TO2 with the obtained blob panics: "+p.Value+" in "+p.Frame, nil)
			err = fmt.Errorf("panic")
		}
		return
	}
	base := e.to1(dev, key, hooks{})
	if base.blob == nil {
		r.Violation("honest-refused:device-leg", fmt.Sprintf("%s: honest TO1 failed: %v", e.kind.Name, base.err), nil)
		return
	}
	r.Evaluations.Add(1)
	if got, _ := cbor.Marshal(base.blob.Tag()); !bytes.Equal(got, e.regTo1d[g]) {
		r.Violation("blob-not-faithful", fmt.Sprintf("%s addrs=%s: to1d obtained by the device %x differs from what the owner registered %x", e.kind.Name, e.addrsName, got, e.regTo1d[g]), nil)
	}
	if cred, err, _ := runTO2(base.blob); err != nil || cred == nil {
		r.Violation("honest-to2-rejects-blob", fmt.Sprintf("%s addrs=%s: TO2 with the honestly obtained blob failed: %v", e.kind.Name, e.addrsName, err), nil)
	}
	regNorm := e.regTo1d[g]
	opts := cbormut.Options{Leaf: true, ByteFlips: true}
	ms := cbormut.Enumerate(base.resp32, opts)
	step := 1
	if quick {
		step = 3
	}
	var wg sync.WaitGroup
	sem := make(chan struct{}, 4)
	check := func(class, what string, mut func([]byte) []byte) {
		defer wg.Done()
		defer func() { <-sem }()
		r.Evaluations.Add(1)
		o := e.to1(dev, key, hooks{mut33: mut})
		if !o.applied || o.blob == nil {
			r.Distinct("dev|" + class + "|rejected-by-to1")
			return
		}
		got, _ := cbor.Marshal(o.blob.Tag())
		cred, err, sent64 := runTO2(o.blob)
		if bytes.Equal(got, regNorm) {
			r.Distinct("dev|" + class + "|value-preserving")
			return // the alteration did not change the signed value the device holds
		}
		// reference: a blob that still verifies under the voucher's current owner key is owner-made (e.g. the
		// blob the same owner registered for another device); the device cannot and need not tell it apart
		if gi, _, perr := rc.Parse(got); perr == nil {
			if s1, serr := rv.ParseSign1(gi, true); serr == nil {
				if ovi, _, oerr := rc.Parse(e.regOV[g]); oerr == nil {
					if v, verr := rv.ParseVoucher(ovi); verr == nil {
						if owner, cerr := v.VerifyEntries(); cerr == nil && s1.Verify(owner, nil) {
							r.Distinct("dev|" + class + "|owner-signed")
							return
						}
					}
				}
			}
		}
		if err == nil || cred != nil || sent64 {
			r.Violation("device-accepts-altered-redirect:"+class, fmt.Sprintf("%s: RVRedirect altered (%s %s) yet TO2 cred=%v err=%v ProveDevice sent=%v", e.kind.Name, class, what, cred != nil, err, sent64), map[string]any{"kind": e.kind.Name, "class": class, "what": what, "blob": hex.EncodeToString(got)})
		}
		r.Distinct("dev|" + class + "|to2-aborted")
	}
	for i := 0; i < len(ms); i += step {
		m := ms[i]
		wg.Add(1)
		sem <- struct{}{}
		go check("leaf33:"+m.Op, m.Path, func([]byte) []byte { return m.Get() })
	}
	// blob re-signed by foreign keys, and the blob registered for the other device
	for _, fk := range [][2]string{{e.kind.Alg, "stranger"}, {e.kind.Alg, "mfg"}, {e.kind.Alg, "owner2"}} {
		wg.Add(1)
		sem <- struct{}{}
		go check("resigned:"+fk[1], fk[0], func(b []byte) []byte {
			var t cose.Sign1Tag[protocol.To1d, []byte]
			if err := cbor.Unmarshal(b, &t); err != nil {
				return nil
			}
			s := cose.Sign1[protocol.To1d, []byte]{Payload: t.Payload}
			if err := s.Sign(keys.Get(fk[0], fk[1]), nil, nil, signOpts(keys.Get(fk[0], fk[1]), e.kind.PSS)); err != nil {
				return nil
			}
			out, _ := cbor.Marshal(s.Tag())
			return out
		})
	}
	wg.Add(1)
	sem <- struct{}{}
	go check("blob-of-other-device", "device2's registered blob", func([]byte) []byte { return e.regTo1d[e.dev2.Cred.GUID] })
	wg.Wait()
}

func main() {
	r = ev.Start("C07", "fault_enumeration")
	kinds := []string{"ec256", "rsapss2048"}
	if !r.Quick() {
		kinds = []string{"ec256", "ec384", "rsa2048restr", "rsapkcs3072", "rsapss2048", "rsapss3072"}
	}
	r.Rule("per key type: two devices registered through the real TO0 with each of 5 address-list shapes (the credential's rendezvous directives vary with them: none, rendezvous service only, bypass directive before / after a rendezvous-service directive, bypass only); then one deviation per run against the real TO1Server behind the real handler: every single-node alteration and every byte ^0x01 of HelloRV and ProveToRV, 7 foreign signers through the real TO1 client, another device's key/GUID, HelloRV naming another GUID, replay of a genuine ProveToRV, 6 clock positions around expiry (before HelloRV / between the two messages); and on the return path every (quick: every third) single-node alteration / byte flip of RVRedirect, re-signing by 3 foreign keys and substitution of another device's blob, each followed by the real TO2 with what TO1 returned. Oracles: 33 => reference predicate (token verifies under the registered voucher's device key for the UEID's GUID, nonce issued in this session, not expired); the released and the device-side to1d are byte-identical to what the owner registered and TO2 accepts it; an altered redirect that changes the signed value makes TO2 fail without credential and without sending ProveDevice. Layer R (real SQLite rendezvous store, clock seam in to0.go and sqlite.go): every history of up to 3 (thorough 4) events over {register device 0 with address a/1h, b/2h, c/30m; register device 1 with d/2h, e/20m; clock +45m, +100m, +30m-500ms, +30m+500ms (the clock starts at a fraction of a second, so the last two land just before and just after the exact expiry of a 30-minute registration, inside the same wall-clock second)} through the real TO0, followed by the real TO1 of both devices: TO1 succeeds exactly while the LATEST registration of that GUID is unexpired and releases exactly that registration's blob, signature intact; the same to depth 2 (3) with an AcceptVoucher policy that grants at most 40 minutes: reply and expiry follow the GRANTED time-to-live.")
	var wg sync.WaitGroup
	for _, kn := range kinds {
		k := keys.KindByName(kn)
		shapes := []string{"dns", "ip"}
		if !r.Quick() || kn == "ec256" {
			shapes = []string{"dns", "empty", "ip", "both", "three"}
		}
		for si, shape := range shapes {
			wg.Add(1)
			go func() {
				defer wg.Done()
				e, err := newEnv(k, protocol.X509KeyEnc, shape)
				if err != nil {
					r.Violation("lab-setup:"+k.Name, fmt.Sprintf("%s/%s: %v", k.Name, shape, err), nil)
					return
				}
				if si == 0 {
					e.serverLeg()
				}
				e.deviceLeg(r.Quick() || si > 0)
			}()
		}
	}
	wg.Wait()
	regDepth := 3
	if !r.Quick() {
		regDepth = 4
	}
	sqliteRegistrations(regDepth, 0)
	sqliteRegistrations(regDepth-1, 40*60) // the rendezvous server's policy grants at most 40 minutes
	r.Sample(3, map[string]any{"layer": "sqlite-registrations", "history": []string{"reg(d0,b,2h)", "reg(d0,c,30m)", "clock+45m"}, "then": "TO1 of device 0 must fail, TO1 of device 1 must fail (never registered)"})
	r.Sample(3, map[string]any{"class": "clock:expires-between-hello-and-prove"})
	r.Sample(3, map[string]any{"class": "leaf33:str-flip-last", "path": "/0/3 (signature)"})
	r.Assume("the deviation layers use the journaling memory store with a virtual clock; registration histories (layer R) run on the real SQLite store; the store interface as such is explored by C18")
	r.Finish()
}
