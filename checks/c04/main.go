// C04 — ownership vouchers verify iff untampered; only the current owner can extend.
//
// Small-scope exhaustive input enumeration: every single-node / single-bit alteration, entry permutation and
// cross-voucher splice of real vouchers is put through the real Voucher.Verify* methods; the oracle compares the
// bound subtrees at value level and cross-checks with the independent chain verifier. Extension is tried with
// every signer x every next-owner key.
package main

import (
	"bytes"
	"context"
	"crypto"
	"crypto/ecdsa"
	"crypto/rsa"
	"crypto/x509"
	"encoding/hex"
	"fmt"
	"strings"
	"sync"

	fdo "github.com/fido-device-onboard/go-fdo"
	"github.com/fido-device-onboard/go-fdo/cbor"
	"github.com/fido-device-onboard/go-fdo/protocol"

	"verif/internal/cbormut"
	"verif/internal/ev"
	"verif/internal/keys"
	"verif/internal/lab"
	"verif/internal/probe"
	rc "verif/internal/refcbor"
	rv "verif/internal/refverify"
)

var r *ev.Run

type sample struct {
	kind    keys.Kind
	enc     protocol.KeyEncoding
	hops    int
	dev     *lab.Device
	ov      *fdo.Voucher
	enc0    []byte // canonical encoding
	owner   crypto.Signer
	chain   []crypto.Signer
	mfgRole string
}

func build(k keys.Kind, enc protocol.KeyEncoding, hops int, mfgRole, devRole string) (*sample, error) {
	ctx := context.Background()
	w := lab.NewWorld(k, enc)
	w.Mfg = lab.NewMemServer("mfg", mfgRole).UseKind(k)
	w.WMfg = lab.NewWire(w.Mfg)
	w.Dev = lab.NewDevice(k, enc, devRole)
	if err := w.Dev.DI(ctx, w.WMfg.Transport()); err != nil {
		return nil, err
	}
	ov, err := w.Mfg.State.RemoveVoucher(ctx, w.Dev.Cred.GUID)
	if err != nil {
		return nil, err
	}
	s := &sample{kind: k, enc: enc, hops: hops, dev: w.Dev, mfgRole: mfgRole}
	signer := keys.Get(k.Alg, mfgRole)
	s.chain = []crypto.Signer{signer}
	roles := []string{"owner2", "owner3", "owner1"}
	for i := 0; i < hops; i++ {
		next := keys.Get(k.Alg, roles[i%3])
		if ov, err = lab.Extend(ov, signer, next, k); err != nil {
			return nil, err
		}
		signer = next
		s.chain = append(s.chain, next)
	}
	s.ov, s.owner = ov, signer
	s.enc0, err = cbor.Marshal(ov)
	return s, err
}

// verifyAll runs every verification step the library offers; it returns the first failing step or "".
func verifyAll(b []byte, dev *lab.Device) (failed string, p *probe.Panic, ov *fdo.Voucher) {
	p = probe.Call(func() {
		var v fdo.Voucher
		if err := cbor.Unmarshal(b, &v); err != nil {
			failed = "decode"
			return
		}
		ov = &v
		h256, h384 := dev.Hmacs()
		switch {
		case v.VerifyHeader(h256, h384) != nil:
			failed = "VerifyHeader"
		case v.VerifyManufacturerKey(dev.Cred.PublicKeyHash) != nil:
			failed = "VerifyManufacturerKey"
		case v.VerifyCertChainHash() != nil:
			failed = "VerifyCertChainHash"
		case v.VerifyDeviceCertChain(nil) != nil:
			failed = "VerifyDeviceCertChain"
		case v.VerifyEntries() != nil:
			failed = "VerifyEntries"
		}
	})
	return
}

// stepsOn runs the verification steps on an already decoded voucher.
func stepsOn(v *fdo.Voucher, dev *lab.Device) string {
	h256, h384 := dev.Hmacs()
	switch {
	case v.VerifyHeader(h256, h384) != nil:
		return "VerifyHeader"
	case v.VerifyManufacturerKey(dev.Cred.PublicKeyHash) != nil:
		return "VerifyManufacturerKey"
	case v.VerifyCertChainHash() != nil:
		return "VerifyCertChainHash"
	case v.VerifyDeviceCertChain(nil) != nil:
		return "VerifyDeviceCertChain"
	case v.VerifyEntries() != nil:
		return "VerifyEntries"
	}
	return ""
}

// reusedVariable: a voucher decoded into a variable that held (and verified) ANOTHER voucher before must get the
// verdict and name the owner it gets in a fresh variable: what a decode target held before must not leak into the
// value decoded into it (lazily cached parsed keys are the obvious carrier).
func reusedVariable(all []*sample) {
	for _, prim := range all {
		for _, tgt := range all {
			if prim == tgt {
				continue
			}
			r.Evaluations.Add(1)
			id := fmt.Sprintf("%s/enc%d/n%d (mfg %s) decoded over %s/enc%d/n%d (mfg %s)", tgt.kind.Name, tgt.enc, tgt.hops, tgt.mfgRole, prim.kind.Name, prim.enc, prim.hops, prim.mfgRole)
			var fresh, reused string
			var freshOwner, reusedOwner crypto.PublicKey
			p := probe.Call(func() {
				var a fdo.Voucher
				if err := cbor.Unmarshal(tgt.enc0, &a); err != nil {
					fresh = "decode"
				} else {
					fresh = stepsOn(&a, tgt.dev)
					freshOwner, _ = a.OwnerPublicKey()
				}
				var v fdo.Voucher
				if err := cbor.Unmarshal(prim.enc0, &v); err == nil {
					_ = stepsOn(&v, prim.dev)
					_, _ = v.OwnerPublicKey()
				}
				if err := cbor.Unmarshal(tgt.enc0, &v); err != nil {
					reused = "decode"
				} else {
					reused = stepsOn(&v, tgt.dev)
					reusedOwner, _ = v.OwnerPublicKey()
				}
			})
			repl := map[string]any{"layer": "reused-variable", "target": tgt.id(), "earlier": prim.id()}
			switch {
			case p != nil:
				r.Violation(p.Key(), id+": panic "+p.Value, repl)
			case fresh != reused:
				r.Violation("verdict-depends-on-earlier-contents", fmt.Sprintf("%s: fails %q in a fresh variable and %q in the reused one", id, fresh, reused), repl)
			case fresh == "" && (freshOwner == nil || reusedOwner == nil || !rv.KeysEqual(freshOwner, reusedOwner)):
				r.Violation("owner-depends-on-earlier-contents", id+": OwnerPublicKey differs between the fresh and the reused variable", repl)
			}
			r.Distinct("reused|" + tgt.id() + "|" + prim.id())
		}
	}
}

// boundKey extracts the bound subtrees from a (codec-normalised) voucher encoding.
func boundKey(b []byte) ([]byte, bool) {
	it, n, err := rc.Parse(b)
	if err != nil || n != len(b) || it.Kind != rc.Array || len(it.Items) != 5 || it.Items[4].Kind != rc.Array {
		return nil, false
	}
	var out []byte
	out = append(out, rc.Encode(it.Items[1])...)
	out = append(out, rc.Encode(it.Items[2])...)
	out = append(out, rc.Encode(it.Items[3])...)
	for _, e := range it.Items[4].Items {
		x := e
		if x.Kind == rc.Tag {
			x = x.Items[0]
		}
		if x.Kind != rc.Array || len(x.Items) != 4 {
			return nil, false
		}
		out = append(out, 0xEE)
		out = append(out, rc.Encode(x.Items[0])...)
		out = append(out, rc.Encode(x.Items[2])...)
		out = append(out, rc.Encode(x.Items[3])...)
	}
	return out, true
}

func (s *sample) id() string { return fmt.Sprintf("%s/enc%d/n%d", s.kind.Name, s.enc, s.hops) }

func (s *sample) judge(class, what string, mut []byte) {
	r.Evaluations.Add(1)
	failed, p, ov := verifyAll(mut, s.dev)
	repl := map[string]any{"voucher": s.id(), "class": class, "what": what, "mutant_hex": hex.EncodeToString(mut)}
	if p != nil {
		r.Violation(p.Key(), fmt.Sprintf("%s %s (%s): verification panics: %s in %s", s.id(), class, what, p.Value, p.Frame), repl)
		return
	}
	if failed != "" {
		r.Distinct(s.id() + "|" + class + "|" + failed)
		return
	}
	// every step passed: the bound subtrees must equal the original's (value level)
	norm, err := cbor.Marshal(ov)
	if err != nil {
		return
	}
	bk, ok1 := boundKey(norm)
	ok0, _ := boundKey(s.enc0)
	if ok1 && len(bk) < len(ok0) && bytes.HasPrefix(ok0, bk) && ok0[len(bk)] == 0xEE {
		// header, HMAC and certificates unchanged and the entries are a proper prefix of the original's: that is
		// the (valid) voucher as an earlier owner held it, not a tampered one
		r.Add("valid_earlier_versions_by_truncation", 1)
		r.Distinct(s.id() + "|" + class + "|earlier-version")
		return
	}
	if !ok1 || !bytes.Equal(bk, ok0) {
		r.Violation("tampered-verifies:"+class, fmt.Sprintf("%s %s (%s): a bound field differs from the original, yet VerifyHeader, VerifyManufacturerKey, VerifyCertChainHash, VerifyDeviceCertChain and VerifyEntries all succeed", s.id(), class, what), repl)
		return
	}
	// cross-check with the independent chain verifier
	if it, _, err := rc.Parse(norm); err == nil {
		if v, err := rv.ParseVoucher(it); err != nil {
			r.Violation("reference-disagrees:"+class, fmt.Sprintf("%s %s: library accepts, reference cannot parse: %v", s.id(), class, err), repl)
		} else if _, err := v.VerifyEntries(); err != nil || !v.VerifyHMAC(s.dev.Secret) || !v.VerifyCertChainHash() {
			r.Violation("reference-disagrees:"+class, fmt.Sprintf("%s %s (%s): library accepts, reference rejects (%v)", s.id(), class, what, err), repl)
		}
	}
	r.Distinct(s.id() + "|" + class + "|unbound-change")
}

func (s *sample) explore(thorough bool, siblings []*sample) {
	// non-vacuity
	r.Evaluations.Add(1)
	if failed, p, ov := verifyAll(s.enc0, s.dev); failed != "" || p != nil {
		r.Violation("genuine-rejected:"+s.kind.Name, fmt.Sprintf("%s: genuine voucher fails %s (%v)", s.id(), failed, p), nil)
		return
	} else if pub, err := ov.OwnerPublicKey(); err != nil || !rv.KeysEqual(pub, s.owner.Public()) {
		r.Violation("owner-key-wrong:"+s.kind.Name, fmt.Sprintf("%s: OwnerPublicKey is not the key of the last extension (%v)", s.id(), err), nil)
	}
	opts := cbormut.Options{Leaf: true, ByteFlips: true, BitFlips: thorough, IntDomain: []int64{-16, -43, 5, 6, -7, -35, -257, -258, -37, -38, 0, 1, 10, 11}}
	for _, m := range cbormut.Enumerate(s.enc0, opts) {
		b := m.Get()
		if b == nil || bytes.Equal(b, s.enc0) {
			continue
		}
		s.judge("leaf:"+m.Op, m.Path, b)
	}
	// structural: entries swapped, duplicated, removed
	it, _, _ := rc.Parse(s.enc0)
	ents := it.Items[4].Items
	with := func(es []*rc.Item) []byte {
		c := it.Clone()
		c.Items[4] = rc.A(es...)
		return rc.Encode(c)
	}
	for i := range ents {
		for j := i + 1; j < len(ents); j++ {
			sw := append([]*rc.Item{}, ents...)
			sw[i], sw[j] = sw[j], sw[i]
			s.judge("entries-swapped", fmt.Sprintf("%d<->%d", i, j), with(sw))
		}
		dup := append(append(append([]*rc.Item{}, ents[:i+1]...), ents[i]), ents[i+1:]...)
		s.judge("entry-duplicated", fmt.Sprint(i), with(dup))
		rem := append(append([]*rc.Item{}, ents[:i]...), ents[i+1:]...)
		s.judge("entry-removed", fmt.Sprint(i), with(rem))
	}
	// signature re-encodings: the same (r,s) integers / RSA value in a different byte-string form
	for i, e := range ents {
		x := e
		if x.Kind == rc.Tag {
			x = x.Items[0]
		}
		sig := x.Items[3].B
		var forms [][]byte
		for _, k := range []int{1, 2, 16} {
			h := len(sig) / 2
			forms = append(forms, append(append(append(make([]byte, k), sig[:h]...), make([]byte, k)...), sig[h:]...)) // 0^k r 0^k s
			forms = append(forms, append(make([]byte, k), sig...))                                                     // 0^k sig
			forms = append(forms, append(bytes.Clone(sig), make([]byte, k)...))                                        // sig 0^k
		}
		for fi, f := range forms {
			es := append([]*rc.Item{}, ents...)
			nx := x.Clone()
			nx.Items[3] = rc.Bs(f)
			es[i] = rc.Tg(18, nx)
			s.judge("signature-reencoded", fmt.Sprintf("entry %d form %d (len %d->%d)", i, fi, len(sig), len(f)), with(es))
		}
	}
	// splices from sibling vouchers (same manufacturer other device, other manufacturer, longer/shorter chains)
	for _, sib := range siblings {
		if sib == s || sib.kind.Name != s.kind.Name || sib.enc != s.enc {
			continue
		}
		st, _, _ := rc.Parse(sib.enc0)
		for idx, name := range map[int]string{1: "header", 2: "hmac", 3: "certchain"} {
			c := it.Clone()
			c.Items[idx] = st.Items[idx]
			s.judge("splice:"+name, "from "+sib.id()+"/"+sib.mfgRole, rc.Encode(c))
		}
		c := it.Clone()
		c.Items[1], c.Items[2] = st.Items[1], st.Items[2]
		s.judge("splice:header+hmac", "from "+sib.id()+"/"+sib.mfgRole, rc.Encode(c))
		c = it.Clone()
		c.Items[4] = st.Items[4]
		s.judge("splice:all-entries", "from "+sib.id()+"/"+sib.mfgRole, rc.Encode(c))
		for i, se := range st.Items[4].Items {
			for j := range ents {
				es := append([]*rc.Item{}, ents...)
				es[j] = se
				s.judge("splice:entry", fmt.Sprintf("entry %d of %s/%s into slot %d", i, sib.id(), sib.mfgRole, j), with(es))
			}
			s.judge("splice:entry-appended", fmt.Sprintf("entry %d of %s/%s", i, sib.id(), sib.mfgRole), with(append(append([]*rc.Item{}, ents...), se)))
		}
	}
}

// extension: ExtendVoucher succeeds iff signer is the current owner and the next key has the manufacturer key's type and size.
func (s *sample) extension() {
	type nk struct {
		name string
		alg  string
		pub  any
	}
	var nexts []nk
	for _, alg := range []string{"ec256", "ec384", "rsa2048", "rsa3072"} {
		k := keys.Get(alg, "stranger")
		nexts = append(nexts, nk{alg + "-pub", alg, k.Public()}, nk{alg + "-chain", alg, []*x509.Certificate{keys.SelfSigned(alg+"-stranger", k)}})
	}
	signers := map[string]crypto.Signer{"current-owner": s.owner, "stranger-same-type": keys.Get(s.kind.Alg, "stranger"), "manufacturer": keys.Get(s.kind.Alg, s.mfgRole)}
	for i, c := range s.chain[:len(s.chain)-1] {
		signers[fmt.Sprintf("earlier-owner-%d", i)] = c
	}
	for _, alg := range []string{"ec256", "ec384", "rsa2048", "rsa3072"} {
		if alg != s.kind.Alg {
			signers["stranger-"+alg] = keys.Get(alg, "stranger")
		}
	}
	for sname, signer := range signers {
		for _, n := range nexts {
			r.Evaluations.Add(1)
			var x *fdo.Voucher
			var err error
			p := probe.Call(func() {
				switch pub := n.pub.(type) {
				case *ecdsa.PublicKey:
					x, err = fdo.ExtendVoucher(s.ov, signer, pub, nil)
				case *rsa.PublicKey:
					x, err = fdo.ExtendVoucher(s.ov, signer, pub, nil)
				case []*x509.Certificate:
					x, err = fdo.ExtendVoucher(s.ov, signer, pub, nil)
				}
			})
			isOwner := rv.KeysEqual(signer.Public(), s.owner.Public())
			sameTypeSize := strings.HasPrefix(s.kind.Alg, n.alg) // boundary rings (ec256x0, ...) are keys of the plain type
			want := isOwner && sameTypeSize
			repl := map[string]any{"voucher": s.id(), "signer": sname, "next": n.name}
			switch {
			case p != nil:
				r.Violation(p.Key(), fmt.Sprintf("%s: ExtendVoucher(signer=%s,next=%s) panics: %s in %s", s.id(), sname, n.name, p.Value, p.Frame), repl)
			case err == nil && !want:
				why := "the signer is not the current owner"
				if isOwner {
					why = "the next-owner key is not of the manufacturer key's type and size"
				}
				r.Violation(fmt.Sprintf("extension-accepted:owner=%v:sametype=%v", isOwner, sameTypeSize), fmt.Sprintf("%s: ExtendVoucher(signer=%s,next=%s) succeeded although %s", s.id(), sname, n.name, why), repl)
			case err != nil && want:
				r.Violation("extension-refused", fmt.Sprintf("%s: ExtendVoucher by the current owner to a %s key failed: %v", s.id(), n.name, err), repl)
			case err == nil:
				// the extended voucher verifies and names the new key
				xb, _ := cbor.Marshal(x)
				if failed, p2, xv := verifyAll(xb, s.dev); failed != "" || p2 != nil {
					r.Violation("extended-voucher-invalid", fmt.Sprintf("%s: voucher extended to %s fails %s", s.id(), n.name, failed), repl)
				} else if pub, err := xv.OwnerPublicKey(); err != nil || !rv.KeysEqual(pub, keys.Get(n.alg, "stranger").Public()) {
					r.Violation("extended-owner-wrong", fmt.Sprintf("%s: extended voucher does not name the new owner key", s.id()), repl)
				}
			}
			r.Distinct(fmt.Sprintf("%s|ext|%s|%s|%v", s.id(), sname, n.name, err == nil))
		}
	}
}

// branching: the same in-memory voucher extended to two different next owners (a reseller offering a device to two
// buyers, a retry with another key). Each result keeps verifying and keeps naming ITS next owner after the other
// extension was made, and the voucher that was extended is unchanged. Vouchers are built by successive in-memory
// extensions (as a supply chain tool holds them) for every chain length 0..6.
func branching(k keys.Kind, enc protocol.KeyEncoding) {
	ctx := context.Background()
	w := lab.NewWorld(k, enc)
	if err := w.Dev.DI(ctx, w.WMfg.Transport()); err != nil {
		r.Violation("lab-setup:branching", err.Error(), nil)
		return
	}
	ov, err := w.Mfg.State.RemoveVoucher(ctx, w.Dev.Cred.GUID)
	if err != nil {
		r.Violation("lab-setup:branching", err.Error(), nil)
		return
	}
	cur := w.Mfg.OwnerSigner(k)
	roles := []string{"owner1", "owner2", "owner3"}
	for n := 0; n <= 6; n++ {
		r.Evaluations.Add(1)
		id := fmt.Sprintf("%s/enc%d/n%d", k.Name, enc, n)
		before, _ := cbor.Marshal(ov)
		a, b := keys.Get(k.Alg, "stranger"), keys.Get(k.Alg, "device2")
		xa, errA := lab.Extend(ov, cur, a, k)
		var xaBytes []byte
		if errA == nil {
			xaBytes, _ = cbor.Marshal(xa)
		}
		xb, errB := lab.Extend(ov, cur, b, k)
		repl := map[string]any{"voucher": id, "layer": "branching"}
		if errA != nil || errB != nil {
			r.Violation("extension-refused", fmt.Sprintf("%s: extending one voucher to two next owners: %v / %v", id, errA, errB), repl)
			return
		}
		if after, _ := cbor.Marshal(ov); !bytes.Equal(before, after) {
			r.Violation("extension-alters-source", fmt.Sprintf("%s: the voucher that was extended changed", id), repl)
		}
		if now, _ := cbor.Marshal(xa); !bytes.Equal(now, xaBytes) {
			r.Violation("extension-alters-earlier-result", fmt.Sprintf("%s: the voucher extended to the first buyer changed when the same voucher was extended to a second one", id), repl)
		}
		for _, c := range []struct {
			x    *fdo.Voucher
			want crypto.Signer
			name string
		}{{xa, a, "first"}, {xb, b, "second"}} {
			cb, _ := cbor.Marshal(c.x)
			if failed, p2, xv := verifyAll(cb, w.Dev); failed != "" || p2 != nil {
				r.Violation("extended-voucher-invalid", fmt.Sprintf("%s: the voucher extended to the %s buyer fails %s", id, c.name, failed), repl)
			} else if pub, err := xv.OwnerPublicKey(); err != nil || !rv.KeysEqual(pub, c.want.Public()) {
				r.Violation("extended-owner-wrong", fmt.Sprintf("%s: the voucher extended to the %s buyer does not name that buyer's key after both extensions were made", id, c.name), repl)
			}
		}
		r.Distinct(id + "|branching")
		// walk on: the chain grows by one in-memory extension
		next := keys.Get(k.Alg, roles[n%len(roles)])
		if ov, err = lab.Extend(ov, cur, next, k); err != nil {
			r.Violation("extension-refused", fmt.Sprintf("%s: chain extension: %v", id, err), repl)
			return
		}
		cur = next
	}
}

func main() {
	r = ev.Start("C04", "exploration")
	type cfg struct {
		kind string
		enc  protocol.KeyEncoding
	}
	// the -x0 / -y0 rings hold keys whose x / y coordinate begins with a zero octet (about 1 key in 128 of each ring
	// of honest keys does): every encoding of a key must carry them through the chain
	cfgs := []cfg{{"ec256", protocol.X509KeyEnc}, {"ec384", protocol.CoseKeyEnc}, {"rsapss2048", protocol.X5ChainKeyEnc}, {"ec256-x0", protocol.CoseKeyEnc}, {"ec384-y0", protocol.CoseKeyEnc}}
	lens := []int{0, 2}
	if !r.Quick() {
		cfgs = nil
		for _, k := range keys.Kinds {
			for _, e := range k.Encodings() {
				cfgs = append(cfgs, cfg{k.Name, e})
			}
		}
		for _, k := range keys.BoundaryKinds {
			for _, e := range k.Encodings() {
				cfgs = append(cfgs, cfg{k.Name, e})
			}
		}
		lens = []int{0, 1, 2, 3}
	}
	r.Rule("for each (key type, encoding) and chain length n: a voucher built by the real DI + ExtendVoucher; every single-node alteration under the cbormut operator set (recursing into the header bstr, each entry's protected header / payload / signature, certificate bytes, the HMAC), every byte ^0x01 (thorough: every bit), every pairwise entry swap, duplication and removal, and cross-voucher splices (header, HMAC, certificate chain, header+HMAC, all entries, each entry into each slot / appended) from sibling vouchers of the same and of another manufacturer and of other chain lengths, is decoded and put through VerifyHeader, VerifyManufacturerKey, VerifyCertChainHash, VerifyDeviceCertChain, VerifyEntries. Oracle: no panic; if all steps pass, the bound subtrees (header, HMAC, certificate chain, every entry's protected header, payload, signature) of the codec-normalised mutant equal the original's and the independent chain verifier agrees. Extension: every signer of the ring x 8 next-owner keys: success iff signer = current owner and next key of the manufacturer key's type and size; the result verifies and names the new key. Branching: for every chain length 0..6 (vouchers grown by in-memory extensions) the same voucher object is extended to two different next owners: both results verify and name their own next owner after both extensions were made, and the extended voucher is unchanged. Reused variable: every sample voucher decoded into a variable that held and verified every other sample voucher before gets the same verdict and owner as in a fresh variable.")
	var all []*sample
	var mu sync.Mutex
	var wg sync.WaitGroup
	for _, c := range cfgs {
		for _, n := range lens {
			for _, mr := range [][2]string{{"mfg", "device"}, {"mfg", "device2"}, {"mfg2", "device"}} {
				wg.Add(1)
				go func() {
					defer wg.Done()
					s, err := build(keys.KindByName(c.kind), c.enc, n, mr[0], mr[1])
					if err != nil {
						r.Violation("lab-setup:"+c.kind, fmt.Sprintf("%+v n=%d: %v", c, n, err), nil)
						return
					}
					mu.Lock()
					all = append(all, s)
					mu.Unlock()
				}()
			}
		}
	}
	wg.Wait()
	sem := make(chan struct{}, 16)
	for _, s := range all {
		if s.mfgRole != "mfg" || s.dev.Key != keys.Get(s.kind.Alg, "device") {
			continue // siblings only
		}
		wg.Add(1)
		sem <- struct{}{}
		go func() {
			defer wg.Done()
			defer func() { <-sem }()
			s.explore(!r.Quick(), all)
			s.extension()
		}()
	}
	wg.Wait()
	for _, c := range cfgs {
		branching(keys.KindByName(c.kind), c.enc)
	}
	reusedVariable(all)
	r.Sample(3, map[string]any{"voucher": "ec256/enc1/n2", "class": "leaf:str-flip-mid", "path": "/4/1/0/2/bstr/0/1 (entry 1 previous hash value)"})
	r.Sample(3, map[string]any{"voucher": "rsapss2048/enc2/n2", "class": "splice:entry", "what": "entry 0 of a sibling voucher into slot 1"})
	r.Assume("bound subtrees are compared at value level on the codec-normalised (decode/re-encode) form; only the outer version and the unauthenticated COSE header maps are unbound; ECDSA signature malleability (r,-s) is outside the single-alteration operator set")
	r.Finish()
}
