// C06 — the rendezvous server registers a redirect only for the voucher's current owner.
//
// Deviation-bounded exploration of the adversarial TO0 client against the real TO0Server behind the real HTTP
// handler: every single-leaf alteration of TO0.OwnerSign, every signer of the key ring, replays, TTL policies.
// Oracle: SetRVBlob / AcceptOwner only if the independent reference predicate holds on the bytes received.
package main

import (
	"bytes"
	"context"
	"crypto"
	"crypto/x509"
	"encoding/hex"
	"fmt"
	"strings"
	"sync"
	"time"

	fdo "github.com/fido-device-onboard/go-fdo"
	"github.com/fido-device-onboard/go-fdo/cbor"
	"github.com/fido-device-onboard/go-fdo/cose"
	"github.com/fido-device-onboard/go-fdo/protocol"

	"verif/internal/cbormut"
	"verif/internal/ev"
	"verif/internal/keys"
	"verif/internal/lab"
	"verif/internal/probe"
	rc "verif/internal/refcbor"
	rv "verif/internal/refverify"
)

var r *ev.Run

// refAccept is the reference predicate R on the OwnerSign bytes the server received.
func refAccept(body []byte, issuedNonce []byte) (bool, string) {
	it, n, err := rc.Parse(body)
	if err != nil || n != len(body) || it.Kind != rc.Array || len(it.Items) != 2 || it.Items[0].Kind != rc.Bytes {
		return false, "message shape"
	}
	to0dBytes := it.Items[0].B
	to0d, n, err := rc.Parse(to0dBytes)
	if err != nil || n != len(to0dBytes) || to0d.Kind != rc.Array || len(to0d.Items) != 3 {
		return false, "to0d shape"
	}
	v, err := rv.ParseVoucher(to0d.Items[0])
	if err != nil {
		return false, err.Error()
	}
	if len(v.Entries) < 1 {
		return false, "voucher has no entries"
	}
	owner, err := v.VerifyEntries()
	if err != nil {
		return false, "entry chain: " + err.Error()
	}
	if to0d.Items[2].Kind != rc.Bytes || !bytes.Equal(to0d.Items[2].B, issuedNonce) || len(issuedNonce) == 0 {
		return false, "nonce is not the one issued in this session"
	}
	s, err := rv.ParseSign1(it.Items[1], true)
	if err != nil || s.Payload == nil {
		return false, "to1d shape"
	}
	p, n, err := rc.Parse(s.Payload)
	if err != nil || n != len(s.Payload) || p.Kind != rc.Array || len(p.Items) != 2 || p.Items[1].Kind != rc.Array || len(p.Items[1].Items) != 2 || p.Items[1].Items[1].Kind != rc.Bytes {
		return false, "to1d payload shape"
	}
	alg, _ := rv.IntOf(p.Items[1].Items[0])
	hf := rv.HashByAlg(alg)
	if hf == nil || (alg != -16 && alg != -43) {
		return false, "to0d hash algorithm"
	}
	h := hf()
	h.Write(rc.Encode(to0d)) // value level: canonical re-encoding of the received to0d
	if !bytes.Equal(h.Sum(nil), p.Items[1].Items[1].B) {
		return false, "to0d hash mismatch"
	}
	if !s.Verify(owner, nil) {
		return false, "to1d is not signed by the voucher's current owner key"
	}
	return true, ""
}

// signerState presents one signer for every key type (a stranger holding a copy of the voucher).
type signerState struct {
	fdo.VoucherPersistentState
	key crypto.Signer
}

func (s signerState) OwnerKey(context.Context, protocol.KeyType, int) (crypto.Signer, []*x509.Certificate, error) {
	return s.key, nil, nil
}

type env struct {
	kind  keys.Kind
	hops  int
	world *lab.World
	guid  protocol.GUID
}

func newEnv(k keys.Kind, enc protocol.KeyEncoding, hops int) (*env, error) {
	w := lab.NewWorld(k, enc)
	if _, err := w.Manufacture(context.Background(), hops); err != nil {
		return nil, err
	}
	return &env{kind: k, hops: hops, world: w, guid: w.Dev.Cred.GUID}, nil
}

// session runs one TO0 attempt; mut may alter the body of message 22. It returns what the server received,
// the nonce it had issued, the response type and the journal delta.
type outcome struct {
	received []byte
	nonce    []byte
	respType int
	resp     []byte
	effects  []lab.Effect
	t0, t1   time.Time
	ttl      uint32
	cerr     error
	applied  bool
}

func (e *env) attempt(client *fdo.TO0Client, mut func(body []byte) []byte) outcome {
	var o outcome
	wire := lab.NewWire(e.world.RV)
	wire.Pre = func(x *lab.Exchange) {
		if x.MsgType == 22 {
			if mut != nil {
				if nb := mut(x.ReqBody); nb != nil {
					x.ReqBody = nb
					o.applied = true
				}
			}
			o.received = bytes.Clone(x.ReqBody)
			o.t0 = time.Now()
		}
	}
	wire.Post = func(x *lab.Exchange) {
		if x.MsgType == 20 && x.RespType == 21 {
			if it, _, err := rc.Parse(x.RespBody); err == nil && it.Kind == rc.Array && len(it.Items) == 1 {
				o.nonce = it.Items[0].B
				noteNonce("TO0.HelloAck", o.nonce)
			}
		}
		if x.MsgType == 22 {
			o.t1 = time.Now()
			o.respType, o.resp = x.RespType, x.RespBody
		}
	}
	jl := e.world.RV.Mem.JournalLen()
	if p := probe.Call(func() {
		o.ttl, o.cerr = client.RegisterBlob(context.Background(), wire.Transport(), e.guid, lab.DefaultAddrs())
	}); p != nil {
		r.Violation(p.Key(), "TO0 attempt panics: "+p.Value+" in "+p.Frame, nil)
	}
	for _, ef := range e.world.RV.Mem.JournalSince(jl) {
		if ef.Kind == "SetRVBlob" {
			o.effects = append(o.effects, ef)
		}
	}
	return o
}

func (e *env) honestClient() *fdo.TO0Client {
	return &fdo.TO0Client{Vouchers: e.world.Owner.State, OwnerKeys: e.world.Owner.State}
}

// issued: every nonce the rendezvous server issued during this check. A repeat or the all-zero value defeats the
// replay defence whatever the rest of the verification does.
var issued sync.Map

func noteNonce(where string, n []byte) {
	h := hex.EncodeToString(n)
	if strings.Trim(h, "0") == "" {
		r.Violation("nonce-not-fresh:zero", where+": the server issued the all-zero nonce", nil)
		return
	}
	if _, dup := issued.LoadOrStore(h, where); dup {
		r.Violation("nonce-not-fresh:repeated", where+": nonce "+h+" was issued before", nil)
	}
}

// judge applies the one-sided oracle.
func (e *env) judge(class, what string, o outcome, expectAccept *bool) {
	r.Evaluations.Add(1)
	if o.received == nil {
		return
	}
	// Value level: the reference predicate is evaluated on the schema-normalised form of what was received
	// (decoded into the message type and re-encoded by the codec, whose faithfulness is the subject of C11/C12):
	// null/undefined, text/byte-string interchange and similar decoder leniencies do not change any bound value.
	ok, why := false, "not decodable as TO0.OwnerSign"
	var norm fdo.XOwnerSign
	if err := cbor.Unmarshal(o.received, &norm); err == nil && norm.To1d.Payload != nil {
		if nb, err := cbor.Marshal(norm); err == nil {
			ok, why = refAccept(nb, o.nonce)
		}
	}
	accepted := o.respType == 23 || len(o.effects) > 0
	repl := map[string]any{"kind": e.kind.Name, "hops": e.hops, "class": class, "what": what, "ownersign_hex": hex.EncodeToString(o.received), "issued_nonce": hex.EncodeToString(o.nonce)}
	if accepted && strings.HasSuffix(class, "replay") {
		r.Violation("accepted-replay:"+class, fmt.Sprintf("%s hops=%d %s (%s): an OwnerSign recorded in an earlier session was accepted under a new session (answer %d, %d blob(s) stored)", e.kind.Name, e.hops, class, what, o.respType, len(o.effects)), repl)
	}
	if accepted && !ok {
		r.Violation("accepted-without-proof:"+class, fmt.Sprintf("%s hops=%d %s (%s): server answered %d and stored %d blob(s) although the reference predicate fails: %s", e.kind.Name, e.hops, class, what, o.respType, len(o.effects), why), repl)
	}
	if (o.respType == 23) != (len(o.effects) == 1) {
		r.Violation("reply-effect-mismatch:"+class, fmt.Sprintf("%s %s (%s): response type %d but %d SetRVBlob effects", e.kind.Name, class, what, o.respType, len(o.effects)), repl)
	}
	if expectAccept != nil && *expectAccept && !accepted {
		r.Violation("honest-rejected:"+class, fmt.Sprintf("%s hops=%d %s (%s): honest registration rejected: %v (reference: %v %s)", e.kind.Name, e.hops, class, what, o.cerr, ok, why), repl)
	}
	r.Distinct(fmt.Sprintf("%s|%s|%v|%v|%s", e.kind.Name, class, accepted, ok, why))
}

func yes() *bool { b := true; return &b }

func (e *env) run(thorough bool) {
	// the forgeries against a store that has never seen the GUID
	e.crafted("fresh:", outcome{})
	// honest baseline (non-vacuity) and the mutant list shape
	base := e.attempt(e.honestClient(), nil)
	e.judge("honest", "baseline", base, yes())
	if base.received == nil {
		return
	}
	opts := cbormut.Options{Leaf: true, ByteFlips: true, IntDomain: []int64{-16, -43, 5, 6, -7, -35, -257}}
	n := len(cbormut.Enumerate(base.received, opts))
	r.Add("ownersign_mutants_per_config", int64(n))
	for i := 0; i < n; i++ {
		var m cbormut.Mutant
		o := e.attempt(e.honestClient(), func(body []byte) []byte {
			ms := cbormut.Enumerate(body, opts)
			if i >= len(ms) {
				return nil
			}
			m = ms[i]
			nb := m.Get()
			if nb == nil || bytes.Equal(nb, body) {
				return nil
			}
			return nb
		})
		if o.applied {
			e.judge("leaf:"+m.Op, m.Path, o, nil)
		}
	}
	e.crafted("", base)
}

// crafted runs the forgeries that are built from the live honest message. phase "" = the GUID already has an accepted
// registration in the store; "fresh:" = nothing was ever registered for it (a new deployment).
func (e *env) crafted(phase string, base outcome) {
	// every signer of the key ring holding a copy of the voucher
	ov, _ := e.world.Owner.State.Voucher(context.Background(), e.guid)
	type signer struct {
		name string
		key  crypto.Signer
	}
	signers := []signer{{"manufacturer", keys.Get(e.kind.Alg, "mfg")}, {"stranger-same-type", keys.Get(e.kind.Alg, "stranger")}, {"mfg-of-another-line", keys.Get(e.kind.Alg, "mfg2")}}
	for _, role := range []string{"owner2", "owner3"} {
		signers = append(signers, signer{"earlier-or-other-owner-" + role, keys.Get(e.kind.Alg, role)})
	}
	signers = append(signers, signer{"issuer-of-the-owner-certificate (the CA whose certificate closes an X5CHAIN key)", keys.Get("ec384", "devca")})
	for _, alg := range []string{"ec256", "ec384", "rsa2048", "rsa3072"} {
		if alg != e.kind.Alg {
			signers = append(signers, signer{"stranger-" + alg, keys.Get(alg, "stranger")})
		}
	}
	for _, s := range signers {
		c := &fdo.TO0Client{Vouchers: e.world.Owner.State, OwnerKeys: signerState{key: s.key}}
		o := e.attempt(c, nil)
		e.judge(phase+"foreign-signer", s.name, o, nil)
	}
	var o outcome
	if base.received != nil {
		// replay of a previously accepted OwnerSign under a new session (stale nonce)
		o = e.attempt(e.honestClient(), func([]byte) []byte { return bytes.Clone(base.received) })
		e.judge(phase+"replay", "accepted OwnerSign of an earlier session under a new token", o, nil)
		// to1d from an earlier session spliced into a fresh to0d (hash no longer matches)
		o = e.attempt(e.honestClient(), func(body []byte) []byte {
			cur, _, _ := rc.Parse(body)
			old, _, _ := rc.Parse(base.received)
			return rc.Encode(rc.A(cur.Items[0], old.Items[1]))
		})
		e.judge(phase+"splice", "fresh to0d with the to1d of an earlier session", o, nil)
	}
	// voucher truncated to zero entries, blob signed by the manufacturer (the key a zero-entry voucher names)
	if ov != nil {
		o = e.attempt(e.honestClient(), func(body []byte) []byte {
			return e.craft(body, func(v *fdo.Voucher) { v.Entries = nil }, keys.Get(e.kind.Alg, "mfg"), protocol.Sha256Hash)
		})
		e.judge(phase+"zero-entries", "voucher without entries, blob signed by the manufacturer key", o, nil)
		// entries cut back to the previous owner, who signs the blob (a former owner re-registering)
		if e.hops >= 2 {
			roles := []string{"owner2", "owner3"}
			prevOwner := keys.Get(e.kind.Alg, roles[(e.hops-2)%2])
			o = e.attempt(e.honestClient(), func(body []byte) []byte {
				return e.craft(body, func(v *fdo.Voucher) { v.Entries = v.Entries[:len(v.Entries)-1] }, prevOwner, 0)
			})
			// this IS a valid registration by the owner named by the shortened voucher: the reference decides
			e.judge(phase+"shortened-chain", "voucher cut back by one entry and blob signed by that earlier owner", o, nil)
		}
		// forged vouchers: a stranger holding a copy of the (already registered) voucher rewrites it so that it names
		// the stranger, keeps every signature byte, recomputes the to0d hash and signs the blob with the named key
		for _, who := range []string{"stranger", "mfg", "owner2"} {
			fk := keys.Get(e.kind.Alg, who)
			fpk, err := lab.EncodePublicKey(e.kind.Type, protocol.X509KeyEnc, fk.Public(), nil)
			if err != nil {
				continue
			}
			for ei := 0; ei < e.hops; ei++ {
				if ei != e.hops-1 && ei != 0 {
					continue
				}
				o = e.attempt(e.honestClient(), func(body []byte) []byte {
					return e.craft(body, func(v *fdo.Voucher) {
						if ei < len(v.Entries) && v.Entries[ei].Payload != nil {
							v.Entries[ei].Payload.Val.PublicKey = *fpk
						}
					}, fk, 0)
				})
				e.judge(phase+"forged-entry-key", fmt.Sprintf("entry %d of %d names the %s key (signatures untouched), blob signed by that key", ei, e.hops, who), o, nil)
			}
			// the last entry rewritten to name the forger AND re-signed by the forger (a well-formed signature, only by
			// the wrong key) - alone, and after the forger had the server look at the very same entry inside a
			// throw-away voucher of his own making in which that signature is the right one (whatever a server
			// remembers about signatures it has seen must not carry over to another key)
			resigned := func(v *fdo.Voucher) *fdo.Voucher {
				n := len(v.Entries)
				if n == 0 || v.Entries[n-1].Payload == nil {
					return nil
				}
				ent := v.Entries[n-1]
				pl := *ent.Payload
				pl.Val.PublicKey = *fpk
				ent.Payload = &pl
				if err := ent.Sign(fk, nil, nil, signOpts(fk, e.kind.PSS)); err != nil {
					return nil
				}
				v.Entries = append(append([]cose.Sign1Tag[fdo.VoucherEntryPayload, []byte]{}, v.Entries[:n-1]...), ent)
				return v
			}
			for _, primed := range []bool{false, true} {
				if primed {
					o = e.attempt(e.honestClient(), func(body []byte) []byte {
						return e.craft(body, func(v *fdo.Voucher) {
							if resigned(v) != nil {
								v.Header.Val.ManufacturerKey = *fpk
								v.Entries = v.Entries[len(v.Entries)-1:]
							}
						}, fk, 0)
					})
					e.judge(phase+"forged-priming-voucher", "throw-away voucher: header names the "+who+" key, single entry signed by it", o, nil)
				}
				o = e.attempt(e.honestClient(), func(body []byte) []byte {
					return e.craft(body, func(v *fdo.Voucher) { resigned(v) }, fk, 0)
				})
				e.judge(phase+"forged-entry-resigned", fmt.Sprintf("last entry names the %s key and is signed by it (primed=%v), blob signed by that key", who, primed), o, nil)
			}
			// the last entry duplicated, the duplicate naming the forger (an extension nobody signed)
			o = e.attempt(e.honestClient(), func(body []byte) []byte {
				return e.craft(body, func(v *fdo.Voucher) {
					if n := len(v.Entries); n > 0 && v.Entries[n-1].Payload != nil {
						dup := v.Entries[n-1]
						pl := *dup.Payload
						pl.Val.PublicKey = *fpk
						dup.Payload = &pl
						v.Entries = append(v.Entries, dup)
					}
				}, fk, 0)
			})
			e.judge(phase+"forged-extension", "last entry duplicated with the "+who+" key as next owner (old signature), blob signed by that key", o, nil)
			// the manufacturer key in the header replaced by the forger's (header MAC is the device's business, not the server's)
			o = e.attempt(e.honestClient(), func(body []byte) []byte {
				return e.craft(body, func(v *fdo.Voucher) { v.Header.Val.ManufacturerKey = *fpk; v.Entries = nil }, fk, 0)
			})
			e.judge(phase+"forged-header-key", "header names the "+who+" key as manufacturer, no entries, blob signed by that key", o, nil)
		}
		// honest content but the to0d hash computed with the other hash algorithm
		o = e.attempt(e.honestClient(), func(body []byte) []byte {
			return e.craft(body, func(*fdo.Voucher) {}, e.world.Owner.OwnerSigner(e.kind), -1)
		})
		e.judge(phase+"other-hash-alg", "to0d hash computed with the other supported algorithm", o, nil)
	}
}

// craft rebuilds an OwnerSign from the live one: alter the voucher, recompute the to0d hash (alg 0 = keep the
// algorithm, -1 = use the other one) and sign the blob with key.
func (e *env) craft(body []byte, alter func(*fdo.Voucher), key crypto.Signer, alg protocol.HashAlg) []byte {
	var msg fdo.XOwnerSign
	if err := cbor.Unmarshal(body, &msg); err != nil {
		return nil
	}
	alter(&msg.To0d.Val.Voucher)
	cur := msg.To1d.Payload.Val.To0dHash.Algorithm
	switch alg {
	case 0:
		alg = cur
	case -1:
		alg = protocol.Sha256Hash
		if cur == protocol.Sha256Hash {
			alg = protocol.Sha384Hash
		}
	}
	h := alg.HashFunc().New()
	_ = cbor.NewEncoder(h).Encode(msg.To0d.Val)
	to1d := cose.Sign1[protocol.To1d, []byte]{Payload: cbor.NewByteWrap(protocol.To1d{RV: msg.To1d.Payload.Val.RV, To0dHash: protocol.Hash{Algorithm: alg, Value: h.Sum(nil)}})}
	var opts crypto.SignerOpts
	for _, k := range keys.Kinds {
		if k.Alg == e.kind.Alg && k.Name == e.kind.Name {
			opts = signOpts(key, k.PSS)
		}
	}
	if err := to1d.Sign(key, nil, nil, opts); err != nil {
		return nil
	}
	msg.To1d = *to1d.Tag()
	out, err := cbor.Marshal(msg)
	if err != nil {
		return nil
	}
	return out
}

// ttlPolicies checks expiry / reported TTL for every policy outcome x requested TTL.
func ttlPolicies(k keys.Kind) {
	e, err := newEnv(k, protocol.X509KeyEnc, 1)
	if err != nil {
		r.Violation("lab-setup", err.Error(), nil)
		return
	}
	type policy struct {
		name string
		f    func(req uint32) (uint32, error)
	}
	policies := []policy{{"nil", nil}, {"zero", func(uint32) (uint32, error) { return 0, nil }}, {"one", func(uint32) (uint32, error) { return 1, nil }},
		{"requested", func(q uint32) (uint32, error) { return q, nil }}, {"cap3600", func(q uint32) (uint32, error) { return min(q, 3600), nil }},
		{"larger", func(q uint32) (uint32, error) { return 86400*365 + 7, nil }}, {"error", func(uint32) (uint32, error) { return 5, fmt.Errorf("denied by policy") }}}
	for _, p := range policies {
		for _, req := range []uint32{0, 1, 60, 3600, 1<<32 - 1} {
			r.Evaluations.Add(1)
			var sawReq uint32
			e.world.RV.TO0.AcceptVoucher = nil
			if p.f != nil {
				e.world.RV.TO0.AcceptVoucher = func(_ context.Context, _ fdo.Voucher, q uint32) (uint32, error) { sawReq = q; return p.f(q) }
			}
			c := e.honestClient()
			c.TTL = req
			o := e.attempt(c, nil)
			effReq := req
			if req == 0 {
				effReq = fdo.DefaultRVBlobTTL
			}
			want, reject := effReq, false
			if p.f != nil {
				v, perr := p.f(effReq)
				want, reject = v, perr != nil || v == 0
			}
			repl := map[string]any{"policy": p.name, "requested": req}
			what := fmt.Sprintf("%s policy=%s requested=%d", k.Name, p.name, req)
			switch {
			case reject:
				if o.respType == 23 || len(o.effects) > 0 {
					r.Violation("ttl:rejecting-policy-ignored:"+p.name, what+": policy rejects, yet the server accepted / stored the blob", repl)
				}
			case o.respType != 23 || len(o.effects) != 1:
				r.Violation("ttl:honest-rejected:"+p.name, fmt.Sprintf("%s: expected acceptance, got response %d, %d effects, err %v", what, o.respType, len(o.effects), o.cerr), repl)
			default:
				if p.f != nil && sawReq != effReq {
					r.Violation("ttl:policy-sees-wrong-request", fmt.Sprintf("%s: policy was asked about %d", what, sawReq), repl)
				}
				if o.ttl != want {
					r.Violation("ttl:reported:"+p.name, fmt.Sprintf("%s: reply reports %d s, accepted time-to-live is %d s", what, o.ttl, want), repl)
				}
				lo, hi := o.t0.Add(time.Duration(want)*time.Second), o.t1.Add(time.Duration(want)*time.Second)
				if exp := o.effects[0].Exp; exp.Before(lo) || exp.After(hi) {
					r.Violation("ttl:expiry:"+p.name, fmt.Sprintf("%s: stored expiry %v is not now+%ds (window %v..%v)", what, exp, want, lo, hi), repl)
				}
			}
			r.Distinct(fmt.Sprintf("ttl|%s|%d|%d", p.name, req, o.respType))
		}
	}
	e.world.RV.TO0.AcceptVoucher = nil
}

func main() {
	r = ev.Start("C06", "fault_enumeration")
	kinds := []string{"ec256", "rsa2048restr"}
	hopsList := []int{1, 2}
	if !r.Quick() {
		kinds = []string{"ec256", "ec384", "rsa2048restr", "rsapkcs3072", "rsapss2048", "rsapss3072"}
		hopsList = []int{1, 2, 3}
	}
	r.Rule("per key type x chain length: an honest TO0 baseline, then one deviation per run applied to the OwnerSign the real TO0Server receives behind the real HTTP handler: EVERY single-node alteration of the message tree under the cbormut operator set (recursing into the to0d bstr, the embedded voucher with its header/entries/certificates, the to1d payload, protected header and signature), every byte ^0x01, every other signer of the key ring (manufacturer, every other owner key, strangers of each key type) through the real TO0Client, replays of an accepted OwnerSign, to1d splices, zero-entry and shortened vouchers, the other hash algorithm; plus 7 TTL policies x 5 requested values. Oracle: response 23 / SetRVBlob => reference predicate on the received bytes (entries>=1, chain verifies, hash(to0d)=To0dHash, nonce issued in this session, to1d verifies under the chain's last key); expiry = now+accepted ttl, reply = accepted ttl, ttl 0/err => 255 and no store. distinct = distinct (key type, class, accepted, reference verdict+reason). Overwrite layer (memory store and real SQLite store): every history of up to 3 (thorough 4) honest registrations of one GUID, each with a time-to-live from {client default = max, 3600, 60} and an owner address of its own: after every registration the stored redirect is the one just sent, its expiry is now + the time-to-live of that registration and the reply reports it, whatever was stored before.")
	var wg sync.WaitGroup
	sem := make(chan struct{}, 16)
	for _, kn := range kinds {
		k := keys.KindByName(kn)
		for _, hops := range hopsList {
			encs := []protocol.KeyEncoding{protocol.X509KeyEnc}
			if (!r.Quick() && hops == 2) || (r.Quick() && hops == 1 && (kn == "ec384" || kn == "ec256")) {
				encs = k.Encodings() // incl. X5CHAIN keys, which the lab issues as [leaf, issuing CA] chains
			}
			for _, enc := range encs {
				wg.Add(1)
				sem <- struct{}{}
				go func() {
					defer wg.Done()
					defer func() { <-sem }()
					e, err := newEnv(k, enc, hops)
					if err != nil {
						r.Violation("lab-setup:"+k.Name, fmt.Sprintf("%s hops=%d: %v", k.Name, hops, err), nil)
						return
					}
					e.run(!r.Quick())
				}()
			}
		}
		wg.Add(1)
		sem <- struct{}{}
		go func() { defer wg.Done(); defer func() { <-sem }(); ttlPolicies(k) }()
	}
	wg.Wait()
	owDepth := 3
	if !r.Quick() {
		owDepth = 4
	}
	overwrites(keys.KindByName("ec256"), owDepth)
	r.Sample(3, map[string]any{"class": "leaf", "path": "/0/bstr/0/4/0 (first voucher entry)", "op": "tag-strip"})
	r.Sample(3, map[string]any{"class": "foreign-signer", "signer": "earlier-or-other-owner-owner2"})
	r.Assume("expiry is checked against the wall clock window of the request (the server computes it from time.Now); ECDSA/RSA/SHA-2 of the standard library are trusted")
	r.Finish()
}
