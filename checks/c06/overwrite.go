package main

// Layer "overwrites": "stores OR OVERWRITES the redirect blob ... with an expiry equal to the accepted time-to-live".
// Every history of up to 3 honest registrations of ONE GUID on one rendezvous server (memory store and the real
// SQLite store), each with a time-to-live from {client default (max), 3600, 60} and an owner address of its own.
// After every registration of every history the stored blob is the one just sent (its address), its expiry is
// now + the time-to-live of THIS registration and the reply reports that time-to-live - whatever was stored before.

import (
	"context"
	"crypto/x509"
	"fmt"
	"os"
	"path/filepath"
	"time"

	fdo "github.com/fido-device-onboard/go-fdo"
	"github.com/fido-device-onboard/go-fdo/protocol"
	"github.com/fido-device-onboard/go-fdo/sqlite"

	"verif/internal/keys"
	"verif/internal/lab"
)

func overwrites(k keys.Kind, depth int) {
	bg := context.Background()
	base := "/dev/shm"
	if _, err := os.Stat(base); err != nil {
		base = "/var/tmp"
	}
	dir, err := os.MkdirTemp(base, "verif-c06o-")
	if err != nil {
		r.Fatal("%v", err)
	}
	defer os.RemoveAll(dir)
	ttls := []uint32{0, 3600, 60} // 0 = the client's default (max uint32)
	var hist [][]int
	var gen func(p []int)
	gen = func(p []int) {
		if len(p) > 0 {
			hist = append(hist, append([]int{}, p...))
		}
		if len(p) == depth {
			return
		}
		for i := range ttls {
			gen(append(p, i))
		}
	}
	gen(nil)
	for _, store := range []string{"memory", "sqlite"} {
		var rv *lab.Server
		var st lab.State
		owner := lab.NewMemServer("owner", "owner1")
		mfg := lab.NewMemServer("mfg", "mfg")
		switch store {
		case "memory":
			rv = lab.NewMemServer("rv", "owner3")
			st = rv.State
		case "sqlite":
			db, err := sqlite.Open(filepath.Join(dir, "ow.sqlite"), "")
			if err != nil {
				r.Fatal("sqlite: %v", err)
			}
			defer db.Close()
			for _, kk := range keys.Kinds {
				key := keys.Get(kk.Alg, "owner3")
				_ = db.AddOwnerKey(kk.Type, key, []*x509.Certificate{keys.SelfSigned(kk.Alg+"-owner3", key)})
			}
			rv = lab.NewServer("rv-sql", "owner3", db, nil)
			st = db
		}
		for hi, h := range hist {
			// a device (GUID) of its own per history
			dev := lab.NewDevice(k, protocol.X509KeyEnc, "device")
			if err := dev.DI(bg, lab.NewWire(mfg).Transport()); err != nil {
				r.Fatal("overwrites: DI: %v", err)
			}
			if _, err := lab.Transfer(bg, mfg, owner, k, dev.Cred.GUID); err != nil {
				r.Fatal("overwrites: %v", err)
			}
			var names []string
			for step, ti := range h {
				ttl := ttls[ti]
				want := ttl
				if ttl == 0 {
					want = fdo.DefaultRVBlobTTL
				}
				dns := fmt.Sprintf("owner-h%d-s%d.example", hi, step)
				addrs := []protocol.RvTO2Addr{{DNSAddress: &dns, Port: uint16(8000 + step), TransportProtocol: protocol.HTTPTransport}}
				c := &fdo.TO0Client{Vouchers: owner.State, OwnerKeys: owner.State, TTL: ttl}
				names = append(names, fmt.Sprintf("register(ttl=%d,%s)", want, dns))
				t0 := time.Now()
				got, err := c.RegisterBlob(bg, lab.NewWire(rv).Transport(), dev.Cred.GUID, addrs)
				t1 := time.Now()
				r.Evaluations.Add(1)
				what := fmt.Sprintf("%s %s store, history %v", k.Name, store, names)
				repl := map[string]any{"layer": "overwrites", "store": store, "history": names}
				if err != nil {
					r.Violation("overwrite:honest-rejected:"+store, fmt.Sprintf("%s: honest registration fails: %v", what, err), repl)
					break
				}
				if got != want {
					r.Violation("overwrite:reported:"+store, fmt.Sprintf("%s: reply reports %d s, accepted time-to-live is %d s", what, got, want), repl)
				}
				blob, _, err := st.RVBlob(bg, dev.Cred.GUID)
				if err != nil {
					r.Violation("overwrite:not-stored:"+store, fmt.Sprintf("%s: no blob stored after an accepted registration: %v", what, err), repl)
					break
				}
				if a := blob.Payload.Val.RV; len(a) != 1 || a[0].DNSAddress == nil || *a[0].DNSAddress != dns {
					stored := "?"
					if len(a) > 0 && a[0].DNSAddress != nil {
						stored = *a[0].DNSAddress
					}
					r.Violation("overwrite:blob-not-overwritten:"+store, fmt.Sprintf("%s: reply 23 for the registration of %s, stored redirect still points to %s", what, dns, stored), repl)
				}
				// expiry: read through TO1-visible behaviour is C07's subject; here the stored value itself
				var exp time.Time
				switch store {
				case "memory":
					_, exp, _ = rv.Mem.BlobBytes(dev.Cred.GUID)
				case "sqlite":
					var unix int64
					_ = st.(*sqlite.DB).DB().QueryRow("SELECT exp FROM rv_blobs WHERE guid = ?", dev.Cred.GUID[:]).Scan(&unix)
					exp = time.Unix(unix, 0)
				}
				lo, hi2 := t0.Add(time.Duration(want)*time.Second).Truncate(time.Second), t1.Add(time.Duration(want)*time.Second)
				if exp.Before(lo) || exp.After(hi2) {
					r.Violation("overwrite:expiry:"+store, fmt.Sprintf("%s: stored expiry %v is not now+%ds (window %v..%v)", what, exp, want, lo, hi2), repl)
				}
				r.Distinct(fmt.Sprintf("overwrite|%s|%v|%d", store, h[:step+1], got))
			}
		}
	}
}
