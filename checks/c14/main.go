// C14 — key exchange yields equal, fresh, correctly derived keys; survives persistence.
//
// Exhaustive enumeration of suites x ciphers x persistence-point subsets x randomness streams x invalid
// parameter classes on the real go-fdo/kex, with an independent reference (stdlib crypto/ecdh, math/big,
// rsa OAEP and an own SP 800-108 counter-mode KDF).
package main

import (
	"bytes"
	"crypto"
	"crypto/ecdh"
	"crypto/hmac"
	"crypto/rand"
	"crypto/rsa"
	"crypto/sha256"
	"encoding"
	"encoding/binary"
	"encoding/hex"
	"fmt"
	"io"
	"math/big"
	"reflect"
	"sync"

	"github.com/fido-device-onboard/go-fdo/cbor"
	"github.com/fido-device-onboard/go-fdo/kex"

	"verif/internal/ev"
	"verif/internal/keys"
	"verif/internal/probe"
)

var r *ev.Run

var suites = []kex.Suite{kex.ECDH256Suite, kex.ECDH384Suite, kex.DHKEXid14Suite, kex.DHKEXid15Suite, kex.ASYMKEX2048Suite, kex.ASYMKEX3072Suite}
var ciphers = []kex.CipherSuiteID{kex.A128GcmCipher, kex.A192GcmCipher, kex.A256GcmCipher, kex.CoseAes128CbcCipher, kex.CoseAes128CtrCipher, kex.CoseAes256CbcCipher, kex.CoseAes256CtrCipher}

// reference key sizes (bytes): SEK by cipher, SVK by MAC of the cipher, PRF hash
type cinfo struct {
	sek, svk int
	prf      crypto.Hash
}

var cref = map[kex.CipherSuiteID]cinfo{
	kex.A128GcmCipher: {16, 0, crypto.SHA256}, kex.A192GcmCipher: {24, 0, crypto.SHA256}, kex.A256GcmCipher: {32, 0, crypto.SHA256},
	kex.CoseAes128CbcCipher: {16, 0, crypto.SHA256}, kex.CoseAes128CtrCipher: {16, 0, crypto.SHA256},
	kex.CoseAes256CbcCipher: {32, 0, crypto.SHA384}, kex.CoseAes256CtrCipher: {32, 0, crypto.SHA384},
}

// refKDF: SP 800-108 KDF in counter mode with HMAC as PRF, FDO parameters:
// K(i) = HMAC(Kin, [i]_8 || "FIDO-KDF" || 0x00 || "AutomaticOnboardTunnel" || ContextRand || [L]_16), L in bits.
func refKDF(h crypto.Hash, kin, ctxRand []byte, bits int) []byte {
	var out []byte
	for i := 1; len(out)*8 < bits; i++ {
		m := hmac.New(h.New, kin)
		m.Write([]byte{byte(i)})
		m.Write([]byte("FIDO-KDF"))
		m.Write([]byte{0})
		m.Write([]byte("AutomaticOnboardTunnel"))
		m.Write(ctxRand)
		var l [2]byte
		binary.BigEndian.PutUint16(l[:], uint16(bits))
		m.Write(l[:])
		out = m.Sum(out)
	}
	return out[:bits/8]
}

// stream is a deterministic randomness source.
type stream struct {
	name string
	next func() byte
}

func (s *stream) Read(p []byte) (int, error) {
	for i := range p {
		p[i] = s.next()
	}
	return len(p), nil
}

func mkStream(kind string, seed byte) *stream {
	n := 0
	if len(kind) > 4 && kind[:4] == "lcg:" { // "lcg:<int>" — a family of distinct streams for witness searches
		var v uint32
		fmt.Sscanf(kind[4:], "%d", &v)
		x := v*2654435761 + uint32(seed)*97 + 12345
		return &stream{kind, func() byte { x = x*1664525 + 1013904223; return byte(x >> 24) }}
	}
	switch kind {
	case "counter":
		return &stream{kind, func() byte { n++; return byte(n) + seed }}
	case "lowone": // 00 .. 00 01 pattern every 16 bytes: leading zero bytes everywhere
		return &stream{kind, func() byte {
			n++
			if n%16 == 0 {
				return 1 + seed
			}
			return 0
		}}
	case "ff":
		return &stream{kind, func() byte { n++; return 0xff - seed }}
	case "lcg":
		x := uint32(seed)*2654435761 + 12345
		return &stream{kind, func() byte { x = x*1664525 + 1013904223; return byte(x >> 24) }}
	}
	panic(kind)
}

func field(s kex.Session, name string) []byte {
	v := reflect.ValueOf(s)
	for v.Kind() == reflect.Pointer || v.Kind() == reflect.Interface {
		v = v.Elem()
	}
	f := v.FieldByName(name)
	if !f.IsValid() {
		return nil
	}
	return f.Bytes()
}

func persist(suite kex.Suite, s kex.Session) (kex.Session, error) {
	m, ok := s.(encoding.BinaryMarshaler)
	if !ok {
		return nil, fmt.Errorf("session is not a BinaryMarshaler")
	}
	b, err := m.MarshalBinary()
	if err != nil {
		return nil, err
	}
	n := suite.New(nil, 1)
	if err := n.(encoding.BinaryUnmarshaler).UnmarshalBinary(b); err != nil {
		return nil, err
	}
	return n, nil
}

func rsaFor(suite kex.Suite) *rsa.PrivateKey {
	switch suite {
	case kex.ASYMKEX2048Suite:
		return keys.Get("rsa2048", "owner1").(*rsa.PrivateKey)
	case kex.ASYMKEX3072Suite:
		return keys.Get("rsa3072", "owner1").(*rsa.PrivateKey)
	}
	return nil
}

type result struct {
	ownerSEK, ownerSVK, devSEK, devSVK []byte
	xA, xB                             []byte
	ownerPersist                       []byte // persisted owner state after Parameter (holds the private exponent / key)
	err                                error
	owner, dev                         kex.Session
}

// exchange runs one complete exchange with persistence inserted at the points in mask
// (bit1 owner after Parameter, bit2 owner after SetParameter, bit4 device after Parameter).
func exchange(suite kex.Suite, c kex.CipherSuiteID, ra, rb io.Reader, mask int, inTransit ...func(which string, x []byte) []byte) (res result) {
	xf := func(which string, x []byte) []byte {
		x = bytes.Clone(x)
		for _, f := range inTransit {
			x = f(which, x)
		}
		return x
	}
	key := rsaFor(suite)
	var pub *rsa.PublicKey
	if key != nil {
		pub = &key.PublicKey
	}
	step := func(name string, f func() error) bool {
		if res.err != nil {
			return false
		}
		if p := probe.Call(func() { res.err = f() }); p != nil {
			res.err = fmt.Errorf("panic at %s: %s in %s", name, p.Value, p.Frame)
			r.Violation(p.Key(), fmt.Sprintf("%s/%d mask=%05b: %v", suite, c, mask, res.err), map[string]any{"suite": suite, "cipher": c, "mask": mask})
		} else if res.err != nil {
			res.err = fmt.Errorf("%s: %w", name, res.err)
		}
		return res.err == nil
	}
	maybe := func(bit int, s *kex.Session) {
		if mask&(1<<bit) != 0 {
			step(fmt.Sprintf("persist%d", bit), func() error {
				n, err := persist(suite, *s)
				if err == nil {
					*s = n
				}
				return err
			})
		}
	}
	owner := suite.New(nil, c)
	step("owner.Parameter", func() (err error) { res.xA, err = owner.Parameter(ra, pub); res.xA = bytes.Clone(res.xA); return })
	if res.err == nil {
		if m, ok := owner.(encoding.BinaryMarshaler); ok {
			res.ownerPersist, _ = m.MarshalBinary()
		}
	}
	maybe(1, &owner)
	dev := suite.New(xf("A", res.xA), c)
	step("device.Parameter", func() (err error) { res.xB, err = dev.Parameter(rb, pub); res.xB = bytes.Clone(res.xB); return })
	maybe(4, &dev)
	step("owner.SetParameter", func() error { return owner.SetParameter(xf("B", res.xB), key) })
	maybe(2, &owner)
	if res.err == nil {
		res.ownerSEK, res.ownerSVK = bytes.Clone(field(owner, "SEK")), bytes.Clone(field(owner, "SVK"))
		res.devSEK, res.devSVK = bytes.Clone(field(dev, "SEK")), bytes.Clone(field(dev, "SVK"))
	}
	res.owner, res.dev = owner, dev
	return res
}

// referenceKeys recomputes SEK||SVK independently from the transcript and the persisted owner secret.
func referenceKeys(suite kex.Suite, c kex.CipherSuiteID, res result, svkLen int) ([]byte, error) {
	ci := cref[c]
	bits := (ci.sek + svkLen) * 8
	var pa []any
	if err := cbor.Unmarshal(res.ownerPersist, &pa); err != nil {
		return nil, fmt.Errorf("persisted owner state not decodable: %w", err)
	}
	switch suite {
	case kex.ECDH256Suite, kex.ECDH384Suite:
		curve := ecdh.P256()
		if suite == kex.ECDH384Suite {
			curve = ecdh.P384()
		}
		keyBytes, _ := pa[3].([]byte)
		priv, err := curve.NewPrivateKey(keyBytes)
		if err != nil {
			return nil, err
		}
		parse := func(b []byte) (pub, rnd []byte, err error) {
			var parts [3][]byte
			for i := range parts {
				if len(b) < 2 {
					return nil, nil, io.ErrUnexpectedEOF
				}
				l := int(binary.BigEndian.Uint16(b))
				b = b[2:]
				if len(b) < l {
					return nil, nil, io.ErrUnexpectedEOF
				}
				parts[i], b = b[:l], b[l:]
			}
			sz := (curve.(interface {
				NewPublicKey([]byte) (*ecdh.PublicKey, error)
			}) != nil)
			_ = sz
			n := 32
			if suite == kex.ECDH384Suite {
				n = 48
			}
			pub = append([]byte{4}, append(leftPad(parts[0], n), leftPad(parts[1], n)...)...)
			return pub, parts[2], nil
		}
		_, randA, err := parse(res.xA)
		if err != nil {
			return nil, err
		}
		pubB, randB, err := parse(res.xB)
		if err != nil {
			return nil, err
		}
		pb, err := curve.NewPublicKey(pubB)
		if err != nil {
			return nil, err
		}
		shx, err := priv.ECDH(pb)
		if err != nil {
			return nil, err
		}
		shse := append(append(shx, randB...), randA...) // ShX || DeviceRandom || OwnerRandom
		return refKDF(ci.prf, shse, nil, bits), nil
	case kex.DHKEXid14Suite, kex.DHKEXid15Suite:
		pBytes, _ := pa[0].([]byte)
		aBytes, _ := pa[3].([]byte)
		p, a := new(big.Int).SetBytes(pBytes), new(big.Int).SetBytes(aBytes)
		want := 2048
		if suite == kex.DHKEXid15Suite {
			want = 3072
		}
		if err := checkPrime(p, want); err != nil {
			return nil, err
		}
		if g, _ := pa[1].(int64); g != 2 {
			return nil, fmt.Errorf("generator %d, want 2", g)
		}
		sh := new(big.Int).Exp(new(big.Int).SetBytes(res.xB), a, p)
		shse := sh.FillBytes(make([]byte, want/8))
		return refKDF(ci.prf, shse, nil, bits), nil
	default:
		key := rsaFor(suite)
		devRand, err := rsa.DecryptOAEP(sha256.New(), nil, key, res.xB, nil)
		if err != nil {
			return nil, err
		}
		return refKDF(ci.prf, devRand, res.xA, bits), nil
	}
}

func leftPad(b []byte, n int) []byte {
	if len(b) >= n {
		return b
	}
	return append(make([]byte, n-len(b)), b...)
}

var primeOK sync.Map

// checkPrime: RFC 3526 MODP primes are safe primes of the stated size whose top and bottom 64 bits are all ones.
func checkPrime(p *big.Int, bits int) error {
	if _, ok := primeOK.Load(p.String()); ok {
		return nil
	}
	b := p.Bytes()
	if p.BitLen() != bits || !bytes.Equal(b[:8], bytes.Repeat([]byte{0xff}, 8)) || !bytes.Equal(b[len(b)-8:], bytes.Repeat([]byte{0xff}, 8)) {
		return fmt.Errorf("DH modulus is not of the RFC 3526 form for %d bits", bits)
	}
	q := new(big.Int).Rsh(p, 1)
	if !p.ProbablyPrime(8) || !q.ProbablyPrime(8) {
		return fmt.Errorf("DH modulus is not a safe prime")
	}
	primeOK.Store(p.String(), true)
	return nil
}

func rep(suite kex.Suite, c kex.CipherSuiteID, mask int, sa, sb string) map[string]any {
	return map[string]any{"suite": string(suite), "cipher": int64(c), "persist_mask": fmt.Sprintf("%05b", mask), "rand_owner": sa, "rand_device": sb}
}

func checkExchange(suite kex.Suite, c kex.CipherSuiteID, mask int, kindA, kindB string) (sek []byte) {
	r.Evaluations.Add(1)
	res := exchange(suite, c, mkStream(kindA, 1), mkStream(kindB, 2), mask)
	id := fmt.Sprintf("%s/%s", suite, c)
	if res.err != nil {
		r.Violation("exchange-fails:"+string(suite)+fmt.Sprintf(":mask%05b", mask), fmt.Sprintf("%s mask=%05b rand=%s/%s: %v", id, mask, kindA, kindB, res.err), rep(suite, c, mask, kindA, kindB))
		return nil
	}
	ci := cref[c]
	if len(res.ownerSEK) != ci.sek || len(res.devSEK) != ci.sek {
		r.Violation("sek-size:"+c.String(), fmt.Sprintf("%s: SEK sizes owner=%d device=%d, cipher needs %d", id, len(res.ownerSEK), len(res.devSEK), ci.sek), rep(suite, c, mask, kindA, kindB))
	}
	macAlg := c.Suite().MacAlg
	wantSVK := 0
	if macAlg != 0 {
		wantSVK = int(macAlg.KeySize())
	}
	if len(res.ownerSVK) != wantSVK || len(res.devSVK) != wantSVK {
		r.Violation("svk-size:"+c.String(), fmt.Sprintf("%s: SVK sizes owner=%d device=%d, MAC needs %d", id, len(res.ownerSVK), len(res.devSVK), wantSVK), rep(suite, c, mask, kindA, kindB))
	}
	if !bytes.Equal(res.ownerSEK, res.devSEK) || !bytes.Equal(res.ownerSVK, res.devSVK) {
		r.Violation("disagree:"+string(suite)+fmt.Sprintf(":mask%05b", mask), fmt.Sprintf("%s mask=%05b rand=%s/%s: owner SEK|SVK %x|%x, device %x|%x", id, mask, kindA, kindB, res.ownerSEK, res.ownerSVK, res.devSEK, res.devSVK), rep(suite, c, mask, kindA, kindB))
		return nil
	}
	if mask&1 == 0 { // reference needs the owner secret captured from an un-persisted owner state after Parameter (always taken)
	}
	want, err := referenceKeys(suite, c, res, wantSVK)
	if err != nil {
		r.Violation("reference-error:"+string(suite), fmt.Sprintf("%s: reference computation impossible: %v", id, err), rep(suite, c, mask, kindA, kindB))
	} else if !bytes.Equal(want, append(bytes.Clone(res.ownerSEK), res.ownerSVK...)) {
		r.Violation("kdf-mismatch:"+string(suite)+":"+c.String(), fmt.Sprintf("%s rand=%s/%s: derived SEK||SVK %x%x differs from SP800-108/FDO reference %x", id, kindA, kindB, res.ownerSEK, res.ownerSVK, want), rep(suite, c, mask, kindA, kindB))
	}
	// tunnel works both ways
	for dir, pair := range [][2]kex.Session{{res.owner, res.dev}, {res.dev, res.owner}} {
		msg := []any{int64(dir), []byte("payload"), "text"}
		var out []byte
		var eerr error
		if p := probe.Call(func() {
			var enc any
			enc, eerr = pair[0].Encrypt(rand.Reader, msg)
			if eerr != nil {
				return
			}
			var wire []byte
			wire, eerr = cbor.Marshal(enc)
			if eerr != nil {
				return
			}
			out, eerr = pair[1].Decrypt(rand.Reader, bytes.NewReader(wire))
		}); p != nil {
			r.Violation(p.Key(), fmt.Sprintf("%s mask=%05b: tunnel panics: %s", id, mask, p.Value), rep(suite, c, mask, kindA, kindB))
			continue
		}
		want, _ := cbor.Marshal(msg)
		if eerr != nil || !bytes.Equal(out, want) {
			r.Violation("tunnel:"+string(suite)+":"+c.String(), fmt.Sprintf("%s mask=%05b dir=%d: Encrypt/Decrypt across parties failed: %v (got %x want %x)", id, mask, dir, eerr, out, want), rep(suite, c, mask, kindA, kindB))
		}
	}
	r.Distinct(id + hex.EncodeToString(res.ownerSEK))
	return res.ownerSEK
}

// invalid parameters presented to the owner (as xB) and to the device (as xA)
func invalidParams(suite kex.Suite, c kex.CipherSuiteID) {
	key := rsaFor(suite)
	var pub *rsa.PublicKey
	if key != nil {
		pub = &key.PublicKey
	}
	good := exchange(suite, c, mkStream("counter", 3), mkStream("lcg", 4), 0)
	if good.err != nil {
		return
	}
	type bad struct {
		name string
		b    []byte
	}
	var bads []bad
	switch suite {
	case kex.DHKEXid14Suite, kex.DHKEXid15Suite:
		var pa []any
		_ = cbor.Unmarshal(good.ownerPersist, &pa)
		pb, _ := pa[0].([]byte)
		p := new(big.Int).SetBytes(pb)
		one := big.NewInt(1)
		for _, v := range []struct {
			n string
			v *big.Int
		}{{"0", big.NewInt(0)}, {"1", one}, {"p-1", new(big.Int).Sub(p, one)}, {"p", p}, {"p+1", new(big.Int).Add(p, one)}, {"2p", new(big.Int).Lsh(p, 1)}} {
			bads = append(bads, bad{"dh:" + v.n, v.v.Bytes()})
		}
		bads = append(bads, bad{"dh:empty", nil}, bad{"dh:leadingzeros-1", append(make([]byte, 8), 1)})
	case kex.ECDH256Suite, kex.ECDH384Suite:
		x := good.xB
		n := int(binary.BigEndian.Uint16(x))
		mk := func(xb, yb, rb []byte) []byte {
			var o []byte
			for _, p := range [][]byte{xb, yb, rb} {
				o = binary.BigEndian.AppendUint16(o, uint16(len(p)))
				o = append(o, p...)
			}
			return o
		}
		X, Y, R := x[2:2+n], x[4+n:4+2*n], x[6+2*n:]
		offY := bytes.Clone(Y)
		offY[len(offY)-1] ^= 1
		bads = append(bads, bad{"ecdh:empty", nil}, bad{"ecdh:truncated", x[:len(x)/2]}, bad{"ecdh:1byte", []byte{0}},
			bad{"ecdh:zero-lengths", mk(nil, nil, nil)}, bad{"ecdh:zero-x", mk(nil, Y, R)}, bad{"ecdh:off-curve", mk(X, offY, R)},
			bad{"ecdh:identity", mk(make([]byte, n), make([]byte, n), R)}, bad{"ecdh:oversized-prefix", append([]byte{0xff, 0xff}, x[2:]...)},
			bad{"ecdh:oversized-coord", mk(append([]byte{1}, X...), append([]byte{1}, Y...), R)})
		other := kex.ECDH384Suite
		if suite == kex.ECDH384Suite {
			other = kex.ECDH256Suite
		}
		if o := exchange(other, c, mkStream("counter", 5), mkStream("lcg", 6), 0); o.err == nil {
			bads = append(bads, bad{"ecdh:other-curve", o.xB})
		}
	default:
		k := len(good.xB)
		otherKey := keys.Get(map[int]string{256: "rsa2048", 384: "rsa3072"}[k], "stranger").(*rsa.PrivateKey)
		foreign, _ := rsa.EncryptOAEP(sha256.New(), rand.Reader, &otherKey.PublicKey, make([]byte, 32), nil)
		flipped := bytes.Clone(good.xB)
		flipped[k/2] ^= 1
		bads = append(bads, bad{"oaep:empty", nil}, bad{"oaep:k-1", good.xB[:k-1]}, bad{"oaep:k+1", append(bytes.Clone(good.xB), 0)}, bad{"oaep:zeros", make([]byte, k)},
			bad{"oaep:foreign-key", foreign}, bad{"oaep:bitflip", flipped})
	}
	for _, b := range bads {
		r.Evaluations.Add(1)
		owner := suite.New(nil, c)
		if _, err := owner.Parameter(mkStream("counter", 7), pub); err != nil {
			continue
		}
		var err error
		if p := probe.Call(func() { err = owner.SetParameter(bytes.Clone(b.b), key) }); p != nil {
			r.Violation(p.Key(), fmt.Sprintf("%s: SetParameter(%s) panics: %s in %s", suite, b.name, p.Value, p.Frame), map[string]any{"suite": string(suite), "param": b.name, "hex": hex.EncodeToString(b.b)})
			continue
		}
		if err == nil {
			r.Violation("invalid-accepted:"+b.name, fmt.Sprintf("%s/%s: owner accepted invalid peer parameter %s and holds SEK %x", suite, c, b.name, field(owner, "SEK")), map[string]any{"suite": string(suite), "param": b.name, "hex": hex.EncodeToString(b.b)})
		} else if len(field(owner, "SEK")) != 0 {
			r.Violation("key-after-reject:"+b.name, fmt.Sprintf("%s/%s: SetParameter(%s) failed but a SEK is present", suite, c, b.name), map[string]any{"suite": string(suite), "param": b.name})
		}
		r.Distinct("invalid:" + string(suite) + b.name)
		// device side: the same value as xA (not meaningful for OAEP, where xA is an arbitrary random)
		if suite == kex.ASYMKEX2048Suite || suite == kex.ASYMKEX3072Suite {
			continue
		}
		dev := suite.New(bytes.Clone(b.b), c)
		if p := probe.Call(func() { _, err = dev.Parameter(mkStream("counter", 8), pub) }); p != nil {
			r.Violation(p.Key(), fmt.Sprintf("%s: device Parameter with xA=%s panics: %s in %s", suite, b.name, p.Value, p.Frame), map[string]any{"suite": string(suite), "param": b.name, "hex": hex.EncodeToString(b.b), "side": "device"})
			continue
		}
		if err == nil && b.b != nil {
			r.Violation("invalid-accepted-device:"+b.name, fmt.Sprintf("%s/%s: device accepted invalid owner parameter %s and holds SEK %x", suite, c, b.name, field(dev, "SEK")), map[string]any{"suite": string(suite), "param": b.name})
		}
	}
	// refused, then genuine: the owner session refuses an invalid parameter and is then given the genuine one (the
	// device sends again; a store that keeps the live session object, or persists it after the failed message, makes
	// this the SAME session). The second call may be refused, but if it succeeds both sides must hold the same keys.
	for _, b := range bads {
		for _, restore := range []bool{false, true} {
			r.Evaluations.Add(1)
			owner := suite.New(nil, c)
			xA, err := owner.Parameter(mkStream("counter", 11), pub)
			if err != nil {
				continue
			}
			dev := suite.New(bytes.Clone(xA), c)
			xB, err := dev.Parameter(mkStream("lcg", 12), pub)
			if err != nil {
				continue
			}
			repl := map[string]any{"suite": string(suite), "cipher": c, "param": b.name, "history": "Parameter,SetParameter(invalid),SetParameter(genuine)", "restored_in_between": restore}
			var e1, e2 error
			if p := probe.Call(func() { e1 = owner.SetParameter(bytes.Clone(b.b), key) }); p != nil || e1 == nil {
				continue // reported above
			}
			if restore {
				if n, err := persist(suite, owner); err == nil {
					owner = n
				} else {
					continue
				}
			}
			if p := probe.Call(func() { e2 = owner.SetParameter(bytes.Clone(xB), key) }); p != nil {
				r.Violation(p.Key(), fmt.Sprintf("%s/%d: SetParameter(genuine) after a refused %s panics: %s in %s", suite, c, b.name, p.Value, p.Frame), repl)
				continue
			}
			r.Distinct(fmt.Sprintf("refused-then-genuine|%s|%s|%v|%v", suite, b.name, restore, e2 == nil))
			if e2 != nil {
				continue // refusing the session for good is fine
			}
			if !bytes.Equal(field(owner, "SEK"), field(dev, "SEK")) || !bytes.Equal(field(owner, "SVK"), field(dev, "SVK")) || len(field(owner, "SEK")) == 0 {
				r.Violation("keys-differ-after-refused-parameter:"+string(suite), fmt.Sprintf("%s/%d: the owner session refused %s, then accepted the genuine parameter (restored in between: %v), yet owner SEK/SVK %x/%x differ from the device's %x/%x", suite, c, b.name, restore, field(owner, "SEK"), field(owner, "SVK"), field(dev, "SEK"), field(dev, "SVK")), repl)
			}
		}
	}
	// nil owner key for ASYMKEX, and a second SetParameter on a completed session
	r.Evaluations.Add(1)
	owner := suite.New(nil, c)
	if _, err := owner.Parameter(mkStream("counter", 9), pub); err == nil {
		if key != nil {
			var err error
			if p := probe.Call(func() { err = owner.SetParameter(bytes.Clone(good.xB), nil) }); p != nil {
				r.Violation(p.Key(), fmt.Sprintf("%s: SetParameter with nil owner key panics: %s", suite, p.Value), nil)
			} else if err == nil {
				r.Violation("invalid-accepted:nil-owner-key", string(suite)+": SetParameter accepted a nil owner key", nil)
			}
		}
	}
	if p := probe.Call(func() { _ = good.owner.SetParameter(bytes.Clone(good.xB), key) }); p != nil {
		r.Violation(p.Key(), fmt.Sprintf("%s: second SetParameter on a completed session panics: %s in %s", suite, p.Value, p.Frame), map[string]any{"suite": string(suite), "history": "Parameter,SetParameter,SetParameter"})
	}
}

// minimalCoords rewrites an ECDH parameter (len|x|len|y|len|r) with x and y stripped of leading zero octets.
func minimalCoords(_ string, x []byte) []byte {
	var fields [][]byte
	rest := x
	for i := 0; i < 3; i++ {
		if len(rest) < 2 {
			return x
		}
		n := int(binary.BigEndian.Uint16(rest))
		if len(rest) < 2+n {
			return x
		}
		fields = append(fields, rest[2:2+n])
		rest = rest[2+n:]
	}
	if len(rest) != 0 {
		return x
	}
	var o []byte
	for i, f := range fields {
		if i < 2 {
			f = bytes.TrimLeft(f, "\x00")
		}
		o = binary.BigEndian.AppendUint16(o, uint16(len(f)))
		o = append(o, f...)
	}
	return o
}

// leadingZeroWitnesses runs checked exchanges over a family of randomness streams and counts those whose public
// values (ECDH X or Y coordinate, DH public value) carry leading zero bytes, on the owner and on the device side.
func leadingZeroWitnessesPart(suite kex.Suite, tries, part int) {
	c := ciphers[part%len(ciphers)]
	leadingZeroWitnesses(suite, c, tries, part*1000000)
}

func leadingZeroWitnesses(suite kex.Suite, c kex.CipherSuiteID, tries, base int) {
	lead := func(x []byte) bool {
		switch suite {
		case kex.ECDH256Suite, kex.ECDH384Suite:
			n := int(binary.BigEndian.Uint16(x))
			return x[2] == 0 || x[4+n] == 0
		default:
			want := 256
			if suite == kex.DHKEXid15Suite {
				want = 384
			}
			return len(x) < want // big.Int.Bytes() strips leading zero bytes
		}
	}
	var nA, nB, nMin int64
	for i := 0; i < tries; i++ {
		ka, kb := fmt.Sprintf("lcg:%d", base+2*i), fmt.Sprintf("lcg:%d", base+2*i+1)
		r.Evaluations.Add(1)
		res := exchange(suite, c, mkStream(ka, 1), mkStream(kb, 2), 0b00010)
		if res.err != nil {
			r.Violation("exchange-fails:"+string(suite)+":witness-search", fmt.Sprintf("%s/%s rand=%s/%s: %v", suite, c, ka, kb, res.err), rep(suite, c, 2, ka, kb))
			continue
		}
		if suite == kex.ECDH256Suite || suite == kex.ECDH384Suite {
			// one more exchange in which every coordinate travels as a minimal-length integer (each field carries its
			// own length, so a peer may write a coordinate with leading zero octets shorter): whenever that changes the
			// bytes in transit, both parties must still accept, agree and match the reference derivation
			r.Evaluations.Add(1)
			res2 := exchange(suite, c, mkStream(ka, 1), mkStream(kb, 2), 0b00010, minimalCoords)
			if res2.err != nil || lead(res2.xA) || lead(res2.xB) {
				nMin++
				switch {
				case res2.err != nil:
					r.Violation("minimal-length-coordinate-refused:"+string(suite), fmt.Sprintf("%s/%s rand=%s/%s: a parameter whose coordinate with leading zero octets travels at its minimal length: %v", suite, c, ka, kb, res2.err), rep(suite, c, 2, ka, kb))
				case !bytes.Equal(res2.ownerSEK, res2.devSEK) || !bytes.Equal(res2.ownerSVK, res2.devSVK) || len(res2.ownerSEK) == 0:
					r.Violation("minimal-length-coordinate-disagree:"+string(suite), fmt.Sprintf("%s/%s rand=%s/%s: parties disagree when a coordinate travels at its minimal length", suite, c, ka, kb), rep(suite, c, 2, ka, kb))
				default:
					if ref, err := referenceKeys(suite, c, res2, len(res2.ownerSVK)); err == nil && !bytes.Equal(ref, append(bytes.Clone(res2.ownerSEK), res2.ownerSVK...)) {
						r.Violation("minimal-length-coordinate-kdf:"+string(suite), fmt.Sprintf("%s/%s rand=%s/%s: keys differ from the reference derivation when a coordinate travels at its minimal length", suite, c, ka, kb), rep(suite, c, 2, ka, kb))
					}
				}
			}
		}
		if la, lb := lead(res.xA), lead(res.xB); la || lb {
			if la {
				nA++
			}
			if lb {
				nB++
			}
			checkExchange(suite, c, 0b00010, ka, kb) // full oracle set (sizes, equality, reference KDF, tunnel)
		} else if !bytes.Equal(res.ownerSEK, res.devSEK) {
			r.Violation("disagree:"+string(suite)+":witness-search", fmt.Sprintf("%s/%s rand=%s/%s: parties disagree", suite, c, ka, kb), rep(suite, c, 2, ka, kb))
		}
	}
	r.Add("minimal_length_coordinate_exchanges_"+string(suite), nMin)
	r.Add("leading_zero_witnesses_owner_"+string(suite), nA)
	r.Add("leading_zero_witnesses_device_"+string(suite), nB)
}

func kdfSweep() {
	for _, h := range []crypto.Hash{crypto.SHA256, crypto.SHA384} {
		for _, kl := range []int{1, 16, 32, 48, 64, 129, 256, 384} {
			kin := make([]byte, kl)
			for i := range kin {
				kin[i] = byte(i*13 + kl)
			}
			for _, cl := range []int{0, 16, 32, 96} {
				ctx := make([]byte, cl)
				for i := range ctx {
					ctx[i] = byte(i*7 + 1)
				}
				for bits := 8; bits <= 2048; bits += 8 {
					r.Evaluations.Add(1)
					var got []byte
					if p := probe.Call(func() { got = kex.XKDF(h, kin, ctx, uint16(bits)) }); p != nil {
						r.Violation(p.Key(), fmt.Sprintf("KDF(%v, %d-byte key, %d-byte context, %d bits) panics: %s", h, kl, cl, bits, p.Value), map[string]any{"hash": h.String(), "bits": bits})
						continue
					}
					if want := refKDF(h, kin, ctx, bits); !bytes.Equal(got, want) {
						r.Violation(fmt.Sprintf("kdf:%v:blocks%d", h, (bits/8+h.Size()-1)/h.Size()), fmt.Sprintf("KDF(%v, key %d bytes, context %d bytes, L=%d bits) = %x, SP800-108 reference = %x", h, kl, cl, bits, got, want), map[string]any{"hash": h.String(), "bits": bits, "keylen": kl, "ctxlen": cl})
					}
				}
			}
		}
	}
	r.Distinct("kdf-sweep")
}

func main() {
	r = ev.Start("C14", "exploration")
	streams := []string{"counter", "lowone", "ff", "lcg"}
	r.Rule("full product of 6 key-exchange suites x 7 cipher suites; for each: every pair of 4 deterministic randomness streams (incl. leading-zero-heavy and all-ones) with no persistence, every non-empty subset of the 3 persistence points between protocol steps (owner after Parameter, owner after SetParameter, device after Parameter; serialise with MarshalBinary, restore with Suite.New(nil,1)+UnmarshalBinary as the stores do) for two stream pairs (all 7 subsets for one cipher per suite in quick, for all ciphers in thorough); oracles: SEK/SVK sizes, both parties equal, equal to an independent SP800-108 KDF over an independently recomputed shared secret (stdlib ecdh / big.Int / OAEP), tunnel works in both directions, different randomness gives different keys; for every ECDH exchange found with a leading-zero coordinate the same exchange with minimal-length coordinates in transit gives the same keys; every invalid-parameter class per suite presented to owner and device must be rejected without panic and without a key; KDF compared with the reference for both hashes, 8 key lengths, 4 context lengths and every output length 8..2048 bits step 8. distinct = distinct (suite,cipher,derived key) outcomes + invalid classes. Refused-then-genuine: for every invalid peer parameter the owner session that refused it is given the genuine parameter next (also after a persist/restore in between): it may refuse, but if it accepts, owner and device hold the same SEK/SVK.")
	var wg sync.WaitGroup
	sem := make(chan struct{}, 16)
	for _, s := range suites {
		for ci, c := range ciphers {
			wg.Add(1)
			sem <- struct{}{}
			go func() {
				defer wg.Done()
				defer func() { <-sem }()
				seen := map[string]string{}
				for _, a := range streams {
					for _, b := range streams {
						if sek := checkExchange(s, c, 0, a, b); sek != nil {
							k := hex.EncodeToString(sek)
							if prev, dup := seen[k]; dup {
								r.Violation("not-fresh:"+string(s), fmt.Sprintf("%s/%s: randomness %s and %s/%s derive the same SEK", s, c, prev, a, b), nil)
							}
							seen[k] = a + "/" + b
						}
					}
				}
				if !r.Quick() || ci == len(string(s))%len(ciphers) {
					for _, mask := range []int{0b00010, 0b00100, 0b10000, 0b00110, 0b10010, 0b10100, 0b10110} {
						for _, sp := range [][2]string{{"lcg", "counter"}, {"lowone", "ff"}} {
							checkExchange(s, c, mask, sp[0], sp[1])
						}
					}
				} else {
					for _, mask := range []int{0b00010, 0b10110} {
						checkExchange(s, c, mask, "lcg", "counter")
					}
				}
				if !r.Quick() || ci%3 == 0 {
					invalidParams(s, c)
				}
			}()
		}
	}
	wg.Add(1)
	go func() { defer wg.Done(); kdfSweep() }()
	for _, s := range suites[:4] {
		tries := map[kex.Suite]int{kex.ECDH256Suite: 1500, kex.ECDH384Suite: 1500, kex.DHKEXid14Suite: 900, kex.DHKEXid15Suite: 0}[s]
		if !r.Quick() {
			tries = map[kex.Suite]int{kex.ECDH256Suite: 6000, kex.ECDH384Suite: 6000, kex.DHKEXid14Suite: 3000, kex.DHKEXid15Suite: 1500}[s]
		}
		for part := 0; part < 4 && tries > 0; part++ {
			wg.Add(1)
			go func() { defer wg.Done(); leadingZeroWitnessesPart(s, tries/4, part) }()
		}
	}
	wg.Wait()
	r.Sample(3, map[string]any{"suite": "ECDH256", "cipher": "A128GCM", "persist_mask": "10101", "rand": "lcg/counter"})
	r.Sample(3, map[string]any{"suite": "DHKEXid15", "invalid": "xB = p-1"})
	r.Assume("SEK size per cipher and PRF hash per cipher are the reference table in this file (A*GCM and AES128: HMAC-SHA256; AES256 CBC/CTR: HMAC-SHA384); SVK size is whatever the cipher's registered MAC algorithm demands")
	r.Assume("the owner's private exponent / EC key for the reference computation is read from the session's persisted form after Parameter")
	r.Finish()
}
