// C09 — every supported crypto configuration onboards; forbidden ones are refused.
//
// Exhaustive enumeration of the finite configuration product on the real stack (HTTP transport, real
// handler/responders/clients): DI -> extension -> [TO0 -> TO1] -> TO2 -> resale -> TO2.
package main

import (
	"bytes"
	"context"
	"fmt"
	"strings"
	"sync"

	fdo "github.com/fido-device-onboard/go-fdo"
	"github.com/fido-device-onboard/go-fdo/blob"
	"github.com/fido-device-onboard/go-fdo/cbor"
	"github.com/fido-device-onboard/go-fdo/cose"
	"github.com/fido-device-onboard/go-fdo/kex"
	"github.com/fido-device-onboard/go-fdo/protocol"

	"verif/internal/ev"
	"verif/internal/keys"
	"verif/internal/lab"
	"verif/internal/probe"
	rc "verif/internal/refcbor"
)

var r *ev.Run

var suites = []kex.Suite{kex.ECDH256Suite, kex.ECDH384Suite, kex.DHKEXid14Suite, kex.DHKEXid15Suite, kex.ASYMKEX2048Suite, kex.ASYMKEX3072Suite}
var ciphers = []kex.CipherSuiteID{kex.A128GcmCipher, kex.A192GcmCipher, kex.A256GcmCipher, kex.CoseAes128CbcCipher, kex.CoseAes128CtrCipher, kex.CoseAes256CbcCipher, kex.CoseAes256CtrCipher}

// expected COSE algorithm id of the Encrypt0 and whether a Mac0 wrapper is used
var wireAlg = map[kex.CipherSuiteID]struct {
	enc int64
	mac bool
}{kex.A128GcmCipher: {1, false}, kex.A192GcmCipher: {2, false}, kex.A256GcmCipher: {3, false},
	kex.CoseAes128CtrCipher: {-65534, true}, kex.CoseAes256CtrCipher: {-65532, true}, kex.CoseAes128CbcCipher: {-65531, true}, kex.CoseAes256CbcCipher: {-65529, true}}

type tuple struct {
	pad    int // extra characters in a devmod string: shifts the plaintext length of the service-info messages
	kind   keys.Kind
	enc    protocol.KeyEncoding
	suite  kex.Suite
	cipher kex.CipherSuiteID
	reuse  bool
	bypass bool
	opaque bool // the owner services hand their keys out as opaque crypto.Signer values (HSM/KMS/TPM style)
}

func (t tuple) String() string {
	o := ""
	if t.opaque {
		o = "/opaque-owner-keys"
	}
	return fmt.Sprintf("%s/enc%d/%s/%s/reuse=%v/bypass=%v/pad=%d%s", t.kind.Name, t.enc, t.suite, t.cipher, t.reuse, t.bypass, t.pad, o)
}

// valid: the reference validity rule (device and owner keys are of the same kind in this deployment): RSA
// attestation keys may use every key exchange; P-256 only ECDH256; P-384 only ECDH384.
func (t tuple) valid() bool {
	switch t.kind.Type {
	case protocol.Secp256r1KeyType:
		return t.suite == kex.ECDH256Suite
	case protocol.Secp384r1KeyType:
		return t.suite == kex.ECDH384Suite
	}
	return true
}

func asInt(it *rc.Item) (int64, bool) {
	switch it.Kind {
	case rc.Uint:
		return int64(it.U), true
	case rc.Nint:
		return -int64(it.U) - 1, true
	}
	return 0, false
}

func mapOf(b *rc.Item) *rc.Item {
	if b.Kind != rc.Bytes || len(b.B) == 0 {
		return nil
	}
	m, _, err := rc.Parse(b.B)
	if err != nil {
		return nil
	}
	return m
}

// tunnelCheck inspects the wire log of a TO2 run.
func tunnelCheck(t tuple, wire *lab.Wire) string {
	exp := wireAlg[t.cipher]
	for _, x := range wire.Log {
		for _, side := range []struct {
			typ  int
			body []byte
		}{{x.MsgType, x.ReqBody}, {x.RespType, x.RespBody}} {
			if side.typ < 65 || side.typ > 71 {
				if side.typ == 60 && side.body != nil {
					if h, _, err := rc.Parse(side.body); err == nil && h.Kind == rc.Array && len(h.Items) == 6 {
						if string(h.Items[3].B) != string(t.suite) {
							return fmt.Sprintf("HelloDevice names key exchange %q, configured %q", h.Items[3].B, t.suite)
						}
						if v, _ := asInt(h.Items[4]); v != int64(t.cipher) {
							return fmt.Sprintf("HelloDevice names cipher %d, configured %d", v, t.cipher)
						}
					}
				}
				continue
			}
			top, _, err := rc.Parse(side.body)
			if err != nil || top.Kind != rc.Tag {
				return fmt.Sprintf("message %d is not a COSE object", side.typ)
			}
			arr := top.Items[0]
			if exp.mac {
				if top.U != 17 || arr.Kind != rc.Array || len(arr.Items) != 4 {
					return fmt.Sprintf("message %d is not a COSE_Mac0 although the suite is encrypt-then-MAC", side.typ)
				}
				in, _, err := rc.Parse(arr.Items[2].B)
				if err != nil {
					return "Mac0 payload is not an Encrypt0"
				}
				arr = in
			} else if top.U != 16 {
				return fmt.Sprintf("message %d is not a COSE_Encrypt0", side.typ)
			}
			if arr.Kind != rc.Array || len(arr.Items) != 3 {
				return "Encrypt0 shape"
			}
			got := int64(0)
			for _, m := range []*rc.Item{mapOf(arr.Items[0]), arr.Items[1]} {
				if m == nil || m.Kind != rc.Map {
					continue
				}
				for i := 0; i+1 < len(m.Items); i += 2 {
					if l, ok := asInt(m.Items[i]); ok && l == 1 {
						got, _ = asInt(m.Items[i+1])
					}
				}
			}
			if got != exp.enc {
				return fmt.Sprintf("message %d is encrypted with COSE alg %d, the configured cipher suite %s is alg %d", side.typ, got, t.cipher, exp.enc)
			}
		}
	}
	return ""
}

func runTuple(t tuple) {
	r.Evaluations.Add(1)
	ctx := context.Background()
	repl := map[string]any{"tuple": t.String()}
	fail := func(key, msg string) { r.Violation(key, t.String()+": "+msg, repl) }
	w := lab.NewWorld(t.kind, t.enc)
	w.Owner.Reuse, w.Owner2.Reuse = t.reuse, t.reuse
	w.Owner.Mem.OpaqueKeys, w.Owner2.Mem.OpaqueKeys = t.opaque, t.opaque
	if _, err := w.Manufacture(ctx, 1); err != nil {
		fail("valid-config-fails:DI/extend:"+t.kind.Name, err.Error())
		return
	}
	var to1d *cose.Sign1[protocol.To1d, []byte]
	if !t.bypass {
		if _, err := w.Register(ctx, w.WRV.Transport(), lab.DefaultAddrs()); err != nil {
			fail("valid-config-fails:TO0:"+t.kind.Name, err.Error())
			return
		}
		var err error
		if to1d, err = w.Dev.TO1(ctx, w.WRV.Transport()); err != nil {
			fail("valid-config-fails:TO1:"+t.kind.Name, err.Error())
			return
		}
	}
	// the credential goes through its blob encoding before use
	if credBlob, err := cbor.Marshal(blob.DeviceCredential{Active: true, DeviceCredential: *w.Dev.Cred, HmacSecret: w.Dev.Secret, PrivateKey: blob.Pkcs8Key{Signer: w.Dev.Key}}); err == nil {
		var back blob.DeviceCredential
		if err := cbor.Unmarshal(credBlob, &back); err != nil {
			fail("blob-roundtrip", err.Error())
		} else {
			w.Dev.Cred = &back.DeviceCredential
		}
	}
	to2 := func(wire *lab.Wire, to1d *cose.Sign1[protocol.To1d, []byte]) (cred *fdo.DeviceCredential, err error) {
		cfg := w.Dev.TO2Config(t.suite, t.cipher)
		cfg.AllowCredentialReuse = t.reuse
		cfg.Devmod.Device += strings.Repeat("x", t.pad)
		if p := probe.Call(func() { cred, err = fdo.TO2(ctx, wire.Transport(), to1d, cfg) }); p != nil {
			r.Violation(p.Key(), t.String()+": TO2 panics: "+p.Value+" in "+p.Frame, repl)
			err = fmt.Errorf("panic: %s", p.Value)
		}
		return
	}
	oldGUID := w.Dev.Cred.GUID
	before, _ := w.Owner.Mem.VoucherBytes(oldGUID)
	cred, err := to2(w.WOwner, to1d)
	if !t.valid() {
		served := false
		for _, x := range w.WOwner.Log {
			if x.RespType == 65 {
				served = true
			}
		}
		after, _ := w.Owner.Mem.VoucherBytes(oldGUID)
		if err == nil || cred != nil || served || !bytes.Equal(before, after) {
			fail("forbidden-config-accepted:"+t.kind.Alg+":"+string(t.suite), fmt.Sprintf("key exchange is not allowed for these keys, yet err=%v cred=%v SetupDevice served=%v voucher changed=%v", err, cred != nil, served, !bytes.Equal(before, after)))
		}
		if msg := tunnelCheck(t, w.WOwner); msg != "" {
			fail("renegotiated", msg)
		}
		r.Distinct("refused|" + t.kind.Alg + "|" + string(t.suite))
		return
	}
	if err != nil {
		fail("valid-config-fails:TO2:"+t.kind.Name+":"+string(t.suite)+":"+t.cipher.String(), err.Error())
		return
	}
	if msg := tunnelCheck(t, w.WOwner); msg != "" {
		fail("tunnel:"+t.cipher.String(), msg)
	}
	if t.reuse {
		after, _ := w.Owner.Mem.VoucherBytes(oldGUID)
		if cred != nil || !bytes.Equal(before, after) {
			fail("reuse-changed-state", fmt.Sprintf("credential reuse: cred returned=%v, voucher changed=%v", cred != nil, !bytes.Equal(before, after)))
		}
	} else {
		if cred == nil {
			fail("no-credential", "TO2 succeeded without replacement credential")
			return
		}
		w.Dev.Cred = cred
		nv, ok := w.Owner.Mem.VoucherBytes(cred.GUID)
		if _, old := w.Owner.Mem.VoucherBytes(oldGUID); old || !ok {
			fail("voucher-not-replaced", "after TO2 the old voucher is still there or the new one is missing")
			return
		}
		if msg := lab.Agree(cred, w.Dev, nv); msg != "" {
			fail("credential-voucher-disagree:"+t.kind.Name, msg)
			return
		}
	}
	// resale to the second owner and a second TO2 (always RV bypass)
	next := w.Owner2.OwnerSigner(t.kind)
	ov, err := w.Owner.TO2.Resell(ctx, w.Dev.Cred.GUID, next.Public(), nil)
	if err != nil {
		fail("resell-fails:"+t.kind.Name, err.Error())
		return
	}
	if err := w.Owner2.State.AddVoucher(ctx, ov); err != nil {
		fail("resell-fails:"+t.kind.Name, err.Error())
		return
	}
	w2 := lab.NewWire(w.Owner2)
	cred2, err := to2(w2, nil)
	if err != nil {
		fail("valid-config-fails:second-TO2:"+t.kind.Name+":"+string(t.suite)+":"+t.cipher.String(), err.Error())
		return
	}
	if msg := tunnelCheck(t, w2); msg != "" {
		fail("tunnel:"+t.cipher.String(), msg)
	}
	if !t.reuse {
		if cred2 == nil {
			fail("no-credential", "second TO2 succeeded without replacement credential")
			return
		}
		nv, _ := w.Owner2.Mem.VoucherBytes(cred2.GUID)
		if msg := lab.Agree(cred2, w.Dev, nv); msg != "" {
			fail("credential-voucher-disagree:"+t.kind.Name, "after second TO2: "+msg)
		}
	}
	r.Distinct("ok|" + t.String())
}

// sharedDeployment: ONE manufacturer, rendezvous and owner service, living as long as a deployment does, onboards a
// device of every key type one after the other (both orders, twice round): what a server keeps from one session
// (caches, lazily built tables) must not make a later, differently configured session fail.
func sharedDeployment() {
	ctx := context.Background()
	for _, enc := range []protocol.KeyEncoding{protocol.X509KeyEnc, protocol.X5ChainKeyEnc} {
		w := lab.NewWorld(keys.Kinds[0], enc)
		order := append([]keys.Kind{}, keys.Kinds...)
		for i := len(keys.Kinds) - 1; i >= 0; i-- {
			order = append(order, keys.Kinds[i])
		}
		order = append(order, keys.Kinds...)
		for i, k := range order {
			r.Evaluations.Add(1)
			id := fmt.Sprintf("shared deployment enc%d, session %d of %d: %s", enc, i+1, len(order), k.Name)
			repl := map[string]any{"layer": "shared-deployment", "enc": int(enc), "session": i, "kind": k.Name}
			d := lab.NewDevice(k, enc, []string{"device", "device2", "stranger"}[i%3])
			if err := d.DI(ctx, lab.NewWire(w.Mfg).Transport()); err != nil {
				r.Violation("valid-config-fails:shared:DI:"+k.Name, id+": "+err.Error(), repl)
				continue
			}
			if _, err := lab.Transfer(ctx, w.Mfg, w.Owner, k, d.Cred.GUID); err != nil {
				r.Violation("valid-config-fails:shared:extend:"+k.Name, id+": "+err.Error(), repl)
				continue
			}
			c := &fdo.TO0Client{Vouchers: w.Owner.State, OwnerKeys: w.Owner.State}
			if _, err := c.RegisterBlob(ctx, lab.NewWire(w.RV).Transport(), d.Cred.GUID, lab.DefaultAddrs()); err != nil {
				r.Violation("valid-config-fails:shared:TO0:"+k.Name, id+": "+err.Error(), repl)
				continue
			}
			to1d, err := d.TO1(ctx, lab.NewWire(w.RV).Transport())
			if err != nil {
				r.Violation("valid-config-fails:shared:TO1:"+k.Name, id+": "+err.Error(), repl)
				continue
			}
			cred, err := fdo.TO2(ctx, lab.NewWire(w.Owner).Transport(), to1d, d.TO2Config(lab.DefaultSuite(k), kex.A128GcmCipher))
			if err != nil || cred == nil {
				r.Violation("valid-config-fails:shared:TO2:"+k.Name, fmt.Sprintf("%s: err=%v credential=%v (the same device onboards against servers of its own)", id, err, cred != nil), repl)
				continue
			}
			nv, _ := w.Owner.Mem.VoucherBytes(cred.GUID)
			if msg := lab.Agree(cred, d, nv); msg != "" {
				r.Violation("credential-voucher-disagree:"+k.Name, id+": "+msg, repl)
			}
			r.Distinct(fmt.Sprintf("shared|%d|%d|%s", enc, i, k.Name))
		}
	}
}

func main() {
	r = ev.Start("C09", "exploration")
	var all []tuple
	for _, k := range keys.Kinds {
		for _, enc := range k.Encodings() {
			for _, s := range suites {
				for _, c := range ciphers {
					for _, reuse := range []bool{false, true} {
						for _, bypass := range []bool{false, true} {
							all = append(all, tuple{0, k, enc, s, c, reuse, bypass, false})
						}
					}
				}
			}
		}
	}
	sel := all
	if false && r.Quick() {
		// pairwise-covering subset: every (key type, key exchange), (key type, cipher), (key exchange, cipher), (encoding, reuse, bypass)
		seen := map[string]bool{}
		sel = nil
		for _, t := range all {
			pairs := []string{"ks:" + t.kind.Name + string(t.suite), "kc:" + t.kind.Name + t.cipher.String(), fmt.Sprintf("erb:%s%d%v%v", t.kind.Alg[:2], t.enc, t.reuse, t.bypass), "sc:" + string(t.suite) + t.cipher.String()}
			fresh := 0
			for _, p := range pairs {
				if !seen[p] {
					fresh++
				}
			}
			if fresh >= 2 || (fresh >= 1 && t.valid()) {
				for _, p := range pairs {
					seen[p] = true
				}
				sel = append(sel, t)
			}
		}
	}
	// message-length sweep: every plaintext length residue mod 16 for every cipher suite (block alignment)
	for _, c := range ciphers {
		for pad := 1; pad < 16; pad++ {
			sel = append(sel, tuple{pad, keys.KindByName("ec256"), protocol.X509KeyEnc, kex.ECDH256Suite, c, pad%2 == 0, true, false})
		}
	}
	// boundary keys: EC public points with a leading zero byte in X or in Y, in every encoding (an encoder that
	// strips leading zeros next to a parser that wants fixed widths only disagrees for such keys)
	nBoundary := 0
	for _, k := range keys.BoundaryKinds {
		for _, enc := range k.Encodings() {
			for _, reuse := range []bool{false, true} {
				for _, bypass := range []bool{false, true} {
					c := kex.A128GcmCipher
					if reuse != bypass {
						c = kex.CoseAes256CbcCipher
					}
					sel = append(sel, tuple{0, k, enc, lab.DefaultSuite(k), c, reuse, bypass, false})
					nBoundary++
				}
			}
		}
	}
	r.Set("boundary_key_tuples", nBoundary)
	// owner keys behind an opaque crypto.Signer: every key type with every key exchange that only SIGNS with the owner
	// key (the asymmetric key exchange decrypts with it and legitimately needs more than a Signer)
	nOpaque := 0
	for _, k := range keys.Kinds {
		for _, s := range suites {
			if s == kex.ASYMKEX2048Suite || s == kex.ASYMKEX3072Suite {
				continue
			}
			tp := tuple{0, k, protocol.X509KeyEnc, s, kex.A128GcmCipher, nOpaque%2 == 0, nOpaque%4 < 2, true}
			if tp.valid() {
				sel = append(sel, tp)
				nOpaque++
			}
		}
	}
	r.Set("opaque_owner_key_tuples", nOpaque)
	r.Set("product_size", len(all))
	r.Set("tuples_run", len(sel))
	r.Rule(fmt.Sprintf("the product {6 key types} x {X509, X5Chain, COSE(EC only)} x {6 key exchanges} x {7 cipher suites} x {reuse, replace} x {via TO0/TO1, rendezvous bypass} has %d tuples; both tiers run all of them. Each tuple runs DI, extension, [TO0, TO1], TO2 (credential through its blob encoding), resale to a second owner and a second TO2 over the real HTTP transport and handler. Valid tuples (reference rule: RSA attestation keys allow every key exchange, P-256 only ECDH256, P-384 only ECDH384) must complete every step, credential and stored voucher must agree (header MAC, key hash, GUID, rendezvous info, certificate hash), every body from SetupDevice on must be a COSE_Encrypt0 / COSE_Mac0 carrying the configured cipher's algorithm id; plus every key type x every non-asymmetric key exchange with the owner keys handed out as opaque crypto.Signer values; plus one long-lived deployment per key encoding onboarding a device of every key type in turn (there and back, twice round) through the same services; plus 48 tuples with keys whose public point has a leading zero byte in X or Y (all three encodings); plus, for every cipher suite, 15 runs with the service-info plaintext lengths shifted by 1..15 bytes (block alignment); invalid tuples must fail on the device, produce no SetupDevice and leave the voucher untouched; the HelloDevice on the wire must name the configured suites. distinct = tuples with distinct outcome.", len(all)))
	var wg sync.WaitGroup
	sem := make(chan struct{}, 16)
	for _, t := range sel {
		wg.Add(1)
		sem <- struct{}{}
		go func() { defer wg.Done(); defer func() { <-sem }(); runTuple(t) }()
	}
	// unregistered cipher suites (the deprecated CCM ids and arbitrary numbers): an error on both sides, no panic
	for _, c := range []kex.CipherSuiteID{kex.AesCcm16_128_128Cipher, kex.AesCcm16_128_256Cipher, kex.AesCcm64_128_128Cipher, kex.AesCcm64_128_256Cipher, 0x7fff, -1} {
		wg.Add(1)
		sem <- struct{}{}
		go func() {
			defer wg.Done()
			defer func() { <-sem }()
			r.Evaluations.Add(1)
			k := keys.KindByName("ec256")
			w := lab.NewWorld(k, protocol.X509KeyEnc)
			if _, err := w.Manufacture(context.Background(), 1); err != nil {
				return
			}
			var cred *fdo.DeviceCredential
			var err error
			if p := probe.Call(func() {
				cred, err = fdo.TO2(context.Background(), w.WOwner.Transport(), nil, w.Dev.TO2Config(kex.ECDH256Suite, c))
			}); p != nil {
				r.Violation(p.Key(), fmt.Sprintf("TO2 configured with unregistered cipher suite %d panics: %s in %s", c, p.Value, p.Frame), map[string]any{"cipher": int64(c)})
				return
			}
			if err == nil || cred != nil {
				r.Violation("unregistered-cipher-accepted", fmt.Sprintf("cipher suite %d is not implemented, yet TO2 returned cred=%v err=%v", c, cred != nil, err), nil)
			}
			r.Distinct(fmt.Sprintf("unregistered|%d", c))
		}()
	}
	wg.Wait()
	sharedDeployment()
	r.Sample(3, map[string]any{"tuple": sel[0].String()})
	r.Sample(3, map[string]any{"tuple": sel[len(sel)/2].String()})
	r.Assume("manufacturer, owner and device keys are of the same key type within a tuple; keys come from the cached key ring")
	r.Finish()
}
