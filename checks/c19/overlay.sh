#!/bin/bash
# C19 overlay: chunk.go/to2.go onto the scheduler shims, plus a scheduling point before every statement of
# internal/nistkdf, kex and cose; also builds the free-running -race auxiliary from the unrewritten tree.
set -e
OUT="$1"; D=/verif/.cache/overlay/c19; mkdir -p "$D"
export GOFLAGS=-mod=mod GOPROXY=off
cd /verif
go build -o .cache/bin/rewrite ./cmd/rewrite
printf '{"Replace":{"/repo/zz_verif_export.go":"/verif/overlay/fdo_export.go","/repo/kex/zz_verif_export.go":"/verif/overlay/kex_export.go"}}\n' > "$D/base.json"
Y=$(ls /repo/internal/nistkdf/*.go /repo/kex/*.go /repo/cose/*.go | grep -v _test.go | tr '\n' ',')
.cache/bin/rewrite -out "$D" -json "$OUT" -base "$D/base.json" -yield "$Y" /repo/serviceinfo/chunk.go /repo/to2.go $(echo "$Y" | tr ',' ' ') >/dev/null
go build -race -tags verif -overlay "$D/base.json" -o .cache/bin/c19_race ./checks/c19/race
