// C19: concurrent onboardings through one server are isolated and race-free; the device pipeline never
// deadlocks.
//
// (K) two concurrent key exchanges, statement-level interleaving: internal/nistkdf and kex are rebuilt with a
// scheduling point before EVERY statement; two threads run complete exchanges (different suites / cipher suites /
// randomness) and every interleaving with at most 2 (thorough 3) preemptions must give both sides of both
// exchanges exactly the keys they get when run alone.
// (S) N devices against ONE manufacturer, rendezvous and owner server (one handler, one set of responders, one
// store each): phases DI||DI, TO1||TO1, TO2||TO2 (with voucher replacement) and mixed phases; scheduling points at
// every store call (the store's hook), every statement of kex/nistkdf, and every synchronisation operation of the
// device's service-info pipeline (chunk.go/to2.go rewritten onto the shims); all interleavings within the
// preemption bound. Oracle: every device ends as it does alone (credential, voucher at the owner agreeing with the
// credential, its own module payload and nobody else's), no panic, no deadlock.
// (F) TO2 transport failure at every message index racing the device's devmod/module threads: TO2 returns the
// error, no deadlock, no panic, every thread ends.
// (R) auxiliary, free-running: the same N-device bodies as real goroutines in a binary built with -race; any
// race report whose stacks touch go-fdo code is a violation.
package main

import (
	"bytes"
	"context"
	"crypto"
	"encoding/json"
	"fmt"
	"io"
	"os"
	"os/exec"
	"reflect"
	"regexp"
	"strings"
	"time"

	fdo "github.com/fido-device-onboard/go-fdo"
	"github.com/fido-device-onboard/go-fdo/cbor"
	"github.com/fido-device-onboard/go-fdo/cose"
	"github.com/fido-device-onboard/go-fdo/kex"
	"github.com/fido-device-onboard/go-fdo/protocol"
	"github.com/fido-device-onboard/go-fdo/serviceinfo"
	vsync "github.com/fido-device-onboard/go-fdo/zzvsync"

	"verif/internal/ev"
	"verif/internal/explore"
	"verif/internal/keys"
	"verif/internal/lab"
	"verif/internal/schedshard"
)

var r *ev.Run

func fatal(f string, a ...any) {
	fmt.Fprintf(os.Stderr, "HARNESS-ERROR "+f+"\n", a...)
	os.Exit(2)
}

// ---------------- (K) key exchange pairs ----------------

type stream struct{ next func() byte }

func (s *stream) Read(p []byte) (int, error) {
	for i := range p {
		p[i] = s.next()
	}
	return len(p), nil
}

func lcg(seed uint32) *stream {
	x := seed*2654435761 + 12345
	return &stream{func() byte { x = x*1664525 + 1013904223; return byte(x >> 24) }}
}

type kexSpec struct {
	Suite  kex.Suite
	Cipher kex.CipherSuiteID
	Seed   uint32
}

type kexOut struct {
	OwnerSEK, OwnerSVK, DevSEK, DevSVK []byte
	Plain                              []byte
	Err                                string
}

func field(s kex.Session, name string) []byte {
	v := reflect.ValueOf(s)
	for v.Kind() == reflect.Pointer || v.Kind() == reflect.Interface {
		v = v.Elem()
	}
	f := v.FieldByName(name)
	if !f.IsValid() {
		return nil
	}
	return bytes.Clone(f.Bytes())
}

func runKex(k kexSpec) (o kexOut) {
	defer func() {
		if p := recover(); p != nil {
			if fmt.Sprintf("%T", p) == "zzvsync.abortSignal" {
				panic(p)
			}
			o.Err = fmt.Sprintf("panic: %v", p)
		}
	}()
	key := lab.RSAKey(k.Suite)
	pub := lab.RSAPub(k.Suite)
	owner := k.Suite.New(nil, k.Cipher)
	xA, err := owner.Parameter(lcg(k.Seed), pub)
	if err != nil {
		return kexOut{Err: "owner.Parameter: " + err.Error()}
	}
	dev := k.Suite.New(bytes.Clone(xA), k.Cipher)
	xB, err := dev.Parameter(lcg(k.Seed+1), pub)
	if err != nil {
		return kexOut{Err: "device.Parameter: " + err.Error()}
	}
	if err := owner.SetParameter(bytes.Clone(xB), key); err != nil {
		return kexOut{Err: "owner.SetParameter: " + err.Error()}
	}
	o = kexOut{OwnerSEK: field(owner, "SEK"), OwnerSVK: field(owner, "SVK"), DevSEK: field(dev, "SEK"), DevSVK: field(dev, "SVK")}
	// one message through the tunnel, device -> owner
	msg := []byte(fmt.Sprintf("payload of exchange %d", k.Seed))
	enc, err := dev.Encrypt(lcg(k.Seed+2), msg)
	if err != nil {
		o.Err = "Encrypt: " + err.Error()
		return o
	}
	b, err := cbor.Marshal(enc)
	if err != nil {
		o.Err = "marshal: " + err.Error()
		return o
	}
	var tag cbor.Tag[cbor.RawBytes]
	if err := cbor.Unmarshal(b, &tag); err != nil {
		o.Err = "unmarshal: " + err.Error()
		return o
	}
	plain, err := owner.Decrypt(lcg(k.Seed+3), bytes.NewReader(b))
	if err != nil {
		o.Err = "Decrypt: " + err.Error()
		return o
	}
	o.Plain = plain
	return o
}

// signVerify signs a payload, checks that the signature verifies with the right key, that an altered payload and the
// other thread's key do not, and that a Mac0 round trip works.
func signVerify(alg, role string, i int) (msg string) {
	defer func() {
		if p := recover(); p != nil {
			if fmt.Sprintf("%T", p) == "zzvsync.abortSignal" {
				panic(p)
			}
			msg = fmt.Sprintf("panic: %v", p)
		}
	}()
	key := keys.Get(alg, role)
	other := keys.Get(alg, "stranger")
	payload := []byte(fmt.Sprintf("signed by thread %d", i))
	s := cose.Sign1[[]byte, []byte]{Payload: cbor.NewByteWrap(payload)}
	var opts crypto.SignerOpts
	if strings.HasPrefix(alg, "rsa") {
		opts = crypto.SHA256 // RSA keys need the hash named (RS256); EC keys derive it from the curve
	}
	if err := s.Sign(key, nil, nil, opts); err != nil {
		return "Sign: " + err.Error()
	}
	b, err := cbor.Marshal(s.Tag())
	if err != nil {
		return "marshal: " + err.Error()
	}
	var t cose.Sign1Tag[[]byte, []byte]
	if err := cbor.Unmarshal(b, &t); err != nil {
		return "unmarshal: " + err.Error()
	}
	if ok, err := t.Verify(key.Public(), nil, nil); err != nil || !ok {
		return fmt.Sprintf("own signature does not verify: ok=%v err=%v", ok, err)
	}
	if ok, _ := t.Verify(other.Public(), nil, nil); ok {
		return "signature verifies with another key"
	}
	if !bytes.Equal(t.Payload.Val, payload) {
		return fmt.Sprintf("payload %q after the round trip, signed %q", t.Payload.Val, payload)
	}
	return ""
}

var kexPairs = [][2]kexSpec{
	{{kex.ECDH256Suite, kex.A128GcmCipher, 10}, {kex.ECDH256Suite, kex.A256GcmCipher, 20}},
	{{kex.ECDH256Suite, kex.A128GcmCipher, 10}, {kex.ECDH384Suite, kex.CoseAes256CbcCipher, 30}},
	{{kex.ECDH384Suite, kex.CoseAes128CtrCipher, 40}, {kex.ECDH256Suite, kex.CoseAes128CbcCipher, 50}},
	{{kex.DHKEXid14Suite, kex.A128GcmCipher, 60}, {kex.ECDH256Suite, kex.CoseAes256CtrCipher, 70}},
	{{kex.ASYMKEX2048Suite, kex.A256GcmCipher, 80}, {kex.ASYMKEX2048Suite, kex.CoseAes128CbcCipher, 90}},
}

// ---------------- (S)/(F) onboarding scenarios ----------------

type rec struct {
	got [][]byte
}

type devMod struct {
	rec   *rec
	shape int // 0: one reply; 1: half a reply, yield, the other half; 2: yield, reply, yield
}

func (d *devMod) Transition(bool) error { return nil }
func (d *devMod) Receive(ctx context.Context, name string, body io.Reader, respond func(string) io.Writer, yield func()) error {
	b, err := io.ReadAll(body)
	if err != nil {
		return err
	}
	d.rec.got = append(d.rec.got, append([]byte(name+"="), b...))
	switch d.shape {
	case 1:
		if _, err = respond("echo").Write(b[:len(b)/2]); err != nil {
			return err
		}
		yield()
		_, err = respond("echo").Write(b[len(b)/2:])
		return err
	case 2:
		yield()
		_, err = respond("echo").Write(b)
		yield()
		return err
	}
	_, err = respond("echo").Write(b)
	return err
}
func (d *devMod) Yield(context.Context, func(string) io.Writer, func()) error { return nil }

type ownMod struct {
	payload []byte
	state   int
	echo    *[]byte
	// doneWithData: the module reports completion in the same call that writes its last message, so the owner's
	// final TO2.OwnerServiceInfo (IsDone) still carries service info the device module answers
	doneWithData bool
}

func (m *ownMod) HandleInfo(ctx context.Context, name string, body io.Reader) error {
	b, err := io.ReadAll(body)
	if err != nil {
		return err
	}
	if name == "echo" {
		*m.echo = append(*m.echo, b...)
	}
	return nil
}

func (m *ownMod) ProduceInfo(ctx context.Context, p *serviceinfo.Producer) (bool, bool, error) {
	m.state++
	switch m.state {
	case 1:
		b, _ := cbor.Marshal(true)
		return false, false, p.WriteChunk("active", b)
	case 2:
		return false, m.doneWithData, p.WriteChunk("secret", m.payload)
	}
	return false, true, nil
}

type party struct {
	guid0 protocol.GUID // the GUID the TO2 session ran under
	dev   *lab.Device
	rec   *rec
	echo  []byte
	to1d  *cose.Sign1[protocol.To1d, []byte]
}

type world struct {
	w       *lab.World
	ctx     context.Context
	parties []*party
	// shapes of the module conversation (pipeline scenarios)
	devShape     int
	doneWithData bool
}

var kindsFor = map[string]keys.Kind{}

func init() {
	for _, k := range keys.Kinds {
		kindsFor[k.Alg] = k
	}
}

func payloadFor(guid protocol.GUID) []byte { return append([]byte("for-"), guid[:]...) }

// newWorld manufactures n devices (DI done sequentially, outside any scheduler) and hands their vouchers to the
// owner; phase "di" leaves DI to the scenario.
func newWorld(n int, algs []string, doDI bool) *world {
	ctx := context.Background()
	k0 := kindsFor[algs[0]]
	w := lab.NewWorld(k0, protocol.X509KeyEnc)
	wd := &world{w: w, ctx: ctx}
	roles := []string{"device", "device2", "stranger"}
	for i := 0; i < n; i++ {
		k := kindsFor[algs[i%len(algs)]]
		d := lab.NewDevice(k, protocol.X509KeyEnc, roles[i%len(roles)])
		wd.parties = append(wd.parties, &party{dev: d, rec: &rec{}})
	}
	w.Owner.Mem.OwnerModules = func(ctx context.Context, guid protocol.GUID, _ serviceinfo.Devmod, _ []string) []lab.NamedModule {
		var echo *[]byte
		for _, p := range wd.parties {
			if p.dev.Cred != nil && p.dev.Cred.GUID == guid {
				echo = &p.echo
			}
		}
		if echo == nil {
			echo = new([]byte)
		}
		return []lab.NamedModule{{Name: "m", Mod: &ownMod{payload: payloadFor(guid), echo: echo, doneWithData: wd.doneWithData}}}
	}
	if doDI {
		for _, p := range wd.parties {
			if err := wd.di(p); err != nil {
				fatal("DI: %v", err)
			}
		}
		if err := wd.handOver(); err != nil {
			fatal("hand over: %v", err)
		}
	}
	return wd
}

func (wd *world) di(p *party) error { return p.dev.DI(wd.ctx, lab.NewWire(wd.w.Mfg).Transport()) }

func (wd *world) handOver() error {
	for _, p := range wd.parties {
		if _, err := lab.Transfer(wd.ctx, wd.w.Mfg, wd.w.Owner, p.dev.Kind, p.dev.Cred.GUID); err != nil {
			return err
		}
	}
	return nil
}

func (wd *world) to0(p *party) error {
	c := &fdo.TO0Client{Vouchers: wd.w.Owner.State, OwnerKeys: wd.w.Owner.State}
	_, err := c.RegisterBlob(wd.ctx, lab.NewWire(wd.w.RV).Transport(), p.dev.Cred.GUID, lab.DefaultAddrs())
	return err
}

func (wd *world) to1(p *party) error {
	var err error
	p.to1d, err = p.dev.TO1(wd.ctx, lab.NewWire(wd.w.RV).Transport())
	return err
}

type failAt struct {
	inner fdo.Transport
	at    int
	n     int
}

func (f *failAt) Send(ctx context.Context, t uint8, msg any, sess kex.Session) (uint8, io.ReadCloser, error) {
	f.n++
	if f.n == f.at {
		return 0, nil, fmt.Errorf("verif: transport failure at message %d", f.n)
	}
	return f.inner.Send(ctx, t, msg, sess)
}

func (wd *world) to2(p *party, suite kex.Suite, cipher kex.CipherSuiteID, failIdx int) error {
	cfg := p.dev.TO2Config(suite, cipher)
	p.guid0 = p.dev.Cred.GUID
	cfg.DeviceModules = map[string]serviceinfo.DeviceModule{"m": &devMod{rec: p.rec, shape: wd.devShape}}
	var tr fdo.Transport = lab.NewWire(wd.w.Owner).Transport()
	if failIdx > 0 {
		tr = &failAt{inner: tr, at: failIdx}
	}
	cred, err := fdo.TO2(wd.ctx, tr, p.to1d, cfg)
	if err != nil {
		return err
	}
	if cred != nil {
		p.dev.Cred = cred
	}
	return nil
}

func (wd *world) hooks(on bool) {
	h := func(string, string) error { vsync.Yield(); return nil }
	if !on {
		h = nil
	}
	wd.w.Mfg.Mem.Hook, wd.w.RV.Mem.Hook, wd.w.Owner.Mem.Hook = h, h, h
}

func suiteFor(k keys.Kind) (kex.Suite, kex.CipherSuiteID) {
	switch k.Alg {
	case "ec384":
		return kex.ECDH384Suite, kex.CoseAes256CbcCipher
	}
	return kex.ECDH256Suite, kex.A128GcmCipher
}

// checkParty: the device ended as it does alone.
func (wd *world) checkParty(i int, p *party, phase string) []string {
	var bad []string
	switch phase {
	case "di":
		if p.dev.Cred == nil {
			return []string{fmt.Sprintf("device %d has no credential", i)}
		}
		vb, _ := wd.w.Mfg.Mem.VoucherBytes(p.dev.Cred.GUID)
		if vb == nil {
			bad = append(bad, fmt.Sprintf("device %d: no voucher at the manufacturer", i))
		} else if s := lab.Agree(p.dev.Cred, p.dev, vb); s != "" {
			bad = append(bad, fmt.Sprintf("device %d: voucher and credential disagree: %s", i, s))
		}
	case "to1":
		if p.to1d == nil {
			return []string{fmt.Sprintf("device %d got no rendezvous blob", i)}
		}
	case "to2":
		vb, _ := wd.w.Owner.Mem.VoucherBytes(p.dev.Cred.GUID)
		if vb == nil {
			bad = append(bad, fmt.Sprintf("device %d: no voucher for its new credential at the owner", i))
		} else if s := lab.Agree(p.dev.Cred, p.dev, vb); s != "" {
			bad = append(bad, fmt.Sprintf("device %d: replaced voucher and new credential disagree: %s", i, s))
		}
	}
	return bad
}

type scenario struct {
	Name  string
	Bound int
	// Delay: every non-default choice costs one deviation (delay bounding), not only preemptions. With several
	// threads per device the free choices of plain preemption bounding (which thread runs when one blocks, which
	// ready select case fires) multiply beyond reach.
	Delay bool
	// run executes one controlled execution and returns violations (key, what)
	run func(choose vsync.Chooser) (vres vsync.Result, viols [][2]string, outcome string)
}

func joinThreads(fs ...func()) {
	var wg vsync.WaitGroup
	for _, f := range fs {
		wg.Add(1)
		vsync.Go(func() { defer wg.Done(); f() })
	}
	wg.Wait()
}

// resale extends the voucher the owner holds for the device's new credential to the owner's own key, so that the
// device can be onboarded again by the same owner without going back to the factory (an execution then starts from
// the state the previous one left, not from a freshly manufactured world).
func (wd *world) resale(p *party) error {
	_, err := lab.Transfer(wd.ctx, wd.w.Owner, wd.w.Owner, p.dev.Kind, p.dev.Cred.GUID)
	p.to1d = nil
	p.rec.got, p.echo = nil, nil
	return err
}

func scenarios(thorough bool) []scenario {
	var out []scenario
	for pi, pair := range kexPairs {
		if !thorough && pi >= 3 {
			break
		}
		kb := 2
		if !thorough && pi > 0 {
			kb = 1
		}
		if thorough && pi == 0 {
			kb = 3
		}
		for i := range pair {
			if a := runKex(pair[i]); a.Err != "" || !bytes.Equal(a.OwnerSEK, a.DevSEK) {
				fatal("kex pair %d exchange %d fails alone: %+v", pi, i, a)
			}
		}
		out = append(out, scenario{Name: fmt.Sprintf("kex-pair %s/%d || %s/%d", pair[0].Suite, pair[0].Cipher, pair[1].Suite, pair[1].Cipher), Bound: kb,
			run: func(choose vsync.Chooser) (vsync.Result, [][2]string, string) {
				var got [2]kexOut
				vsync.StmtYields = true
				vres := vsync.Run(choose, 400000, func() {
					joinThreads(func() { got[0] = runKex(pair[0]) }, func() { got[1] = runKex(pair[1]) })
				})
				var v [][2]string
				if len(vres.Panics) > 0 || vres.Deadlock || vres.Livelock {
					return vres, nil, "aborted"
				}
				for i, g := range got {
					want := []byte(fmt.Sprintf("payload of exchange %d", pair[i].Seed))
					switch {
					case g.Err != "":
						v = append(v, [2]string{"kex-fails-next-to-another", fmt.Sprintf("exchange %d (%s/%d) fails when run next to another exchange: %s", i, pair[i].Suite, pair[i].Cipher, g.Err)})
					case !bytes.Equal(g.OwnerSEK, g.DevSEK) || !bytes.Equal(g.OwnerSVK, g.DevSVK) || len(g.OwnerSEK) == 0:
						v = append(v, [2]string{"kex-sides-disagree", fmt.Sprintf("exchange %d (%s/%d) run next to another exchange: owner SEK %x SVK %x, device SEK %x SVK %x", i, pair[i].Suite, pair[i].Cipher, g.OwnerSEK, g.OwnerSVK, g.DevSEK, g.DevSVK)})
					case !bytes.Equal(g.Plain, mustCBOR(want)):
						v = append(v, [2]string{"kex-tunnel-garbles", fmt.Sprintf("exchange %d: decrypted %q, sent %q", i, g.Plain, want)})
					}
				}
				return vres, v, fmt.Sprintf("%v", len(v) == 0)
			}})
	}
	// two threads signing and verifying COSE_Sign1 objects with different keys and algorithms
	type signer struct {
		alg  string
		role string
	}
	signPairs := [][2]signer{{{"ec256", "device"}, {"ec384", "device2"}}, {{"rsa2048", "device"}, {"ec256", "device2"}}}
	for pi, sp := range signPairs {
		if !thorough && pi > 0 {
			break
		}
		for i := range sp {
			if e := signVerify(sp[i].alg, sp[i].role, i); e != "" {
				fatal("sign pair %d thread %d fails alone: %s", pi, i, e)
			}
		}
		out = append(out, scenario{Name: fmt.Sprintf("sign-pair %s || %s", sp[0].alg, sp[1].alg), Bound: 2,
			run: func(choose vsync.Chooser) (vsync.Result, [][2]string, string) {
				var errs [2]string
				vsync.StmtYields = true
				vres := vsync.Run(choose, 400000, func() {
					var fs []func()
					for i := range sp {
						fs = append(fs, func() { errs[i] = signVerify(sp[i].alg, sp[i].role, i) })
					}
					joinThreads(fs...)
				})
				var v [][2]string
				if len(vres.Panics) > 0 || vres.Deadlock || vres.Livelock {
					return vres, nil, "aborted"
				}
				for i, e := range errs {
					if e != "" {
						v = append(v, [2]string{"sign-fails-next-to-another", fmt.Sprintf("thread %d (%s): %s", i, sp[i].alg, e)})
					}
				}
				return vres, v, fmt.Sprintf("%v", len(v) == 0)
			}})
	}
	// onboarding phases
	type phase struct {
		name  string
		algs  []string
		n     int
		bound int
		stmt  bool
	}
	phases := []phase{{"di", []string{"ec256"}, 2, 3, false}, {"to0", []string{"ec256"}, 2, 3, false}, {"to1", []string{"ec256"}, 2, 3, false},
		{"to2", []string{"ec256"}, 2, 1, false}, {"mixed", []string{"ec256", "ec384"}, 2, 1, false}}
	if thorough {
		phases = []phase{{"di", []string{"ec256"}, 2, 5, false}, {"di", []string{"ec256", "ec384"}, 3, 4, false}, {"to0", []string{"ec256"}, 2, 5, false}, {"to1", []string{"ec256"}, 2, 5, false}, {"to1", []string{"ec256", "ec384"}, 3, 4, false},
			{"to2", []string{"ec256"}, 2, 2, false}, {"to2", []string{"ec256", "ec384"}, 2, 1, true}, {"to2", []string{"ec256"}, 3, 1, false}, {"mixed", []string{"ec256", "ec384"}, 2, 1, false}}
	}
	for _, ph := range phases {
		var wd *world // kept across executions; rebuilt after any execution that did not end cleanly
		nexec := 0
		out = append(out, scenario{Name: fmt.Sprintf("onboard %s x%d %v stmt-yields=%v", ph.name, ph.n, ph.algs, ph.stmt), Bound: ph.bound, Delay: true,
			run: func(choose vsync.Chooser) (vsync.Result, [][2]string, string) {
				to2like := ph.name == "to2" || ph.name == "mixed"
				if nexec++; nexec%worldLife == 0 {
					wd = nil // journals and wire logs grow with every execution: start over regularly
				}
				if wd == nil || !to2like {
					wd = newWorld(ph.n, ph.algs, ph.name != "di")
					if ph.name == "to1" || to2like {
						for _, p := range wd.parties {
							if err := wd.to0(p); err != nil {
								fatal("TO0: %v", err)
							}
						}
					}
				}
				if to2like {
					for _, p := range wd.parties {
						if p.to1d == nil {
							if err := wd.to0(p); err != nil {
								fatal("TO0: %v", err)
							}
							if err := wd.to1(p); err != nil {
								fatal("TO1: %v", err)
							}
						}
					}
				}
				errs := make([]error, ph.n)
				var extra *party
				if ph.name == "mixed" {
					// a further device is initialised while the first two run TO2
					extra = &party{dev: lab.NewDevice(kindsFor["ec256"], protocol.X509KeyEnc, "stranger"), rec: &rec{}}
				}
				wd.hooks(true)
				vsync.StmtYields = ph.stmt
				vres := vsync.Run(choose, 400000, func() {
					var fs []func()
					for i, p := range wd.parties {
						fs = append(fs, func() {
							switch ph.name {
							case "di":
								errs[i] = wd.di(p)
							case "to0":
								errs[i] = wd.to0(p)
							case "to1":
								errs[i] = wd.to1(p)
							case "to2", "mixed":
								s, c := suiteFor(p.dev.Kind)
								errs[i] = wd.to2(p, s, c, 0)
							}
						})
					}
					var extraErr error
					if extra != nil {
						fs = append(fs, func() { extraErr = wd.di(extra) })
					}
					joinThreads(fs...)
					if extraErr != nil {
						errs = append(errs, fmt.Errorf("concurrent DI: %w", extraErr))
					}
				})
				vsync.StmtYields = true
				wd.hooks(false)
				var v [][2]string
				if len(vres.Panics) > 0 || vres.Deadlock || vres.Livelock {
					wd = nil
					return vres, nil, "aborted"
				}
				for i, err := range errs {
					if err != nil {
						v = append(v, [2]string{"concurrent-" + ph.name + "-fails", fmt.Sprintf("device %d fails next to the others although it succeeds alone: %v", i, err)})
					}
				}
				if len(v) == 0 {
					for i, p := range wd.parties {
						chk := ph.name
						if chk == "mixed" {
							chk = "to2"
						}
						for _, b := range wd.checkParty(i, p, chk) {
							v = append(v, [2]string{"outcome-differs-from-alone", b})
						}
						if chk == "to2" {
							want := append([]byte("secret="), payloadFor(guidBefore(p))...)
							if len(p.rec.got) != 1 || !bytes.Equal(p.rec.got[0], want) {
								v = append(v, [2]string{"module-data-crosses-sessions", fmt.Sprintf("device %d's module received %q, its owner module sent %q", i, p.rec.got, want)})
							}
							if !bytes.Equal(p.echo, payloadFor(guidBefore(p))) {
								v = append(v, [2]string{"module-data-crosses-sessions", fmt.Sprintf("owner module of device %d received %q back, want %q", i, p.echo, payloadFor(guidBefore(p)))})
							}
						}
					}
					if extra != nil {
						for _, b := range wd.checkParty(len(wd.parties), extra, "di") {
							v = append(v, [2]string{"outcome-differs-from-alone", b})
						}
					}
				}
				if len(v) > 0 {
					wd = nil
				} else if to2like {
					for _, p := range wd.parties {
						if err := wd.resale(p); err != nil {
							fatal("resale: %v", err)
						}
					}
				}
				return vres, v, fmt.Sprintf("%v", len(v) == 0)
			}})
	}
	// (F) transport failure at message k of TO2 (messages 1..4 precede the pipeline's threads)
	ks := []int{5, 6, 7, 8, 9, 10}
	if thorough {
		ks = []int{2, 4, 5, 6, 7, 8, 9, 10, 11, 12}
	}
	for _, at := range ks {
		fb := 2
		if thorough && (at == 6 || at == 9) {
			fb = 3
		}
		var wd *world
		nexec := 0
		out = append(out, scenario{Name: fmt.Sprintf("to2 transport fails at message %d", at), Bound: fb, Delay: true,
			run: func(choose vsync.Chooser) (vsync.Result, [][2]string, string) {
				if nexec++; nexec%worldLife == 0 {
					wd = nil
				}
				if wd == nil {
					wd = newWorld(1, []string{"ec256"}, true)
				}
				p := wd.parties[0]
				var err error
				vsync.StmtYields = false
				vres := vsync.Run(choose, 400000, func() {
					s, c := suiteFor(p.dev.Kind)
					err = wd.to2(p, s, c, at)
				})
				vsync.StmtYields = true
				var v [][2]string
				clean := len(vres.Panics) == 0 && !vres.Deadlock && !vres.Livelock
				if clean && err == nil {
					// the run has fewer than `at` messages on this schedule: it completed; continue from the new state
					if e := wd.resale(p); e != nil {
						fatal("resale: %v", e)
					}
				}
				if !clean {
					wd = nil
				}
				p.rec.got, p.echo = nil, nil
				return vres, v, fmt.Sprintf("err=%v", err != nil)
			}})
	}
	// (P) shapes of the module conversation on one device: the module yields between and around its replies, and the
	// owner's final message (IsDone) still carries service info that the device module answers. No schedule may
	// deadlock, and the secret arrives exactly once.
	for _, sh := range []struct {
		shape int
		done  bool
	}{{1, false}, {1, true}, {2, false}, {2, true}, {0, true}} {
		var wd *world
		nexec := 0
		out = append(out, scenario{Name: fmt.Sprintf("to2 pipeline: device module shape %d, owner done with its last data=%v", sh.shape, sh.done), Bound: 1, Delay: true,
			run: func(choose vsync.Chooser) (vsync.Result, [][2]string, string) {
				if nexec++; nexec%worldLife == 0 {
					wd = nil
				}
				if wd == nil {
					wd = newWorld(1, []string{"ec256"}, true)
					wd.devShape, wd.doneWithData = sh.shape, sh.done
				}
				p := wd.parties[0]
				var err error
				vsync.StmtYields = false
				vres := vsync.Run(choose, 400000, func() {
					s, c := suiteFor(p.dev.Kind)
					err = wd.to2(p, s, c, 0)
				})
				vsync.StmtYields = true
				var v [][2]string
				clean := len(vres.Panics) == 0 && !vres.Deadlock && !vres.Livelock
				if clean {
					if err != nil {
						v = append(v, [2]string{"pipeline-to2-fails", fmt.Sprintf("TO2 fails on this schedule: %s", firstLine(err.Error()))})
					} else {
						want := append([]byte("secret="), payloadFor(guidBefore(p))...)
						if len(p.rec.got) != 1 || !bytes.Equal(p.rec.got[0], want) {
							v = append(v, [2]string{"pipeline-delivery", fmt.Sprintf("device module received %q, owner module sent %q", p.rec.got, want)})
						}
						if !sh.done && !bytes.Equal(p.echo, payloadFor(guidBefore(p))) {
							v = append(v, [2]string{"pipeline-delivery", fmt.Sprintf("owner module received %q back, want %q", p.echo, payloadFor(guidBefore(p)))})
						}
					}
				}
				if clean && err == nil && len(v) == 0 {
					if e := wd.resale(p); e != nil {
						fatal("resale: %v", e)
					}
				} else {
					wd = nil
				}
				if wd != nil {
					p.rec.got, p.echo = nil, nil
				}
				return vres, v, fmt.Sprintf("err=%v", err != nil)
			}})
	}
	out = append(out, sqlScenarios(thorough)...)
	return out
}

// guidBefore: the GUID the session ran under (the owner replaces it with a fresh one at the end of TO2).
func guidBefore(p *party) protocol.GUID { return p.guid0 }

func mustCBOR(v any) []byte {
	b, _ := cbor.Marshal(v)
	return b
}

func firstLine(s string) string {
	if i := strings.Index(s, "\n"); i > 0 {
		s = s[:i]
	}
	if i := strings.Index(s, "): "); i > 0 {
		s = s[i+3:]
	}
	if len(s) > 70 {
		s = s[:70]
	}
	return s
}

// worldLife: executions after which a scenario's deployment is rebuilt (bounds the memory its journals and logs take)
const worldLife = 150

// scenarioBudget: wall-clock budget of one scenario in one shard; reaching it is reported as a cap, never as a pass
// of the whole space.
func scenarioBudget(thorough bool) time.Duration {
	if thorough {
		return 8 * time.Minute
	}
	return 4 * time.Minute
}

func schedulesShard(shard, n int, thorough bool) *schedshard.Report {
	rep := &schedshard.Report{}
	shardStart := time.Now()
	overall := 25 * time.Minute
	if thorough {
		overall = 80 * time.Minute
	}
	for si, sc := range scenarios(thorough) {
		if only := os.Getenv("VERIF_ONLY"); only != "" && !strings.Contains(sc.Name, only) {
			continue
		}
		if time.Since(shardStart) > overall {
			rep.Capped = append(rep.Capped, fmt.Sprintf("scenario %q: not explored by shard %d, the overall wall-clock budget of the schedule exploration was used up", sc.Name, shard))
			rep.Scenarios = append(rep.Scenarios, schedshard.Scenario{Name: sc.Name, Bound: sc.Bound, Outcomes: map[string]int{}})
			continue
		}
		t0 := time.Now()
		st := schedshard.Scenario{Name: sc.Name, Bound: sc.Bound, Outcomes: map[string]int{}}
		if b := os.Getenv("VERIF_BOUND"); b != "" {
			fmt.Sscan(b, &sc.Bound)
		}
		// the body only runs the execution; what it found is committed by visit, which is called exactly once per
		// execution over all shards (shared tree nodes are re-executed by every shard but owned by one)
		var commit func()
		v0 := len(rep.Violations)
		explore.Stop = func() bool { return len(rep.Violations)-v0 >= 3 || time.Since(t0) > scenarioBudget(thorough) }
		x := explore.ExploreShard(sc.Bound, shard, n, func(c *explore.Ctx) {
			choose := c.Choose
			if sc.Delay {
				choose = func(n, cost int) int { return c.Choose(n, 1) }
			}
			vres, viols, outcome := sc.run(choose)
			commit = func() {
				st.Steps += int64(vres.Steps)
				rep.Evals++
				extra := map[string]any{"mode": "schedule", "thorough": thorough, "scenario_index": si, "scenario": sc.Name, "choices": append([]int{}, c.Choices...), "preemptions": vres.Preempts}
				add := func(k, w string) {
					rep.Violations = append(rep.Violations, schedshard.Violation{Key: k, What: "[" + sc.Name + "] " + w, Replay: extra})
				}
				switch {
				case vres.Deadlock:
					add("deadlock", fmt.Sprintf("deadlock: %v", vres.Blocked))
				case vres.Livelock:
					add("livelock", "no termination within the step horizon")
				case len(vres.Panics) > 0:
					add("panic:"+firstLine(vres.Panics[0]), vres.Panics[0])
				}
				for _, v := range viols {
					add(v[0], v[1])
				}
				st.Outcomes[outcome]++
			}
		}, func(*explore.Ctx) { commit() })
		st.Executions, st.MaxDepth = x.Executions, x.MaxDepth
		if x.Stopped && len(rep.Violations)-v0 < 3 {
			rep.Capped = append(rep.Capped, fmt.Sprintf("scenario %q: shard %d stopped at its wall-clock budget after %d executions", sc.Name, shard, x.Executions))
		}
		if os.Getenv("VERIF_PROGRESS") != "" {
			fmt.Fprintf(os.Stderr, "shard %d: %s: %d executions, depth %d, %.1fs, violations so far %d\n", shard, sc.Name, x.Executions, x.MaxDepth, time.Since(t0).Seconds(), len(rep.Violations))
		}
		rep.Diverged = append(rep.Diverged, x.Diverged...)
		rep.Scenarios = append(rep.Scenarios, st)
	}
	return rep
}

// ---------------- (R) race pass ----------------

var raceHeader = regexp.MustCompile(`(?m)^WARNING: DATA RACE`)

func racePass(thorough bool) {
	bin := "/verif/.cache/bin/c19_race"
	if _, err := os.Stat(bin); err != nil {
		r.Fatal("race binary missing: %v", err)
	}
	type cfg struct {
		n, procs, rounds int
		store            string // "" = three servers over memory stores; "sqlite" = ONE server for every role over ONE SQLite database
	}
	cfgs := []cfg{{2, 4, 2, ""}, {8, 16, 1, ""}, {16, 16, 1, ""}, {6, 16, 1, "sqlite"}}
	if thorough {
		cfgs = []cfg{{2, 2, 4, ""}, {4, 16, 4, ""}, {8, 4, 2, ""}, {16, 16, 2, ""}, {32, 16, 2, ""}, {64, 16, 2, ""}, {64, 2, 1, ""}, {2, 2, 2, "sqlite"}, {12, 16, 1, "sqlite"}, {24, 4, 1, "sqlite"}}
	}
	for _, c := range cfgs {
		cmd := exec.Command(bin, fmt.Sprint(c.n), fmt.Sprint(c.rounds), c.store)
		cmd.Env = append(os.Environ(), fmt.Sprintf("GOMAXPROCS=%d", c.procs), "GORACE=halt_on_error=0 history_size=5")
		var out bytes.Buffer
		cmd.Stdout, cmd.Stderr = &out, &out
		done := make(chan error, 1)
		if err := cmd.Start(); err != nil {
			r.Fatal("race pass: %v", err)
		}
		go func() { done <- cmd.Wait() }()
		select {
		case <-done:
		case <-time.After(20 * time.Minute):
			_ = cmd.Process.Kill()
			r.Capped(fmt.Sprintf("race pass n=%d did not finish in 20 minutes", c.n))
			continue
		}
		r.Evaluations.Add(1)
		text := out.String()
		reports := raceHeader.Split(text, -1)
		for _, rp := range reports[1:] {
			if i := strings.Index(rp, "=================="); i > 0 {
				rp = rp[:i]
			}
			// the two conflicting accesses are the first two stack blocks; each is attributed to its innermost
			// frame outside the Go distribution
			var owners []string
			for _, blk := range strings.Split(rp, "\n\n") {
				if len(owners) == 2 {
					break
				}
				if !regexp.MustCompile(`(?i)^\s*(previous )?(atomic )?(read|write) at`).MatchString(strings.TrimLeft(blk, "\n")) {
					continue
				}
				owner := ""
				for _, fm := range regexp.MustCompile(`(?m)^\s+(/[^\s]+\.go):(\d+)`).FindAllStringSubmatch(blk, -1) {
					if strings.Contains(fm[1], "/golang.org/toolchain") || strings.HasPrefix(fm[1], "/usr/") {
						continue
					}
					owner = fm[1] + ":" + fm[2]
					break
				}
				owners = append(owners, owner)
			}
			lib := ""
			for _, o := range owners {
				if strings.HasPrefix(o, "/repo/") && lib == "" {
					lib = strings.TrimPrefix(o, "/repo/")
				}
			}
			if len(rp) > 3000 {
				rp = rp[:3000]
			}
			if lib == "" {
				r.Fatal("the race detector reports a race between harness accesses %v (not library code):%s", owners, rp)
			}
			r.Violation("data-race:"+lib, fmt.Sprintf("race detector, %d concurrent devices GOMAXPROCS=%d: %s", c.n, c.procs, rp), map[string]any{"mode": "race", "devices": c.n, "gomaxprocs": c.procs})
		}
		m := regexp.MustCompile(`RESULT ok=(\d+) failed=(\d+)(.*)`).FindStringSubmatch(text)
		if m == nil {
			tail := text
			if len(tail) > 1500 {
				tail = tail[len(tail)-1500:]
			}
			r.Violation("concurrent-run-crashed", fmt.Sprintf("%d concurrent devices: the run did not complete: %s", c.n, tail), map[string]any{"mode": "race", "devices": c.n})
			continue
		}
		if m[2] != "0" {
			r.Violation("concurrent-onboarding-fails"+map[bool]string{true: ":" + c.store}[c.store != ""], fmt.Sprintf("%d concurrent devices GOMAXPROCS=%d store=%q: %s onboardings failed that succeed alone:%s", c.n, c.procs, c.store, m[2], m[3]), map[string]any{"mode": "race", "devices": c.n, "store": c.store})
		}
		r.Distinct(fmt.Sprintf("race|n=%d|procs=%d|store=%s|ok=%s", c.n, c.procs, c.store, m[1]))
		r.Add("race_pass_onboardings", int64(c.n*c.rounds))
	}
}

func main() {
	if shard, n, tier, ok := schedshard.Child(); ok {
		schedulesShard(shard, n, tier == "thorough").Emit()
	}
	r = ev.Start("C19", "model_checking")
	r.Rule("(K) two complete key exchanges (owner and device side, one encrypted message) as two threads, and two threads signing and verifying COSE_Sign1 objects, with a scheduling point before EVERY statement of internal/nistkdf, kex and cose (source rewritten at check time): all interleavings with at most 2 preemptions for the first suite/cipher pair and 1 for two more (thorough: 3 for the first, 2 for four more); each exchange must derive exactly the keys it derives alone. (S) 2 (thorough up to 3) devices against one manufacturer, rendezvous and owner server: DI||DI, TO0||TO0, TO1||TO1 (at most 3, thorough 5 deviations), TO2||TO2 with voucher replacement (1, thorough 2) and TO2||TO2||DI with mixed key types (1), delay-bounded: every departure from the default run-to-block order, preemption or not, counts as one deviation; scheduling points at every store call and every synchronisation operation of the device pipeline (thorough: one TO2||TO2 scenario also at every kex/nistkdf statement); consecutive executions continue from the state the previous one left (the owner resells the device to itself). Oracle: nobody fails, credential and stored voucher agree per device, each device module received exactly its own payload and each owner module its own echo. (F) TO2 with the transport failing at message k for k in 5..10 (thorough 2..12), all schedules of the device's threads with at most 2 deviations (thorough 3 for k=6,9): no deadlock, no panic, every thread ends (a thread left blocked for ever counts as deadlock). (Q) one server for every role over one SQLite database: the owner refreshes a registration while the registered device runs TO1, with a scheduling point before EVERY SQL statement (the store's debug log is the seam), at most 2 (thorough 3) deviations from the default order: both runs end as they do alone. (R) auxiliary free-running pass: the same onboarding bodies for 2..16 (thorough ..64) devices as real goroutines in a -race binary with several GOMAXPROCS, over three servers with memory stores and over ONE server playing every role on ONE SQLite database; every onboarding must succeed as it does alone, and a race report with go-fdo frames is a violation.")
	if r.Replay != "" {
		replay(r.Replay)
		return
	}
	thorough := !r.Quick()
	tier := "quick"
	if thorough {
		tier = "thorough"
	}
	t0 := time.Now()
	rep, err := schedshard.Fanout(16, tier, 4*time.Hour)
	if err != nil {
		r.Fatal("schedule exploration incomplete: %v", err)
	}
	if len(rep.Diverged) > 0 {
		r.Fatal("schedule replay diverged: %s", rep.Diverged[0])
	}
	r.Evaluations.Add(rep.Evals)
	for _, v := range rep.Violations {
		r.Violation(v.Key, v.What, v.Replay)
	}
	for _, c := range rep.Capped {
		r.Capped(c)
	}
	for _, sc := range rep.Scenarios {
		r.States.Add(int64(sc.Executions))
		r.Transitions.Add(sc.Steps)
		r.Sample(40, map[string]any{"scenario": sc.Name, "preemption_bound": sc.Bound, "executions": sc.Executions, "max_choice_points": sc.MaxDepth, "outcomes": sc.Outcomes})
		for o := range sc.Outcomes {
			r.Distinct("sched|" + sc.Name + "|" + o)
		}
	}
	r.Traces.Add(r.States.Load())
	r.Set("seconds_schedules", int64(time.Since(t0).Seconds()))
	t0 = time.Now()
	racePass(thorough)
	r.Set("seconds_race_pass", int64(time.Since(t0).Seconds()))
	r.Assume("statement-level interleaving is explored for internal/nistkdf and kex only; elsewhere scheduling points are store calls and synchronisation operations, and plain-memory races are left to the free-running race-detector pass, which samples schedules")
	r.Assume("the state store hands every session its own decoded copy of a voucher (as the sqlite store does); a store that shares one *Voucher object between sessions is outside the property")
	r.Finish()
}

func replay(path string) {
	b, err := os.ReadFile(path)
	if err != nil {
		r.Fatal("%v", err)
	}
	var f struct {
		Replay struct {
			Mode     string `json:"mode"`
			Thorough bool   `json:"thorough"`
			Index    int    `json:"scenario_index"`
			Choices  []int  `json:"choices"`
		} `json:"replay"`
	}
	if err := json.Unmarshal(b, &f); err != nil {
		r.Fatal("%v", err)
	}
	if f.Replay.Mode != "schedule" {
		fmt.Println("this finding comes from the free-running race pass; re-run: /verif/.cache/bin/c19_race 16 1")
		os.Exit(0)
	}
	sc := scenarios(f.Replay.Thorough)[f.Replay.Index]
	vsync.TraceOn = true
	explore.Replay(f.Replay.Choices, func(c *explore.Ctx) {
		choose := c.Choose
		if sc.Delay {
			choose = func(n, cost int) int { return c.Choose(n, 1) }
		}
		vres, viols, outcome := sc.run(choose)
		tr := vres.Trace
		if len(tr) > 150 {
			tr = tr[len(tr)-150:]
		}
		for _, l := range tr {
			fmt.Println("  ", l)
		}
		fmt.Printf("scenario %s\noutcome %s deadlock=%v livelock=%v blocked=%v panics=%v\n", sc.Name, outcome, vres.Deadlock, vres.Livelock, vres.Blocked, vres.Panics)
		for _, v := range viols {
			fmt.Printf("VIOLATION-DETAIL %s: %s\n", v[0], v[1])
		}
	})
	os.Exit(0)
}
