// Free-running auxiliary of C19, built with -race: n devices onboard concurrently (real goroutines) through one
// manufacturer, one rendezvous and one owner server. usage: c19_race <devices> <rounds>
package main

import (
	"bytes"
	"context"
	"crypto/x509"
	"fmt"
	"io"
	"os"
	"path/filepath"
	"strconv"
	"sync"

	fdo "github.com/fido-device-onboard/go-fdo"
	"github.com/fido-device-onboard/go-fdo/cbor"
	"github.com/fido-device-onboard/go-fdo/kex"
	"github.com/fido-device-onboard/go-fdo/protocol"
	"github.com/fido-device-onboard/go-fdo/serviceinfo"
	"github.com/fido-device-onboard/go-fdo/sqlite"

	"verif/internal/keys"
	"verif/internal/lab"
)

type devMod struct {
	mu  sync.Mutex
	got [][]byte
}

func (d *devMod) Transition(bool) error { return nil }
func (d *devMod) Receive(ctx context.Context, name string, body io.Reader, respond func(string) io.Writer, yield func()) error {
	b, err := io.ReadAll(body)
	if err != nil {
		return err
	}
	d.mu.Lock()
	d.got = append(d.got, append([]byte(name+"="), b...))
	d.mu.Unlock()
	_, err = respond("echo").Write(b)
	return err
}
func (d *devMod) Yield(context.Context, func(string) io.Writer, func()) error { return nil }

type ownMod struct {
	payload []byte
	state   int
}

func (m *ownMod) HandleInfo(ctx context.Context, name string, body io.Reader) error {
	_, err := io.Copy(io.Discard, body)
	return err
}
func (m *ownMod) ProduceInfo(ctx context.Context, p *serviceinfo.Producer) (bool, bool, error) {
	m.state++
	switch m.state {
	case 1:
		b, _ := cbor.Marshal(true)
		return false, false, p.WriteChunk("active", b)
	case 2:
		return false, false, p.WriteChunk("secret", m.payload)
	}
	return false, true, nil
}

// sqliteRun: the same onboardings against ONE server object that plays every role over ONE SQLite database (one
// handler, one set of responders, one state store, as the property words it).
func sqliteRun(n, rounds int) {
	ctx := context.Background()
	ok, failed := 0, 0
	var details []string
	var mu sync.Mutex
	base := "/dev/shm"
	if _, err := os.Stat(base); err != nil {
		base = "/var/tmp"
	}
	for round := 0; round < rounds; round++ {
		dir, err := os.MkdirTemp(base, "verif-c19-")
		if err != nil {
			panic(err)
		}
		db, err := sqlite.Open(filepath.Join(dir, "all.sqlite"), "")
		if err != nil {
			panic(err)
		}
		for _, kk := range keys.Kinds {
			key := keys.Get(kk.Alg, "owner1")
			chain := []*x509.Certificate{keys.SelfSigned(kk.Alg+"-owner1", key)}
			_ = db.AddOwnerKey(kk.Type, key, chain)
			_ = db.AddManufacturerKey(kk.Type, key, chain)
		}
		srv := lab.NewServer("sql", "owner1", db, noModules{})
		if os.Getenv("VERIF_PREWARM") != "" {
			if t, err := db.NewToken(ctx, protocol.DIProtocol); err == nil {
				_ = db.InvalidateToken(db.TokenContext(ctx, t))
			}
		}
		roles := []string{"device", "device2", "stranger"}
		var wg sync.WaitGroup
		for i := 0; i < n; i++ {
			wg.Add(1)
			go func(i int) {
				defer wg.Done()
				kind := keys.Kinds[i%len(keys.Kinds)]
				err := func() error {
					d := lab.NewDevice(kind, protocol.X509KeyEnc, roles[i%len(roles)])
					if err := d.DI(ctx, lab.NewWire(srv).Transport()); err != nil {
						return fmt.Errorf("DI: %w", err)
					}
					ov, err := db.RemoveVoucher(ctx, d.Cred.GUID)
					if err != nil {
						return fmt.Errorf("voucher after DI: %w", err)
					}
					x, err := lab.Extend(ov, keys.Get(kind.Alg, "owner1"), keys.Get(kind.Alg, "owner1"), kind)
					if err != nil {
						return fmt.Errorf("extend: %w", err)
					}
					if err := db.AddVoucher(ctx, x); err != nil {
						return fmt.Errorf("add voucher: %w", err)
					}
					c := &fdo.TO0Client{Vouchers: db, OwnerKeys: db, TTL: 3600}
					if _, err := c.RegisterBlob(ctx, lab.NewWire(srv).Transport(), d.Cred.GUID, lab.DefaultAddrs()); err != nil {
						return fmt.Errorf("TO0: %w", err)
					}
					to1d, err := d.TO1(ctx, lab.NewWire(srv).Transport())
					if err != nil {
						return fmt.Errorf("TO1: %w", err)
					}
					cred, err := fdo.TO2(ctx, lab.NewWire(srv).Transport(), to1d, d.TO2Config(lab.DefaultSuite(kind), kex.A128GcmCipher))
					if err != nil {
						return fmt.Errorf("TO2: %w", err)
					}
					if cred == nil {
						return fmt.Errorf("no replacement credential")
					}
					nv, err := db.Voucher(ctx, cred.GUID)
					if err != nil {
						return fmt.Errorf("replacement voucher: %w", err)
					}
					nb, _ := cbor.Marshal(nv)
					if s := lab.Agree(cred, d, nb); s != "" {
						return fmt.Errorf("voucher and credential disagree: %s", s)
					}
					return nil
				}()
				mu.Lock()
				if err != nil {
					failed++
					if len(details) < 5 {
						details = append(details, fmt.Sprintf(" [sqlite device %d: %v]", i, err))
					}
				} else {
					ok++
				}
				mu.Unlock()
			}(i)
		}
		wg.Wait()
		_ = db.Close()
		_ = os.RemoveAll(dir)
	}
	fmt.Printf("RESULT ok=%d failed=%d%s\n", ok, failed, fmt.Sprint(details))
}

type noModules struct{}

func (noModules) Module(context.Context) (string, serviceinfo.OwnerModule, error) {
	return "", nil, fmt.Errorf("no module")
}
func (noModules) NextModule(context.Context) (bool, error) { return false, nil }
func (noModules) CleanupModules(context.Context)           {}

func main() {
	n, _ := strconv.Atoi(os.Args[1])
	rounds, _ := strconv.Atoi(os.Args[2])
	if len(os.Args) > 3 && os.Args[3] == "sqlite" {
		sqliteRun(n, rounds)
		return
	}
	ctx := context.Background()
	ok, failed := 0, 0
	var details []string
	var mu sync.Mutex
	for round := 0; round < rounds; round++ {
		w := lab.NewWorld(keys.Kinds[0], protocol.X509KeyEnc)
		w.Owner.Mem.OwnerModules = func(ctx context.Context, guid protocol.GUID, _ serviceinfo.Devmod, _ []string) []lab.NamedModule {
			return []lab.NamedModule{{Name: "m", Mod: &ownMod{payload: append([]byte("for-"), guid[:]...)}}}
		}
		ciphers := []kex.CipherSuiteID{kex.A128GcmCipher, kex.CoseAes256CbcCipher, kex.CoseAes128CtrCipher, kex.A256GcmCipher, kex.CoseAes128CbcCipher, kex.CoseAes256CtrCipher}
		roles := []string{"device", "device2", "stranger"}
		var wg sync.WaitGroup
		for i := 0; i < n; i++ {
			wg.Add(1)
			go func(i int) {
				defer wg.Done()
				kind := keys.Kinds[i%len(keys.Kinds)]
				sc := struct {
					suite  kex.Suite
					cipher kex.CipherSuiteID
				}{lab.DefaultSuite(kind), ciphers[(i/len(keys.Kinds)+i)%len(ciphers)]}
				err := func() error {
					d := lab.NewDevice(kind, protocol.X509KeyEnc, roles[i%len(roles)])
					if err := d.DI(ctx, lab.NewWire(w.Mfg).Transport()); err != nil {
						return fmt.Errorf("DI: %w", err)
					}
					if _, err := lab.Transfer(ctx, w.Mfg, w.Owner, kind, d.Cred.GUID); err != nil {
						return fmt.Errorf("transfer: %w", err)
					}
					c := &fdo.TO0Client{Vouchers: w.Owner.State, OwnerKeys: w.Owner.State}
					if _, err := c.RegisterBlob(ctx, lab.NewWire(w.RV).Transport(), d.Cred.GUID, lab.DefaultAddrs()); err != nil {
						return fmt.Errorf("TO0: %w", err)
					}
					to1d, err := d.TO1(ctx, lab.NewWire(w.RV).Transport())
					if err != nil {
						return fmt.Errorf("TO1: %w", err)
					}
					old := d.Cred.GUID
					cfg := d.TO2Config(sc.suite, sc.cipher)
					m := &devMod{}
					cfg.DeviceModules = map[string]serviceinfo.DeviceModule{"m": m}
					cred, err := fdo.TO2(ctx, lab.NewWire(w.Owner).Transport(), to1d, cfg)
					if err != nil {
						return fmt.Errorf("TO2 %s/%d: %w", sc.suite, sc.cipher, err)
					}
					if cred != nil {
						d.Cred = cred
					}
					want := append([]byte("secret=for-"), old[:]...)
					if len(m.got) != 1 || !bytes.Equal(m.got[0], want) {
						return fmt.Errorf("module data crossed sessions: got %q want %q", m.got, want)
					}
					vb, _ := w.Owner.Mem.VoucherBytes(d.Cred.GUID)
					if vb == nil {
						return fmt.Errorf("no voucher for the new credential at the owner")
					}
					if s := lab.Agree(d.Cred, d, vb); s != "" {
						return fmt.Errorf("voucher and credential disagree: %s", s)
					}
					return nil
				}()
				mu.Lock()
				if err != nil {
					failed++
					if len(details) < 5 {
						details = append(details, fmt.Sprintf(" [device %d: %v]", i, err))
					}
				} else {
					ok++
				}
				mu.Unlock()
			}(i)
		}
		wg.Wait()
	}
	fmt.Printf("RESULT ok=%d failed=%d%s\n", ok, failed, fmt.Sprint(details))
}
