// Free-running auxiliary of C19, built with -race: n devices onboard concurrently (real goroutines) through one
// manufacturer, one rendezvous and one owner server. usage: c19_race <devices> <rounds>
package main

import (
	"bytes"
	"context"
	"fmt"
	"io"
	"os"
	"strconv"
	"sync"

	fdo "github.com/fido-device-onboard/go-fdo"
	"github.com/fido-device-onboard/go-fdo/cbor"
	"github.com/fido-device-onboard/go-fdo/kex"
	"github.com/fido-device-onboard/go-fdo/protocol"
	"github.com/fido-device-onboard/go-fdo/serviceinfo"

	"verif/internal/keys"
	"verif/internal/lab"
)

type devMod struct {
	mu  sync.Mutex
	got [][]byte
}

func (d *devMod) Transition(bool) error { return nil }
func (d *devMod) Receive(ctx context.Context, name string, body io.Reader, respond func(string) io.Writer, yield func()) error {
	b, err := io.ReadAll(body)
	if err != nil {
		return err
	}
	d.mu.Lock()
	d.got = append(d.got, append([]byte(name+"="), b...))
	d.mu.Unlock()
	_, err = respond("echo").Write(b)
	return err
}
func (d *devMod) Yield(context.Context, func(string) io.Writer, func()) error { return nil }

type ownMod struct {
	payload []byte
	state   int
}

func (m *ownMod) HandleInfo(ctx context.Context, name string, body io.Reader) error {
	_, err := io.Copy(io.Discard, body)
	return err
}
func (m *ownMod) ProduceInfo(ctx context.Context, p *serviceinfo.Producer) (bool, bool, error) {
	m.state++
	switch m.state {
	case 1:
		b, _ := cbor.Marshal(true)
		return false, false, p.WriteChunk("active", b)
	case 2:
		return false, false, p.WriteChunk("secret", m.payload)
	}
	return false, true, nil
}

func main() {
	n, _ := strconv.Atoi(os.Args[1])
	rounds, _ := strconv.Atoi(os.Args[2])
	ctx := context.Background()
	ok, failed := 0, 0
	var details []string
	var mu sync.Mutex
	for round := 0; round < rounds; round++ {
		w := lab.NewWorld(keys.Kinds[0], protocol.X509KeyEnc)
		w.Owner.Mem.OwnerModules = func(ctx context.Context, guid protocol.GUID, _ serviceinfo.Devmod, _ []string) []lab.NamedModule {
			return []lab.NamedModule{{Name: "m", Mod: &ownMod{payload: append([]byte("for-"), guid[:]...)}}}
		}
		ciphers := []kex.CipherSuiteID{kex.A128GcmCipher, kex.CoseAes256CbcCipher, kex.CoseAes128CtrCipher, kex.A256GcmCipher, kex.CoseAes128CbcCipher, kex.CoseAes256CtrCipher}
		roles := []string{"device", "device2", "stranger"}
		var wg sync.WaitGroup
		for i := 0; i < n; i++ {
			wg.Add(1)
			go func(i int) {
				defer wg.Done()
				kind := keys.Kinds[i%len(keys.Kinds)]
				sc := struct {
					suite  kex.Suite
					cipher kex.CipherSuiteID
				}{lab.DefaultSuite(kind), ciphers[(i/len(keys.Kinds)+i)%len(ciphers)]}
				err := func() error {
					d := lab.NewDevice(kind, protocol.X509KeyEnc, roles[i%len(roles)])
					if err := d.DI(ctx, lab.NewWire(w.Mfg).Transport()); err != nil {
						return fmt.Errorf("DI: %w", err)
					}
					if _, err := lab.Transfer(ctx, w.Mfg, w.Owner, kind, d.Cred.GUID); err != nil {
						return fmt.Errorf("transfer: %w", err)
					}
					c := &fdo.TO0Client{Vouchers: w.Owner.State, OwnerKeys: w.Owner.State}
					if _, err := c.RegisterBlob(ctx, lab.NewWire(w.RV).Transport(), d.Cred.GUID, lab.DefaultAddrs()); err != nil {
						return fmt.Errorf("TO0: %w", err)
					}
					to1d, err := d.TO1(ctx, lab.NewWire(w.RV).Transport())
					if err != nil {
						return fmt.Errorf("TO1: %w", err)
					}
					old := d.Cred.GUID
					cfg := d.TO2Config(sc.suite, sc.cipher)
					m := &devMod{}
					cfg.DeviceModules = map[string]serviceinfo.DeviceModule{"m": m}
					cred, err := fdo.TO2(ctx, lab.NewWire(w.Owner).Transport(), to1d, cfg)
					if err != nil {
						return fmt.Errorf("TO2 %s/%d: %w", sc.suite, sc.cipher, err)
					}
					if cred != nil {
						d.Cred = cred
					}
					want := append([]byte("secret=for-"), old[:]...)
					if len(m.got) != 1 || !bytes.Equal(m.got[0], want) {
						return fmt.Errorf("module data crossed sessions: got %q want %q", m.got, want)
					}
					vb, _ := w.Owner.Mem.VoucherBytes(d.Cred.GUID)
					if vb == nil {
						return fmt.Errorf("no voucher for the new credential at the owner")
					}
					if s := lab.Agree(d.Cred, d, vb); s != "" {
						return fmt.Errorf("voucher and credential disagree: %s", s)
					}
					return nil
				}()
				mu.Lock()
				if err != nil {
					failed++
					if len(details) < 5 {
						details = append(details, fmt.Sprintf(" [device %d: %v]", i, err))
					}
				} else {
					ok++
				}
				mu.Unlock()
			}(i)
		}
		wg.Wait()
	}
	fmt.Printf("RESULT ok=%d failed=%d%s\n", ok, failed, fmt.Sprint(details))
}
