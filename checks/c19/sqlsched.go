package main

// (Q) ONE server for every role over ONE SQLite database; the owner refreshes the registration of a device (TO0)
// while that device runs TO1. The store announces every SQL statement to its debug log before executing it (no
// connection is held at that moment), and the log writer is a scheduling point: every interleaving of the two
// protocol runs at statement granularity within the delay bound is executed. A registered device gets its redirect
// on every schedule, as it does alone, and the refresh succeeds.

import (
	"context"
	"crypto/x509"
	"fmt"
	"os"
	"path/filepath"

	fdo "github.com/fido-device-onboard/go-fdo"
	"github.com/fido-device-onboard/go-fdo/protocol"
	"github.com/fido-device-onboard/go-fdo/serviceinfo"
	"github.com/fido-device-onboard/go-fdo/sqlite"
	vsync "github.com/fido-device-onboard/go-fdo/zzvsync"

	"verif/internal/keys"
	"verif/internal/lab"
)

type yieldWriter struct{}

func (yieldWriter) Write(p []byte) (int, error) { vsync.Yield(); return len(p), nil }

type sqlNoMods struct{}

func (sqlNoMods) Module(context.Context) (string, serviceinfo.OwnerModule, error) {
	return "", nil, fmt.Errorf("no module")
}
func (sqlNoMods) NextModule(context.Context) (bool, error) { return false, nil }
func (sqlNoMods) CleanupModules(context.Context)           {}

type sqlWorld struct {
	dir string
	db  *sqlite.DB
	srv *lab.Server
	dev *lab.Device
}

func newSQLWorld() *sqlWorld {
	ctx := context.Background()
	base := "/dev/shm"
	if _, err := os.Stat(base); err != nil {
		base = "/var/tmp"
	}
	dir, err := os.MkdirTemp(base, "verif-c19q-")
	if err != nil {
		fatal("%v", err)
	}
	db, err := sqlite.Open(filepath.Join(dir, "all.sqlite"), "")
	if err != nil {
		fatal("sqlite: %v", err)
	}
	k := keys.KindByName("ec256")
	for _, kk := range keys.Kinds {
		key := keys.Get(kk.Alg, "owner1")
		chain := []*x509.Certificate{keys.SelfSigned(kk.Alg+"-owner1", key)}
		_ = db.AddOwnerKey(kk.Type, key, chain)
		_ = db.AddManufacturerKey(kk.Type, key, chain)
	}
	w := &sqlWorld{dir: dir, db: db, srv: lab.NewServer("sql", "owner1", db, sqlNoMods{}), dev: lab.NewDevice(k, protocol.X509KeyEnc, "device")}
	if err := w.dev.DI(ctx, lab.NewWire(w.srv).Transport()); err != nil {
		fatal("sqlite world: DI: %v", err)
	}
	ov, err := db.RemoveVoucher(ctx, w.dev.Cred.GUID)
	if err != nil {
		fatal("sqlite world: %v", err)
	}
	xv, err := lab.Extend(ov, keys.Get(k.Alg, "owner1"), keys.Get(k.Alg, "owner1"), k)
	if err != nil {
		fatal("sqlite world: %v", err)
	}
	if err := db.AddVoucher(ctx, xv); err != nil {
		fatal("sqlite world: %v", err)
	}
	if err := w.register(); err != nil {
		fatal("sqlite world: first TO0: %v", err)
	}
	return w
}

func (w *sqlWorld) register() error {
	c := &fdo.TO0Client{Vouchers: w.db, OwnerKeys: w.db, TTL: 3600}
	_, err := c.RegisterBlob(context.Background(), lab.NewWire(w.srv).Transport(), w.dev.Cred.GUID, lab.DefaultAddrs())
	return err
}

func (w *sqlWorld) close() {
	_ = w.db.Close()
	_ = os.RemoveAll(w.dir)
}

// freshSQLServer: a server over a database file that has never been used (no token secret, no rows).
func freshSQLServer() (*sqlite.DB, *lab.Server, string) {
	base := "/dev/shm"
	if _, err := os.Stat(base); err != nil {
		base = "/var/tmp"
	}
	dir, err := os.MkdirTemp(base, "verif-c19f-")
	if err != nil {
		fatal("%v", err)
	}
	db, err := sqlite.Open(filepath.Join(dir, "fresh.sqlite"), "")
	if err != nil {
		fatal("sqlite: %v", err)
	}
	for _, kk := range keys.Kinds {
		key := keys.Get(kk.Alg, "owner1")
		chain := []*x509.Certificate{keys.SelfSigned(kk.Alg+"-owner1", key)}
		_ = db.AddOwnerKey(kk.Type, key, chain)
		_ = db.AddManufacturerKey(kk.Type, key, chain)
	}
	return db, lab.NewServer("sql", "owner1", db, sqlNoMods{}), dir
}

func sqlScenarios(thorough bool) []scenario {
	bound := 2
	if thorough {
		bound = 3
	}
	var w *sqlWorld
	nexec := 0
	first := scenario{Name: "sqlite: the first two DI sessions of a database that was never used, scheduling point before every SQL statement", Bound: bound, Delay: true,
		run: func(choose vsync.Chooser) (vsync.Result, [][2]string, string) {
			db, srv, dir := freshSQLServer()
			defer func() { _ = db.Close(); _ = os.RemoveAll(dir) }()
			k := keys.KindByName("ec256")
			devs := []*lab.Device{lab.NewDevice(k, protocol.X509KeyEnc, "device"), lab.NewDevice(k, protocol.X509KeyEnc, "device2")}
			var errs [2]error
			db.DebugLog = yieldWriter{}
			vsync.StmtYields = false
			vres := vsync.Run(choose, 400000, func() {
				joinThreads(
					func() { errs[0] = devs[0].DI(context.Background(), lab.NewWire(srv).Transport()) },
					func() { errs[1] = devs[1].DI(context.Background(), lab.NewWire(srv).Transport()) },
				)
			})
			vsync.StmtYields = true
			db.DebugLog = nil
			var v [][2]string
			if len(vres.Panics) == 0 && !vres.Deadlock && !vres.Livelock {
				for i, e := range errs {
					if e != nil {
						v = append(v, [2]string{"outcome-differs-from-alone:first-sessions-of-a-fresh-database", fmt.Sprintf("device %d fails DI when it is one of the first two sessions of a fresh database: %s", i, firstLine(e.Error()))})
					}
				}
			}
			return vres, v, fmt.Sprintf("di0=%v di1=%v", errs[0] == nil, errs[1] == nil)
		}}
	return []scenario{first, {Name: "sqlite: TO0 refresh || TO1 of the same device, scheduling point before every SQL statement", Bound: bound, Delay: true,
		run: func(choose vsync.Chooser) (vsync.Result, [][2]string, string) {
			if nexec++; nexec%worldLife == 0 && w != nil {
				w.close()
				w = nil
			}
			if w == nil {
				w = newSQLWorld()
			}
			var errTO0, errTO1 error
			w.db.DebugLog = yieldWriter{}
			vsync.StmtYields = false
			vres := vsync.Run(choose, 400000, func() {
				joinThreads(
					func() { errTO0 = w.register() },
					func() { _, errTO1 = w.dev.TO1(context.Background(), lab.NewWire(w.srv).Transport()) },
				)
			})
			vsync.StmtYields = true
			w.db.DebugLog = nil
			var v [][2]string
			clean := len(vres.Panics) == 0 && !vres.Deadlock && !vres.Livelock
			if clean {
				if errTO1 != nil {
					v = append(v, [2]string{"outcome-differs-from-alone:to1-during-refresh", fmt.Sprintf("a registered device was refused its redirect while its owner refreshed the registration: %s", firstLine(errTO1.Error()))})
				}
				if errTO0 != nil {
					v = append(v, [2]string{"outcome-differs-from-alone:refresh-during-to1", fmt.Sprintf("the owner's refresh failed while the device ran TO1: %s", firstLine(errTO0.Error()))})
				}
			}
			if !clean || len(v) > 0 {
				w.close()
				w = nil
			}
			return vres, v, fmt.Sprintf("to0=%v to1=%v", errTO0 == nil, errTO1 == nil)
		}}}
}
