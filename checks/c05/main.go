// C05 — TO2 messages after ProveDevice are confidential and tamper-evident.
//
// Layer A (crypter seam): for all 6 key exchanges x 7 cipher suites, sessions established by the real
// Parameter/SetParameter; every bit of every encrypted message and a finite set of structural downgrade
// operators is delivered to the real peer Decrypt. Layer B (protocol seam): the same operators applied to
// each encrypted message of a real TO2 run over the HTTP transport in the lab.
package main

import (
	"bytes"
	"context"
	"crypto/rand"
	"crypto/rsa"
	"encoding/hex"
	"fmt"
	"io"
	"sync"

	fdo "github.com/fido-device-onboard/go-fdo"
	"github.com/fido-device-onboard/go-fdo/cbor"
	"github.com/fido-device-onboard/go-fdo/kex"
	"github.com/fido-device-onboard/go-fdo/protocol"

	"verif/internal/ev"
	"verif/internal/keys"
	"verif/internal/lab"
	"verif/internal/probe"
	rc "verif/internal/refcbor"
)

var r *ev.Run

var suites = []kex.Suite{kex.ECDH256Suite, kex.ECDH384Suite, kex.DHKEXid14Suite, kex.DHKEXid15Suite, kex.ASYMKEX2048Suite, kex.ASYMKEX3072Suite}
var ciphers = []kex.CipherSuiteID{kex.A128GcmCipher, kex.A192GcmCipher, kex.A256GcmCipher, kex.CoseAes128CbcCipher, kex.CoseAes128CtrCipher, kex.CoseAes256CbcCipher, kex.CoseAes256CtrCipher}

func establish(s kex.Suite, c kex.CipherSuiteID) (owner, dev kex.Session, err error) {
	var key *rsa.PrivateKey
	var pub *rsa.PublicKey
	switch s {
	case kex.ASYMKEX2048Suite:
		key = keys.Get("rsa2048", "owner1").(*rsa.PrivateKey)
	case kex.ASYMKEX3072Suite:
		key = keys.Get("rsa3072", "owner1").(*rsa.PrivateKey)
	}
	if key != nil {
		pub = &key.PublicKey
	}
	owner = s.New(nil, c)
	xA, err := owner.Parameter(rand.Reader, pub)
	if err != nil {
		return nil, nil, err
	}
	dev = s.New(bytes.Clone(xA), c)
	xB, err := dev.Parameter(rand.Reader, pub)
	if err != nil {
		return nil, nil, err
	}
	return owner, dev, owner.SetParameter(bytes.Clone(xB), key)
}

var ivMu sync.Mutex
var ivSeen = map[string]string{}

// noteIVs records every IV header value (label 5) found in a wire object; a repeat is a violation.
func noteIVs(where string, wire []byte) {
	it, _, err := rc.Parse(wire)
	if err != nil {
		return
	}
	var walk func(x *rc.Item)
	walk = func(x *rc.Item) {
		if x.Kind == rc.Map {
			for i := 0; i+1 < len(x.Items); i += 2 {
				if k := x.Items[i]; k.Kind == rc.Uint && k.U == 5 && x.Items[i+1].Kind == rc.Bytes {
					iv := hex.EncodeToString(x.Items[i+1].B)
					ivMu.Lock()
					if prev, dup := ivSeen[iv]; dup {
						r.Violation("iv-reused", fmt.Sprintf("IV %s used for two messages (%s and %s)", iv, prev, where), map[string]any{"iv": iv})
					}
					ivSeen[iv] = where
					ivMu.Unlock()
				}
			}
		}
		if x.Kind == rc.Bytes {
			if in, n, err := rc.Parse(x.B); err == nil && n == len(x.B) && (in.Kind == rc.Array || in.Kind == rc.Map) {
				walk(in)
			}
		}
		for _, c := range x.Items {
			walk(c)
		}
	}
	walk(it)
}

type mutant struct {
	op   string
	wire []byte
}

// structural downgrade / confusion operators on a wire object (tag 16 Encrypt0 or tag 17 Mac0 wrapping one).
func structural(wire []byte, otherSession []byte, plaintext []byte) []mutant {
	var out []mutant
	add := func(op string, it *rc.Item) { out = append(out, mutant{op, rc.Encode(it)}) }
	top, _, err := rc.Parse(wire)
	if err != nil || top.Kind != rc.Tag {
		return nil
	}
	arr := top.Items[0]
	enc0 := func() (*rc.Item, func(*rc.Item) *rc.Item) { // returns the Encrypt0 array and a re-wrapper
		if top.U == 16 {
			return arr.Clone(), func(e *rc.Item) *rc.Item { return rc.Tg(16, e) }
		}
		inner, _, _ := rc.Parse(arr.Items[2].B)
		return inner, func(e *rc.Item) *rc.Item {
			a := arr.Clone()
			a.Items[2] = rc.Bs(rc.Encode(e))
			return rc.Tg(17, a)
		}
	}
	e, wrap := enc0()
	if top.U == 17 {
		add("strip-mac0", rc.Tg(16, e.Clone()))
		a := arr.Clone()
		a.Items[3] = rc.Bs(nil)
		add("mac0-empty-tag", rc.Tg(17, a))
		a = arr.Clone()
		a.Items[3] = rc.Bs(bytes.Repeat([]byte{0}, len(arr.Items[3].B)))
		add("mac0-zero-tag", rc.Tg(17, a))
		a = arr.Clone()
		a.Items[3] = rc.Bs(arr.Items[3].B[:len(arr.Items[3].B)-1])
		add("mac0-short-tag", rc.Tg(17, a))
		a = arr.Clone()
		a.Items[2] = rc.Null()
		add("mac0-null-payload", rc.Tg(17, a))
	} else {
		add("wrap-in-mac0-empty-tag", rc.Tg(17, rc.A(rc.Bs(nil), rc.M(), rc.Bs(rc.Encode(arr)), rc.Bs(nil))))
		add("wrap-in-mac0-garbage-tag", rc.Tg(17, rc.A(rc.Bs(rc.Encode(rc.M(rc.U(1), rc.U(5)))), rc.M(), rc.Bs(rc.Encode(arr)), rc.Bs(bytes.Repeat([]byte{7}, 32)))))
	}
	for _, tn := range []uint64{16, 17, 18, 96, 97, 0} {
		if tn != top.U {
			add(fmt.Sprintf("retag-%d", tn), rc.Tg(tn, arr.Clone()))
		}
	}
	out = append(out, mutant{"untagged", rc.Encode(arr)})
	// header manipulations on the Encrypt0
	hdr := func(op string, f func(prot *rc.Item, unprot *rc.Item) (*rc.Item, *rc.Item)) {
		c := e.Clone()
		var prot *rc.Item
		if len(c.Items[0].B) > 0 {
			prot, _, _ = rc.Parse(c.Items[0].B)
		} else {
			prot = rc.M()
		}
		p2, u2 := f(prot, c.Items[1])
		if len(p2.Items) == 0 {
			c.Items[0] = rc.Bs(nil)
		} else {
			c.Items[0] = rc.Bs(rc.Encode(p2))
		}
		c.Items[1] = u2
		add(op, wrap(c))
	}
	del := func(m *rc.Item, label uint64) (*rc.Item, *rc.Item) {
		o := rc.M()
		var val *rc.Item
		for i := 0; i+1 < len(m.Items); i += 2 {
			if m.Items[i].Kind == rc.Uint && m.Items[i].U == label {
				val = m.Items[i+1]
				continue
			}
			o.Items = append(o.Items, m.Items[i], m.Items[i+1])
		}
		return o, val
	}
	set := func(m *rc.Item, label uint64, v *rc.Item) *rc.Item {
		o, _ := del(m, label)
		o.Items = append(o.Items, rc.U(label), v)
		return o
	}
	hdr("iv-dropped", func(p, u *rc.Item) (*rc.Item, *rc.Item) { u2, _ := del(u, 5); return p, u2 })
	for _, l := range []int{0, 1, 8, 11, 12, 13, 15, 16, 17, 32} {
		hdr(fmt.Sprintf("iv-len%d", l), func(p, u *rc.Item) (*rc.Item, *rc.Item) { return p, set(u, 5, rc.Bs(bytes.Repeat([]byte{1}, l))) })
	}
	hdr("iv-wrong-type", func(p, u *rc.Item) (*rc.Item, *rc.Item) { return p, set(u, 5, rc.U(5)) })
	hdr("alg-dropped", func(p, u *rc.Item) (*rc.Item, *rc.Item) { p2, _ := del(p, 1); u2, _ := del(u, 1); return p2, u2 })
	hdr("alg-moved", func(p, u *rc.Item) (*rc.Item, *rc.Item) {
		p2, pv := del(p, 1)
		u2, uv := del(u, 1)
		if pv != nil {
			return p2, set(u2, 1, pv)
		}
		if uv != nil {
			return set(p2, 1, uv), u2
		}
		return p, u
	})
	for _, id := range []*rc.Item{rc.U(1), rc.U(2), rc.U(3), rc.U(10), rc.U(30), rc.N(65533), rc.N(65531), rc.N(65530), rc.N(65528), rc.U(0), rc.N(0), rc.U(9999), rc.T("A128GCM")} {
		hdr("alg<-"+id.String(), func(p, u *rc.Item) (*rc.Item, *rc.Item) {
			if _, pv := del(p, 1); pv != nil {
				if rc.Equal(pv, id) {
					return p, u
				}
				return set(p, 1, id), u
			}
			if _, uv := del(u, 1); uv != nil && rc.Equal(uv, id) {
				return p, u
			}
			return p, set(u, 1, id)
		})
	}
	// injection into header maps no authentication covers: the unprotected map of the outer COSE_Mac0 and of the
	// COSE_Encrypt0. Every label 1..7 (alg, crit, content type, kid, IV, partial IV, countersignature) x values derived
	// from the message's own IV and algorithm: whatever the receiver does with such an entry, it must fail or return
	// the sender's plaintext.
	{
		var iv []byte
		find := func(m *rc.Item) {
			for i := 0; m != nil && i+1 < len(m.Items); i += 2 {
				if m.Items[i].Kind == rc.Uint && m.Items[i].U == 5 && m.Items[i+1].Kind == rc.Bytes {
					iv = m.Items[i+1].B
				}
			}
		}
		find(e.Items[1])
		if len(e.Items[0].B) > 0 {
			if pm, _, err := rc.Parse(e.Items[0].B); err == nil {
				find(pm)
			}
		}
		type nv struct {
			name string
			v    *rc.Item
		}
		vals := []nv{{"empty", rc.Bs(nil)}, {"zero16", rc.Bs(make([]byte, 16))}, {"zero12", rc.Bs(make([]byte, 12))}, {"int1", rc.U(1)}, {"alg-gcm", rc.U(1)}, {"alg-ctr", rc.N(65533)}, {"alg-cbc", rc.N(65530)}, {"null", rc.Null()}}
		if len(iv) > 0 {
			vals = append(vals, nv{"iv-same", rc.Bs(iv)}, nv{"iv-bit0", rc.Bs(flip(iv, 0))}, nv{"iv-bitlast", rc.Bs(flip(iv, len(iv)*8-1))}, nv{"iv-bit7", rc.Bs(flip(iv, 7))}, nv{"iv-shorter", rc.Bs(iv[:len(iv)-1])})
		}
		for label := uint64(1); label <= 7; label++ {
			for _, x := range vals {
				if top.U == 17 {
					a := arr.Clone()
					a.Items[1] = set(a.Items[1], label, x.v)
					add(fmt.Sprintf("mac0-unprot-inject:%d:%s", label, x.name), rc.Tg(17, a))
				}
				if label != 5 && label != 1 {
					c := e.Clone()
					c.Items[1] = set(c.Items[1], label, x.v)
					add(fmt.Sprintf("enc0-unprot-inject:%d:%s", label, x.name), wrap(c))
				}
			}
		}
	}
	// pairs (bound 2): a weakened MAC tag together with an altered inner message. A receiver whose MAC comparison
	// degenerates for some tag shape (empty, shortened, zeroed) accepts the genuine payload under it unchanged, which
	// is no different content yet; only together with a change of ciphertext or IV does it accept other content.
	if top.U == 17 && arr.Items[2].Kind == rc.Bytes && len(arr.Items[3].B) > 0 {
		tagv := arr.Items[3].B
		tags := map[string][]byte{"empty": nil, "first1": tagv[:1], "half": tagv[:len(tagv)/2], "minus1": tagv[:len(tagv)-1], "zero": make([]byte, len(tagv)), "plus1": append(bytes.Clone(tagv), 0)}
		payload := arr.Items[2].B
		var alts [][2]any
		for _, bit := range []int{0, 7, len(payload)*8 - 1, len(payload)*8 - 9, len(payload) * 4} {
			if bit >= 0 && bit < len(payload)*8 {
				alts = append(alts, [2]any{fmt.Sprintf("payloadbit%d", bit), flip(payload, bit)})
			}
		}
		for tn, tv := range tags {
			for _, al := range alts {
				a := arr.Clone()
				a.Items[2] = rc.Bs(al[1].([]byte))
				a.Items[3] = rc.Bs(tv)
				add("pair:mac0-tag-"+tn+"+"+al[0].(string), rc.Tg(17, a))
			}
		}
	}
	// ciphertext manipulations
	ct := func(op string, v *rc.Item) {
		c := e.Clone()
		c.Items[2] = v
		add(op, wrap(c))
	}
	ct("ciphertext-null", rc.Null())
	ct("ciphertext-empty", rc.Bs(nil))
	if n := len(e.Items[2].B); n > 1 {
		ct("ciphertext-truncated-1", rc.Bs(e.Items[2].B[:n-1]))
		ct("ciphertext-truncated-half", rc.Bs(e.Items[2].B[:n/2]))
		ct("ciphertext-extended", rc.Bs(append(bytes.Clone(e.Items[2].B), 0)))
		ct("ciphertext-1byte", rc.Bs(e.Items[2].B[:1]))
		ct("ciphertext-15bytes", rc.Bs(bytes.Repeat([]byte{3}, 15)))
		ct("ciphertext-16bytes", rc.Bs(bytes.Repeat([]byte{3}, 16)))
	}
	if otherSession != nil {
		out = append(out, mutant{"cross-session", otherSession})
	}
	out = append(out, mutant{"plaintext-substitution", plaintext})
	return out
}

func flip(b []byte, i int) []byte {
	o := bytes.Clone(b)
	o[i/8] ^= 1 << (i % 8)
	return o
}

func layerA(s kex.Suite, c kex.CipherSuiteID, sizes []int) {
	owner, dev, err := establish(s, c)
	if err != nil {
		r.Violation("establish:"+string(s), fmt.Sprintf("%s/%s: %v", s, c, err), nil)
		return
	}
	owner2, dev2, err := establish(s, c) // a second, unrelated session of the same suite
	if err != nil {
		return
	}
	_ = dev2
	for dir, pair := range [][2]kex.Session{{owner, dev}, {dev, owner}} {
		for _, n := range sizes {
			payload := make([]byte, n)
			for i := range payload {
				payload[i] = byte(0x41 + i%23)
			}
			plain, _ := cbor.Marshal(payload)
			enc, err := pair[0].Encrypt(rand.Reader, payload)
			if err != nil {
				r.Violation("encrypt-fails:"+c.String(), fmt.Sprintf("%s/%s: %v", s, c, err), nil)
				continue
			}
			wire, _ := cbor.Marshal(enc)
			id := fmt.Sprintf("%s/%s dir%d len%d", s, c, dir, n)
			noteIVs(id, wire)
			if top, _, _ := rc.Parse(wire); top == nil || top.Kind != rc.Tag || (top.U != 16 && top.U != 17) {
				r.Violation("not-cose-wrapped:"+c.String(), id+": protected message is not a tag 16/17 object", nil)
			}
			if n >= 15 && bytes.Contains(wire, payload) {
				r.Violation("plaintext-on-wire:"+c.String(), id+": plaintext appears in the protected message", nil)
			}
			other, _ := owner2.Encrypt(rand.Reader, append([]byte("other session "), payload...))
			otherWire, _ := cbor.Marshal(other)
			deliver := func(op string, w []byte, genuine bool) {
				r.Evaluations.Add(1)
				var out []byte
				var derr error
				repl := map[string]any{"suite": string(s), "cipher": c.String(), "dir": dir, "len": n, "op": op, "wire_hex": hex.EncodeToString(w)}
				if p := probe.Call(func() { out, derr = pair[1].Decrypt(rand.Reader, bytes.NewReader(w)) }); p != nil {
					r.Violation(p.Key(), fmt.Sprintf("%s op=%s: Decrypt panics: %s in %s", id, op, p.Value, p.Frame), repl)
					return
				}
				switch {
				case genuine && (derr != nil || !bytes.Equal(out, plain)):
					r.Violation("genuine-rejected:"+c.String(), fmt.Sprintf("%s: genuine message not decrypted: %v", id, derr), repl)
				case !genuine && derr == nil && !bytes.Equal(out, plain):
					cls := op
					if len(op) > 3 && op[:3] == "bit" {
						cls = "bitflip"
					}
					r.Violation("accepts-altered:"+cls, fmt.Sprintf("%s op=%s: Decrypt accepted an altered message and returned %x instead of %x", id, op, out, plain), repl)
				}
				if derr == nil {
					r.Distinct(id + "|accepted|" + op)
				} else {
					r.Distinct(fmt.Sprintf("%s|%d|rejected|%s", c, n, classOp(op)))
				}
			}
			deliver("genuine", wire, true)
			for i := 0; i < len(wire)*8; i++ {
				w := bytes.Clone(wire)
				w[i/8] ^= 1 << (i % 8)
				deliver(fmt.Sprintf("bit%d", i), w, false)
			}
			for _, m := range structural(wire, otherWire, plain) {
				deliver(m.op, m.wire, false)
			}
			// replay of the genuine message is outside this property (no anti-replay claim): not asserted
		}
	}
}

// oneByteReader answers every Read with a single byte (legal for an io.Reader).
type oneByteReader struct{ r io.Reader }

func (o oneByteReader) Read(p []byte) (int, error) {
	if len(p) == 0 {
		return 0, nil
	}
	return o.r.Read(p[:1])
}

// freshIVs: 300 messages of one session encrypted while the caller's random source answers short: every IV must be
// new (a generator that fills only the first byte of its IV has 256 values and must repeat within 300 messages).
func freshIVs(s kex.Suite, c kex.CipherSuiteID) {
	owner, dev, err := establish(s, c)
	if err != nil {
		return
	}
	for dir, sess := range []kex.Session{owner, dev} {
		for i := 0; i < 300; i++ {
			r.Evaluations.Add(1)
			enc, err := sess.Encrypt(oneByteReader{rand.Reader}, []byte{byte(i)})
			if err != nil {
				r.Violation("encrypt-fails-with-short-reading-random-source:"+c.String(), fmt.Sprintf("%s/%s: %v", s, c, err), nil)
				return
			}
			wire, _ := cbor.Marshal(enc)
			noteIVs(fmt.Sprintf("%s/%s dir%d message %d (random source answering one byte per Read)", s, c, dir, i), wire)
		}
	}
	r.Distinct(fmt.Sprintf("fresh-ivs|%s|%s", s, c))
}

func classOp(op string) string {
	if len(op) > 3 && op[:3] == "bit" {
		return "bit"
	}
	return op
}

// ---- layer B: protocol seam ----

func layerB(kindName string, suite kex.Suite, c kex.CipherSuiteID) {
	k := keys.KindByName(kindName)
	ctx := context.Background()
	// one honest run records the positions (exchange index, direction) of protected messages
	type pos struct {
		idx  int
		resp bool
		typ  int
	}
	var positions []pos
	base := lab.NewWorld(k, protocol.X509KeyEnc)
	if _, err := base.Manufacture(ctx, 1); err != nil {
		r.Violation("lab-honest:"+kindName, "honest manufacture failed: "+err.Error(), nil)
		return
	}
	base.WOwner.Post = func(x *lab.Exchange) {
		if x.MsgType > 64 {
			positions = append(positions, pos{x.Idx, false, x.MsgType})
		}
		if x.RespType >= 65 && x.RespType < 255 {
			positions = append(positions, pos{x.Idx, true, x.RespType})
		}
		for _, b := range [][]byte{x.ReqBody, x.RespBody} {
			noteIVs(fmt.Sprintf("labB %s/%s x%d", suite, c, x.Idx), b)
		}
		if x.MsgType > 64 || (x.RespType >= 65 && x.RespType < 255) {
			check := func(what string, b []byte) {
				top, _, err := rc.Parse(b)
				if err != nil || top.Kind != rc.Tag || (top.U != 16 && top.U != 17) {
					r.Violation("not-cose-wrapped:wire", fmt.Sprintf("%s/%s: %s of exchange %d (type %d/%d) is not a COSE_Encrypt0/Mac0 object", suite, c, what, x.Idx, x.MsgType, x.RespType), nil)
				}
			}
			if x.MsgType > 64 {
				check("request", x.ReqBody)
			}
			if x.RespType >= 65 && x.RespType < 255 {
				check("response", x.RespBody)
			}
		}
	}
	rec := &lab.RecTransport{Inner: base.WOwner.Transport()}
	if _, err := fdo.TO2(ctx, rec, nil, base.Dev.TO2Config(suite, c)); err != nil {
		r.Violation("lab-honest:"+kindName, fmt.Sprintf("honest TO2 %s/%s failed: %v", suite, c, err), nil)
		return
	}
	// plaintext never on the wire
	for _, pm := range rec.Log {
		if pm.Type >= 65 && pm.Type != 255 && len(pm.Body) >= 12 {
			for _, x := range base.WOwner.Log {
				if bytes.Contains(x.ReqBody, pm.Body) || bytes.Contains(x.RespBody, pm.Body) {
					r.Violation("plaintext-on-wire:lab", fmt.Sprintf("%s/%s: plaintext of message %d appears on the wire", suite, c, pm.Type), nil)
				}
			}
		}
	}
	// a donor session for cross-session substitution
	donor := lab.NewWorld(k, protocol.X509KeyEnc)
	var donorMsgs = map[string][]byte{}
	if _, err := donor.Manufacture(ctx, 1); err == nil {
		donor.WOwner.Post = func(x *lab.Exchange) {
			donorMsgs[fmt.Sprintf("%d-req", x.MsgType)] = x.ReqBody
			donorMsgs[fmt.Sprintf("%d-resp", x.RespType)] = x.RespBody
		}
		_, _ = fdo.TO2(ctx, donor.WOwner.Transport(), nil, donor.Dev.TO2Config(suite, c))
	}
	for _, ps := range positions {
		// operators for this position
		ops := []string{"strip-mac0", "retag", "plaintext", "cross-session", "empty", "truncate"}
		var honest []byte
		for _, x := range base.WOwner.Log {
			if x.Idx == ps.idx {
				honest = x.ReqBody
				if ps.resp {
					honest = x.RespBody
				}
			}
		}
		nbytes := len(honest)
		step := 1
		if r.Quick() {
			step = max(1, nbytes/24)
		}
		for b := 0; b < nbytes; b += step {
			ops = append(ops, fmt.Sprintf("byte%d", b))
		}
		for _, op := range ops {
			r.Evaluations.Add(1)
			w := lab.NewWorld(k, protocol.X509KeyEnc)
			if _, err := w.Manufacture(ctx, 1); err != nil {
				continue
			}
			applied := false
			mutate := func(body []byte, typ int, dirName string) []byte {
				applied = true
				top, _, err := rc.Parse(body)
				switch {
				case op == "strip-mac0":
					if err == nil && top.Kind == rc.Tag && top.U == 17 {
						if inner, _, e2 := rc.Parse(top.Items[0].Items[2].B); e2 == nil {
							return rc.Encode(rc.Tg(16, inner))
						}
					}
					applied = false
					return body
				case op == "retag":
					if err == nil && top.Kind == rc.Tag {
						return rc.Encode(rc.Tg(33-top.U, top.Items[0]))
					}
				case op == "plaintext":
					for _, pm := range rec.Log {
						if pm.Type == typ {
							return pm.Body
						}
					}
				case op == "cross-session":
					if d, ok := donorMsgs[fmt.Sprintf("%d-%s", typ, dirName)]; ok && len(d) > 0 {
						return d
					}
					applied = false
					return body
				case op == "empty":
					return nil
				case op == "truncate":
					return body[:len(body)/2]
				default:
					var bi int
					fmt.Sscanf(op, "byte%d", &bi)
					if bi < len(body) {
						o := bytes.Clone(body)
						o[bi] ^= 0x01
						return o
					}
				}
				return body
			}
			if ps.resp {
				w.WOwner.Post = func(x *lab.Exchange) {
					if x.Idx == ps.idx {
						x.RespBody = mutate(x.RespBody, x.RespType, "resp")
						x.RespHeader.Set("Content-Length", fmt.Sprint(len(x.RespBody)))
					}
				}
			} else {
				w.WOwner.Pre = func(x *lab.Exchange) {
					if x.Idx == ps.idx {
						x.ReqBody = mutate(x.ReqBody, x.MsgType, "req")
					}
				}
			}
			jl := w.Owner.Mem.JournalLen()
			var cred *fdo.DeviceCredential
			var terr error
			if p := probe.Call(func() { cred, terr = fdo.TO2(ctx, w.WOwner.Transport(), nil, w.Dev.TO2Config(suite, c)) }); p != nil {
				r.Violation(p.Key(), fmt.Sprintf("lab %s/%s: altering message %d (%s) panics: %s in %s", suite, c, ps.typ, op, p.Value, p.Frame), map[string]any{"suite": string(suite), "cipher": c.String(), "msg": ps.typ, "op": op})
				continue
			}
			if !applied {
				continue
			}
			replaced := false
			for _, e := range w.Owner.Mem.JournalSince(jl) {
				if e.Kind == "ReplaceVoucher" {
					replaced = true
				}
			}
			// The last response (Done2, 71) is the inherent exception: the owner has already completed.
			if terr == nil || cred != nil {
				r.Violation(fmt.Sprintf("lab-accepts-altered:%d:%s", ps.typ, classOp2(op)), fmt.Sprintf("lab %s/%s: message %d altered by %s, yet TO2 returned cred=%v err=%v", suite, c, ps.typ, op, cred != nil, terr), map[string]any{"suite": string(suite), "cipher": c.String(), "msg": ps.typ, "op": op})
			}
			if replaced && !(ps.resp && ps.typ == 71) {
				r.Violation(fmt.Sprintf("lab-effect-after-altered:%d:%s", ps.typ, classOp2(op)), fmt.Sprintf("lab %s/%s: message %d altered by %s, yet the owner replaced the voucher", suite, c, ps.typ, op), map[string]any{"suite": string(suite), "cipher": c.String(), "msg": ps.typ, "op": op})
			}
			r.Distinct(fmt.Sprintf("lab|%s|%d|%s|%v", c, ps.typ, classOp2(op), terr != nil))
		}
	}
}

func classOp2(op string) string {
	if len(op) > 4 && op[:4] == "byte" {
		return "byteflip"
	}
	return op
}

func main() {
	r = ev.Start("C05", "fault_enumeration")
	sizes := []int{0, 1, 15, 16, 17}
	if !r.Quick() {
		sizes = append(sizes, 200)
	}
	r.Rule("Layer A: 6 key exchanges x 7 cipher suites (sessions from the real Parameter/SetParameter), both directions, payload lengths {0,1,15,16,17(,200)}: EVERY bit of the protected wire object plus ~60 structural operators plus ~180 header-injection operators (every label 1..7 x IV/algorithm-derived values written into the unauthenticated header maps of the COSE_Mac0 and COSE_Encrypt0 layers) plus 30 pairs of a weakened COSE_Mac0 tag (empty, first byte, half, minus one, zeroed, plus one) with a flipped bit of the MACed payload (strip/forge COSE_Mac0, re-tag, untag, drop/resize/retype IV, drop/move/replace alg header, null/empty/truncated/extended/short ciphertext, cross-session ciphertext, plaintext substitution) delivered to the real peer Decrypt: it must fail or return exactly the sender's plaintext; IVs pairwise distinct, also over 300 messages per session and direction encrypted with a random source that answers one byte per Read; plaintext not on the wire. Layer B: in a real TO2 over the HTTP transport, every protected message position in both directions x {strip-mac0, retag, plaintext, cross-session, empty, truncate, one byte flip per (sampled in quick: ~24 per message; all in thorough) byte}: the run must fail with no credential and no voucher replacement. distinct = distinct (suite,length,outcome,operator) classes.")
	var wg sync.WaitGroup
	sem := make(chan struct{}, 16)
	for _, s := range suites {
		for _, c := range ciphers {
			wg.Add(1)
			sem <- struct{}{}
			go func() { defer wg.Done(); defer func() { <-sem }(); layerA(s, c, sizes); freshIVs(s, c) }()
		}
	}
	type cfg struct {
		kind  string
		suite kex.Suite
		c     kex.CipherSuiteID
	}
	cfgs := []cfg{{"ec256", kex.ECDH256Suite, kex.A128GcmCipher}, {"ec256", kex.ECDH256Suite, kex.CoseAes128CbcCipher}, {"ec384", kex.ECDH384Suite, kex.CoseAes256CtrCipher}}
	if !r.Quick() {
		cfgs = nil
		for i, c := range ciphers {
			cfgs = append(cfgs, cfg{"ec256", kex.ECDH256Suite, c}, cfg{"ec384", kex.ECDH384Suite, c})
			if i%3 == 0 {
				cfgs = append(cfgs, cfg{"rsa2048restr", kex.ASYMKEX2048Suite, c}, cfg{"rsapss3072", kex.DHKEXid15Suite, c})
			}
		}
	}
	for _, cf := range cfgs {
		wg.Add(1)
		sem <- struct{}{}
		go func() { defer wg.Done(); defer func() { <-sem }(); layerB(cf.kind, cf.suite, cf.c) }()
	}
	wg.Wait()
	r.Set("distinct_ivs_observed", len(ivSeen))
	r.Sample(3, map[string]any{"layer": "A", "suite": "ECDH256", "cipher": "COSEAES128CTR", "dir": 0, "len": 16, "op": "strip-mac0"})
	r.Sample(3, map[string]any{"layer": "B", "suite": "ECDH256", "cipher": "A128GCM", "msg": 68, "op": "byte40"})
	r.Assume("AES-GCM, AES-CTR/CBC and HMAC of the Go standard library are trusted; replay of an unmodified message within a session is outside this property")
	r.Assume("Done2 (71) altered in transit fails the device run but the owner has already committed: inherent two-generals window, only the device-side failure is asserted there")
	r.Finish()
}
