#!/bin/bash
# Overlay for the scheduler-controlled checks (C15, C16, C19): the re-export files plus the CURRENT
# serviceinfo/chunk.go and to2.go rewritten onto the vsync shims, plus the vsync package itself.
set -e
OUT="$1"; NAME="$2"; D=/verif/.cache/overlay/$NAME; mkdir -p "$D"
export GOFLAGS=-mod=mod GOPROXY=off
cd /verif
go build -o .cache/bin/rewrite ./cmd/rewrite
printf '{"Replace":{"/repo/zz_verif_export.go":"/verif/overlay/fdo_export.go","/repo/kex/zz_verif_export.go":"/verif/overlay/kex_export.go"}}\n' > "$D/base.json"
.cache/bin/rewrite -out "$D" -json "$OUT" -base "$D/base.json" /repo/serviceinfo/chunk.go /repo/to2.go >/dev/null
