// C18 — the SQLite server state is a faithful, session-isolated store across restarts.
//
// Explicit-state search over operation histories on the real sqlite.DB against an in-memory reference model
// (every getter is compared after every operation), with close/reopen as an operation, damaged tokens, a virtual
// clock for blob expiry, and restart-point enumeration of the full protocols (handler, responders and DB object
// rebuilt from the database file between any two messages).
package main

import (
	"bytes"
	"context"
	"crypto/rand"
	"crypto/x509"
	"encoding/base64"
	"errors"
	"fmt"
	"os"
	"path/filepath"
	"sort"
	"strings"
	"sync"
	"time"

	fdo "github.com/fido-device-onboard/go-fdo"
	"github.com/fido-device-onboard/go-fdo/cbor"
	"github.com/fido-device-onboard/go-fdo/cose"
	"github.com/fido-device-onboard/go-fdo/kex"
	"github.com/fido-device-onboard/go-fdo/protocol"
	"github.com/fido-device-onboard/go-fdo/serviceinfo"
	"github.com/fido-device-onboard/go-fdo/sqlite"

	"verif/internal/ev"
	"verif/internal/keys"
	"verif/internal/lab"
	"verif/internal/probe"
)

var r *ev.Run
var scratch string

// ---------- fields: (setter, getter) pairs of the session state interfaces ----------

type field struct {
	name string
	set  func(db *sqlite.DB, ctx context.Context, v int) error
	get  func(db *sqlite.DB, ctx context.Context) (string, error)
}

// wantOf: what the getter string must be for value v, computed from the value handed to the setter and NOT through
// the store (for the fields whose values have one obvious encoding); "" = no independent expectation.
func wantOf(name string, v int) string {
	switch name {
	case "TO0SignNonce":
		return str(nonce(0x10, v))
	case "TO1ProofNonce":
		return str(nonce(0x20, v))
	case "GUID":
		return str(guidOf(2, v))
	case "ReplacementGUID":
		return str(guidOf(3, v))
	case "ReplacementHmac":
		return str(protocol.Hmac{Algorithm: []protocol.HashAlg{protocol.HmacSha256Hash, protocol.HmacSha384Hash}[v], Value: bytes.Repeat([]byte{byte(0x30 + v)}, 32+16*v)})
	case "ProveDeviceNonce":
		return str(nonce(0x40, v))
	case "SetupDeviceNonce":
		return str(nonce(0x50, v))
	case "MTU":
		return str(uint16(1300 + 64235*v))
	}
	return ""
}

func nonce(tag byte, v int) (n protocol.Nonce) {
	for i := range n {
		n[i] = tag + byte(v)*0x10 + byte(i)
	}
	return
}

func guidOf(tag byte, v int) (g protocol.GUID) {
	for i := range g {
		g[i] = tag ^ byte(i*7) ^ byte(v*0x55)
	}
	return
}

var certs []*x509.Certificate

func str(v any) string { b, _ := cbor.Marshal(v); return fmt.Sprintf("%x", b) }

// kex sessions at the three stages, for every suite
type kexCase struct {
	suite kex.Suite
	mk    func() kex.Session
}

func kexCases() []kexCase {
	var out []kexCase
	for _, s := range []kex.Suite{kex.ECDH256Suite, kex.ECDH384Suite, kex.DHKEXid14Suite, kex.DHKEXid15Suite, kex.ASYMKEX2048Suite, kex.ASYMKEX3072Suite} {
		for stage := 0; stage < 3; stage++ {
			out = append(out, kexCase{s, func() kex.Session {
				c := kex.A128GcmCipher
				if stage == 2 {
					c = kex.CoseAes256CbcCipher
				}
				owner := s.New(nil, c)
				if stage == 0 {
					return owner
				}
				pub := lab.RSAPub(s)
				xA, err := owner.Parameter(rand.Reader, pub)
				if err != nil || stage == 1 {
					return owner
				}
				dev := s.New(xA, c)
				xB, err := dev.Parameter(rand.Reader, pub)
				if err == nil {
					_ = owner.SetParameter(xB, lab.RSAKey(s))
				}
				return owner
			}})
		}
	}
	return out
}

var kexVals []struct {
	suite kex.Suite
	sess  kex.Session
	repr  string
}

func sessRepr(s kex.Session) string {
	b, err := s.(interface{ MarshalBinary() ([]byte, error) }).MarshalBinary()
	if err != nil {
		return "ERR:" + err.Error()
	}
	return fmt.Sprintf("%x", b)
}

func fields() []field {
	rvinfos := [][][]protocol.RvInstruction{{}, {{{Variable: protocol.RVDns, Value: []byte{0x61, 0x61}}, {Variable: protocol.RVBypass}}, {{Variable: protocol.RVIPAddress, Value: bytes.Repeat([]byte{0x41}, 300)}}}}
	devmods := []serviceinfo.Devmod{{Os: "linux", Arch: "a", Version: "1", Device: "d", FileSep: ";", Bin: "b"}, {Os: "o", Arch: "x", Version: "2", Device: "e", Serial: []byte{1, 2}, PathSep: "/", FileSep: ":", Newline: "\n", Temp: "/tmp", Dir: "/", ProgEnv: "bin", Bin: "c", MudURL: "u"}}
	var mods200 []string
	for i := 0; i < 200; i++ {
		mods200 = append(mods200, fmt.Sprintf("module-%d", i))
	}
	modLists := [][]string{{}, mods200}
	return []field{
		{"DeviceCertChain", func(db *sqlite.DB, ctx context.Context, v int) error { return db.SetDeviceCertChain(ctx, certs[v:v+1]) },
			func(db *sqlite.DB, ctx context.Context) (string, error) {
				c, err := db.DeviceCertChain(ctx)
				if err != nil {
					return "", err
				}
				var s []string
				for _, x := range c {
					s = append(s, fmt.Sprintf("%x", x.Raw[:24]))
				}
				return strings.Join(s, ","), nil
			}},
		{"IncompleteVoucherHeader", func(db *sqlite.DB, ctx context.Context, v int) error {
			return db.SetIncompleteVoucherHeader(ctx, &fdo.VoucherHeader{Version: 101, GUID: guidOf(1, v), DeviceInfo: fmt.Sprint("dev", v), RvInfo: rvinfos[v], ManufacturerKey: protocol.PublicKey{Type: 10, Encoding: 1, Body: []byte{0x41, byte(v)}}})
		}, func(db *sqlite.DB, ctx context.Context) (string, error) {
			h, err := db.IncompleteVoucherHeader(ctx)
			if err != nil {
				return "", err
			}
			return str(h), nil
		}},
		{"TO0SignNonce", func(db *sqlite.DB, ctx context.Context, v int) error { return db.SetTO0SignNonce(ctx, nonce(0x10, v)) },
			func(db *sqlite.DB, ctx context.Context) (string, error) {
				n, err := db.TO0SignNonce(ctx)
				return str(n), err
			}},
		{"TO1ProofNonce", func(db *sqlite.DB, ctx context.Context, v int) error { return db.SetTO1ProofNonce(ctx, nonce(0x20, v)) },
			func(db *sqlite.DB, ctx context.Context) (string, error) {
				n, err := db.TO1ProofNonce(ctx)
				return str(n), err
			}},
		{"GUID", func(db *sqlite.DB, ctx context.Context, v int) error { return db.SetGUID(ctx, guidOf(2, v)) },
			func(db *sqlite.DB, ctx context.Context) (string, error) { g, err := db.GUID(ctx); return str(g), err }},
		{"RvInfo", func(db *sqlite.DB, ctx context.Context, v int) error { return db.SetRvInfo(ctx, rvinfos[v]) },
			func(db *sqlite.DB, ctx context.Context) (string, error) { g, err := db.RvInfo(ctx); return str(g), err }},
		{"ReplacementGUID", func(db *sqlite.DB, ctx context.Context, v int) error { return db.SetReplacementGUID(ctx, guidOf(3, v)) },
			func(db *sqlite.DB, ctx context.Context) (string, error) {
				g, err := db.ReplacementGUID(ctx)
				return str(g), err
			}},
		{"ReplacementHmac", func(db *sqlite.DB, ctx context.Context, v int) error {
			return db.SetReplacementHmac(ctx, protocol.Hmac{Algorithm: []protocol.HashAlg{protocol.HmacSha256Hash, protocol.HmacSha384Hash}[v], Value: bytes.Repeat([]byte{byte(0x30 + v)}, 32+16*v)})
		}, func(db *sqlite.DB, ctx context.Context) (string, error) {
			g, err := db.ReplacementHmac(ctx)
			return str(g), err
		}},
		{"ProveDeviceNonce", func(db *sqlite.DB, ctx context.Context, v int) error {
			return db.SetProveDeviceNonce(ctx, nonce(0x40, v))
		},
			func(db *sqlite.DB, ctx context.Context) (string, error) {
				n, err := db.ProveDeviceNonce(ctx)
				return str(n), err
			}},
		{"SetupDeviceNonce", func(db *sqlite.DB, ctx context.Context, v int) error {
			return db.SetSetupDeviceNonce(ctx, nonce(0x50, v))
		},
			func(db *sqlite.DB, ctx context.Context) (string, error) {
				n, err := db.SetupDeviceNonce(ctx)
				return str(n), err
			}},
		{"MTU", func(db *sqlite.DB, ctx context.Context, v int) error { return db.SetMTU(ctx, uint16(1300+64235*v)) },
			func(db *sqlite.DB, ctx context.Context) (string, error) { n, err := db.MTU(ctx); return str(n), err }},
		{"Devmod", func(db *sqlite.DB, ctx context.Context, v int) error {
			return db.SetDevmod(ctx, devmods[v], modLists[v], v == 1)
		},
			func(db *sqlite.DB, ctx context.Context) (string, error) {
				d, m, c, err := db.Devmod(ctx)
				return str([]any{d, len(m), m, c}), err
			}},
	}
}

// XSession gets its own value domain (every suite x stage)
func xsessionField() field {
	return field{"XSession", func(db *sqlite.DB, ctx context.Context, v int) error {
		return db.SetXSession(ctx, kexVals[v].suite, kexVals[v].sess)
	},
		func(db *sqlite.DB, ctx context.Context) (string, error) {
			s, sess, err := db.XSession(ctx)
			if err != nil {
				return "", err
			}
			return string(s) + ":" + sessRepr(sess), nil
		}}
}

// ---------- model ----------

type model struct {
	live     map[string]map[string]string // token -> field -> expected getter string
	vouchers map[protocol.GUID]string
	blobs    map[protocol.GUID]struct {
		repr string
		exp  time.Time
	}
}

func newModel() *model {
	return &model{live: map[string]map[string]string{}, vouchers: map[protocol.GUID]string{}, blobs: map[protocol.GUID]struct {
		repr string
		exp  time.Time
	}{}}
}

// ---------- harness ----------

type world struct {
	path   string
	db     *sqlite.DB
	flds   []field
	tokens []string // live token names t0,t1 (TO2), t2 (DI)
	tok    map[string]string
	m      *model
	now    time.Time
	ctx    context.Context
	hist   []string
}

var clockMu sync.Mutex

func openWorld(i int) *world {
	p := filepath.Join(scratch, fmt.Sprintf("db%d.sqlite", i))
	db, err := sqlite.Open(p, "")
	if err != nil {
		r.Fatal("sqlite.Open: %v", err)
	}
	tune(db)
	return &world{path: p, db: db, ctx: context.Background()}
}

// tune makes the scratch database cheap to drive (one connection, no fsync, no rollback journal, no per-statement
// file locking). These settings change I/O cost only, not the SQL the library issues or its results.
func tune(db *sqlite.DB) {
	db.DB().SetMaxOpenConns(1)
	for _, p := range []string{"PRAGMA synchronous=OFF", "PRAGMA journal_mode=MEMORY", "PRAGMA locking_mode=EXCLUSIVE", "PRAGMA foreign_keys=ON"} {
		_, _ = db.DB().Exec(p)
	}
}

func (w *world) reset() {
	for _, t := range []string{"sessions", "vouchers", "rv_blobs", "device_info"} {
		if _, err := w.db.DB().Exec("DELETE FROM " + t); err != nil {
			r.Fatal("reset: %v", err)
		}
	}
	w.m = newModel()
	w.tok = map[string]string{}
	w.hist = nil
	for i, p := range []protocol.Protocol{protocol.TO2Protocol, protocol.TO2Protocol, protocol.DIProtocol} {
		t, err := w.db.NewToken(w.ctx, p)
		if err != nil {
			r.Fatal("NewToken: %v", err)
		}
		name := fmt.Sprintf("t%d", i)
		w.tok[name] = t
		w.m.live[name] = map[string]string{}
	}
}

func (w *world) tctx(name string) context.Context { return w.db.TokenContext(w.ctx, w.tok[name]) }

func (w *world) viol(key, format string, a ...any) {
	r.Violation(key, fmt.Sprintf(format, a...)+fmt.Sprintf("  [history: %s]", strings.Join(w.hist, " ; ")), map[string]any{"history": append([]string{}, w.hist...)})
}

// sweep compares every getter for every known token (and the persistent state) with the model.
func (w *world) sweep(extraBad map[string]string) {
	names := []string{"t0", "t1", "t2"}
	for _, tn := range names {
		exp, live := w.m.live[tn]
		for _, f := range w.flds {
			var got string
			var err error
			if p := probe.Call(func() { got, err = f.get(w.db, w.tctx(tn)) }); p != nil {
				w.viol(p.Key(), "%s getter on %s panics: %s in %s", f.name, tn, p.Value, p.Frame)
				continue
			}
			r.Transitions.Add(1)
			want, set := exp[f.name]
			switch {
			case !live:
				if err == nil {
					w.viol("dead-token-grants:"+f.name, "token %s was invalidated, yet %s returns %s", tn, f.name, short(got))
				}
			case !set:
				if err == nil {
					w.viol("phantom-value:"+f.name, "%s was never set for %s, yet the getter returns %s", f.name, tn, short(got))
				} else if !errors.Is(err, fdo.ErrNotFound) {
					w.viol("wrong-error:"+f.name, "%s unset for live token %s: expected ErrNotFound, got %v", f.name, tn, err)
				}
			case err != nil:
				w.viol("lost-value:"+f.name, "%s was set for %s, but the getter fails: %v", f.name, tn, err)
			case got != want:
				w.viol("wrong-value:"+f.name, "%s for %s: stored %s, read %s", f.name, tn, short(want), short(got))
			}
		}
	}
	for badName, bad := range extraBad {
		for _, f := range w.flds {
			var err error
			var got string
			if p := probe.Call(func() { got, err = f.get(w.db, w.db.TokenContext(w.ctx, bad)) }); p != nil {
				w.viol(p.Key(), "%s getter with a %s token panics: %s in %s", f.name, badName, p.Value, p.Frame)
				continue
			}
			r.Transitions.Add(1)
			if err == nil {
				w.viol("bad-token-grants:"+badName, "%s with a %s token returns %s", f.name, badName, short(got))
			}
		}
	}
	for _, v := range []int{0, 1, 2} {
		g := guidOf(9, v)
		ov, err := w.db.Voucher(w.ctx, g)
		want, ok := w.m.vouchers[g]
		r.Transitions.Add(1)
		switch {
		case ok && err != nil:
			w.viol("voucher-lost", "voucher %d stored but Voucher() fails: %v", v, err)
		case ok && str(ov) != want:
			w.viol("voucher-wrong", "voucher %d differs from what was stored", v)
		case !ok && err == nil:
			w.viol("voucher-phantom", "voucher %d is not in the store per the model, yet Voucher() returns one", v)
		case !ok && !errors.Is(err, fdo.ErrNotFound):
			w.viol("voucher-wrong-error", "voucher %d absent: expected ErrNotFound, got %v", v, err)
		}
		b, bov, err := w.db.RVBlob(w.ctx, g)
		mb, ok := w.m.blobs[g]
		r.Transitions.Add(1)
		visible := ok && !w.now.After(mb.exp)
		switch {
		case visible && err != nil:
			w.viol("blob-lost", "blob %d registered until %v, now %v, but RVBlob fails: %v", v, mb.exp.Unix(), w.now.Unix(), err)
		case visible && str([]any{b, bov}) != mb.repr:
			w.viol("blob-wrong", "blob %d differs from what was registered", v)
		case !visible && err == nil:
			w.viol("blob-visible-after-expiry", "blob %d (registered=%v, expiry %v) returned at time %v", v, ok, mb.exp.Unix(), w.now.Unix())
		case !visible && !errors.Is(err, fdo.ErrNotFound):
			w.viol("blob-wrong-error", "blob %d not visible: expected ErrNotFound, got %v", v, err)
		}
	}
}

func short(s string) string {
	if len(s) > 48 {
		return s[:48] + "..."
	}
	return s
}

// ops: the operation alphabet
type op struct {
	name string
	do   func(w *world)
}

// coreOps: the reduced (quick-tier) alphabet used beyond depth 2.
var coreOps = map[string]bool{}
var coreMu sync.Mutex

var vouchersByV []*fdo.Voucher
var blobByV []*cose.Sign1[protocol.To1d, []byte]
var voucherG0b *fdo.Voucher // GUID of voucher 0, other content

func (w *world) alphabet(thorough bool) []op {
	out := w.alphabet0(thorough)
	coreMu.Lock()
	if len(coreOps) == 0 { // filled once, before the workers start; read-only afterwards
		for _, o := range w.alphabet0(false) {
			coreOps[o.name] = true
		}
	}
	coreMu.Unlock()
	return out
}

func (w *world) alphabet0(thorough bool) []op {
	var out []op
	toks := []string{"t0", "t1", "t2"}
	for fi, f := range w.flds {
		nvals := 2
		if f.name == "XSession" {
			nvals = len(kexVals)
		}
		for _, tn := range toks {
			if !thorough && tn == "t2" && fi%3 != 0 {
				continue
			}
			for v := 0; v < nvals; v++ {
				if f.name == "XSession" && !thorough && tn != "t0" && v > 1 {
					continue
				}
				out = append(out, op{fmt.Sprintf("Set%s(%s,v%d)", f.name, tn, v), func(w *world) {
					var err error
					if p := probe.Call(func() { err = f.set(w.db, w.tctx(tn), v) }); p != nil {
						w.viol(p.Key(), "Set%s on %s panics: %s in %s", f.name, tn, p.Value, p.Frame)
						return
					}
					_, live := w.m.live[tn]
					switch {
					case live && err != nil:
						w.viol("setter-fails:"+f.name, "Set%s(%s) on a live token fails: %v", f.name, tn, err)
					case !live && err == nil:
						w.viol("dead-token-accepts:"+f.name, "Set%s succeeded with the invalidated token %s", f.name, tn)
					case live:
						// expected getter string: compute with an isolated reference run of the same getter on a scratch token
						w.m.live[tn][f.name] = w.expected(f, v)
					}
				}})
			}
		}
	}
	// a client that starts a protocol over while presenting the token of a session that is still alive: the first
	// message always opens a NEW session, distinct from every live one and with nothing in it
	for _, tn := range []string{"t0", "t2"} {
		proto := protocol.TO2Protocol
		if tn == "t2" {
			proto = protocol.DIProtocol
		}
		out = append(out, op{"NewToken(presenting " + tn + ")", func(w *world) {
			nt, err := w.db.NewToken(w.tctx(tn), proto)
			if err != nil {
				w.viol("newtoken-fails", "NewToken with the token %s in the context: %v", tn, err)
				return
			}
			for name, t := range w.tok {
				if t == nt {
					w.viol("newtoken-not-fresh", "NewToken with %s in the context returned the token of the existing session %s", tn, name)
					return
				}
			}
			nctx := w.db.TokenContext(w.ctx, nt)
			for _, f := range w.flds {
				if got, err := f.get(w.db, nctx); err == nil {
					w.viol("new-session-inherits-state:"+f.name, "a session just opened (while %s was presented) already holds %s = %s", tn, f.name, short(got))
				}
			}
			_ = w.db.InvalidateToken(nctx)
		}})
	}
	for _, tn := range toks {
		out = append(out, op{"InvalidateToken(" + tn + ")", func(w *world) {
			err := w.db.InvalidateToken(w.tctx(tn))
			if _, live := w.m.live[tn]; live && err != nil {
				w.viol("invalidate-fails", "InvalidateToken(%s): %v", tn, err)
			}
			delete(w.m.live, tn)
		}})
	}
	for v := 0; v < 2; v++ {
		out = append(out, op{fmt.Sprintf("AddVoucher(g%d)", v), func(w *world) {
			err := w.db.AddVoucher(w.ctx, vouchersByV[v])
			g := guidOf(9, v)
			if _, exists := w.m.vouchers[g]; !exists {
				if err != nil {
					w.viol("addvoucher-fails", "AddVoucher(g%d): %v", v, err)
				} else {
					w.m.vouchers[g] = str(vouchersByV[v])
				}
			}
			// adding a voucher whose GUID exists: either refused or replaced; resynchronise the model with an oracle-free rule
			if _, exists := w.m.vouchers[g]; exists && err == nil {
				w.m.vouchers[g] = str(vouchersByV[v])
			}
		}}, op{fmt.Sprintf("RemoveVoucher(g%d)", v), func(w *world) {
			ov, err := w.db.RemoveVoucher(w.ctx, guidOf(9, v))
			g := guidOf(9, v)
			want, exists := w.m.vouchers[g]
			switch {
			case exists && (err != nil || str(ov) != want):
				w.viol("removevoucher-wrong", "RemoveVoucher(g%d) of a stored voucher: err=%v", v, err)
			case !exists && err == nil:
				w.viol("removevoucher-phantom", "RemoveVoucher(g%d) returned a voucher that was never stored", v)
			}
			delete(w.m.vouchers, g)
		}}, op{fmt.Sprintf("SetRVBlob(g%d,+1h)", v), func(w *world) {
			exp := w.now.Add(time.Hour)
			if err := w.db.SetRVBlob(w.ctx, vouchersByV[v], blobByV[v], exp); err != nil {
				w.viol("setrvblob-fails", "SetRVBlob: %v", err)
				return
			}
			w.m.blobs[guidOf(9, v)] = struct {
				repr string
				exp  time.Time
			}{str([]any{blobByV[v], vouchersByV[v]}), time.Unix(exp.Unix(), 0)}
		}})
	}
	// re-registration with another blob and a LONGER time-to-live than the plain registration above: a later,
	// shorter registration must replace it (blob and expiry), and a registration for one GUID never touches the
	// blob of another whatever the order of their expiries
	for v := 0; v < 2; v++ {
		out = append(out, op{fmt.Sprintf("SetRVBlob(g%d,+2h,other blob)", v), func(w *world) {
			exp := w.now.Add(2 * time.Hour)
			if err := w.db.SetRVBlob(w.ctx, vouchersByV[v], blobByV[2], exp); err != nil {
				w.viol("setrvblob-fails", "SetRVBlob: %v", err)
				return
			}
			w.m.blobs[guidOf(9, v)] = struct {
				repr string
				exp  time.Time
			}{str([]any{blobByV[2], vouchersByV[v]}), time.Unix(exp.Unix(), 0)}
		}})
	}
	out = append(out, op{"Clock(+90m)", func(w *world) { w.setNow(w.now.Add(90 * time.Minute)) }})
	// a replacement that keeps the GUID (the same device under a voucher with other content): whether the store
	// refuses it or performs it, a voucher for that GUID must be there afterwards - the old one or the new one
	out = append(out, op{"ReplaceVoucher(g0->g0 other content)", func(w *world) {
		err := w.db.ReplaceVoucher(w.ctx, guidOf(9, 0), voucherG0b)
		g := guidOf(9, 0)
		_, existed := w.m.vouchers[g]
		got, gerr := w.db.Voucher(w.ctx, g)
		switch {
		case existed && gerr != nil:
			w.viol("voucher-lost-by-same-guid-replacement", "ReplaceVoucher(g0 -> voucher with the same GUID) returned %v and no voucher for the GUID is left: %v", err, gerr)
			delete(w.m.vouchers, g)
		case gerr == nil:
			// take the store's word for which of the two it holds; it must be one of them
			if s := str(got); s == str(voucherG0b) || s == w.m.vouchers[g] {
				w.m.vouchers[g] = s
			} else {
				w.viol("voucher-wrong", "after a same-GUID replacement the store holds neither the old nor the new voucher")
			}
		}
	}})
	out = append(out, op{"ReplaceVoucher(g0->g2)", func(w *world) {
		err := w.db.ReplaceVoucher(w.ctx, guidOf(9, 0), vouchersByV[2])
		_, oldExists := w.m.vouchers[guidOf(9, 0)]
		_, newExists := w.m.vouchers[guidOf(9, 2)]
		if oldExists && !newExists {
			if err != nil {
				w.viol("replacevoucher-fails", "ReplaceVoucher of a stored voucher: %v", err)
				return
			}
			delete(w.m.vouchers, guidOf(9, 0))
			w.m.vouchers[guidOf(9, 2)] = str(vouchersByV[2])
		} else if err == nil {
			// replacing a voucher that is not there / onto an existing GUID "succeeded": take the store's word for the new one, the old one must be gone
			delete(w.m.vouchers, guidOf(9, 0))
			w.m.vouchers[guidOf(9, 2)] = str(vouchersByV[2])
		}
	}}, op{"SetRVBlob(g0,-1s)", func(w *world) {
		exp := w.now.Add(-time.Second)
		if err := w.db.SetRVBlob(w.ctx, vouchersByV[0], blobByV[0], exp); err != nil {
			w.viol("setrvblob-fails", "SetRVBlob: %v", err)
			return
		}
		w.m.blobs[guidOf(9, 0)] = struct {
			repr string
			exp  time.Time
		}{str([]any{blobByV[0], vouchersByV[0]}), time.Unix(exp.Unix(), 0)}
	}}, op{"Clock(+59m)", func(w *world) { w.setNow(w.now.Add(59 * time.Minute)) }}, op{"Clock(+2h)", func(w *world) { w.setNow(w.now.Add(2 * time.Hour)) }},
		op{"Close+Reopen", func(w *world) {
			if err := w.db.Close(); err != nil {
				w.viol("close-fails", "Close: %v", err)
			}
			db, err := sqlite.Open(w.path, "")
			if err != nil {
				r.Fatal("reopen: %v", err)
			}
			tune(db)
			w.db = db
		}}, op{"FreshDBObject", func(w *world) { w.db = sqlite.New(w.db.DB()) }})
	return out
}

func (w *world) setNow(t time.Time) {
	w.now = t
	clockMu.Lock()
	worldNow[w.path] = t
	clockMu.Unlock()
}

var worldNow = map[string]time.Time{}

// expected value string of getter f after set(v): obtained from a private scratch database (same code, but never
// shared with the sequence under test) so that the model does not hard-code encodings.
var expCache sync.Map
var expDB *sqlite.DB
var expMu sync.Mutex

func (w *world) expected(f field, v int) string {
	key := fmt.Sprintf("%s/%d", f.name, v)
	if s, ok := expCache.Load(key); ok {
		return s.(string)
	}
	expMu.Lock()
	defer expMu.Unlock()
	tok, err := expDB.NewToken(context.Background(), protocol.TO2Protocol)
	if err != nil {
		r.Fatal("scratch NewToken: %v", err)
	}
	ctx := expDB.TokenContext(context.Background(), tok)
	if err := f.set(expDB, ctx, v); err != nil {
		r.Fatal("scratch set %s: %v", f.name, err)
	}
	s, err := f.get(expDB, ctx)
	if err != nil {
		r.Violation("lost-value:"+f.name, fmt.Sprintf("%s value %d cannot be read back even on a fresh single-token database: %v", f.name, v, err), nil)
		s = "UNREADABLE"
	}
	if want := wantOf(f.name, v); want != "" && err == nil && s != want {
		r.Violation("wrong-value:"+f.name+":not-the-value-stored", fmt.Sprintf("%s value %d: read back %s, stored %s", f.name, v, short(s), short(want)), map[string]any{"value": v})
	}
	if f.name == "XSession" && err == nil {
		// independent expectation: the session handed to the store, serialised by the session itself
		if want := string(kexVals[v].suite) + ":" + kexVals[v].repr; s != want {
			r.Violation("wrong-value:XSession:not-the-session-stored", fmt.Sprintf("XSession value %d (%s): the session read back differs from the session stored: read %s, stored %s", v, kexVals[v].suite, short(s), short(want)), map[string]any{"value": v})
		}
	}
	expCache.Store(key, s)
	return s
}

func (w *world) badTokens() map[string]string {
	raw, _ := base64.RawURLEncoding.DecodeString(w.tok["t0"])
	flip := bytes.Clone(raw)
	flip[len(flip)-1] ^= 1
	flipID := bytes.Clone(raw)
	flipID[0] ^= 1
	enc := base64.RawURLEncoding.EncodeToString
	return map[string]string{"mac-bit-flipped": enc(flip), "id-bit-flipped": enc(flipID), "empty": "", "truncated-15": enc(raw[:15]), "truncated-16": enc(raw[:16]), "truncated-17": enc(raw[:17]),
		"not-base64": "*** not base64 ***", "foreign-secret": foreignToken, "extended": enc(append(bytes.Clone(raw), 0))}
}

var foreignToken string
var deadline = time.Now().Add(25 * time.Minute)
var capOnce sync.Once

func search(wi int, depth int, thorough bool, jobs <-chan int, al0 int) {
	w := openWorld(wi)
	defer w.db.Close()
	w.flds = append(fields(), xsessionField())
	w.reset()
	al := w.alphabet(thorough)
	for first := range jobs {
		var rec func(d int, seq []int)
		rec = func(d int, seq []int) {
			// replay seq on a reset store (states are histories; the store is rebuilt for every history)
			w.reset()
			w.setNow(time.Unix(1_800_000_000, 0))
			for _, i := range seq {
				w.hist = append(w.hist, al[i].name)
				al[i].do(w)
			}
			r.States.Add(1)
			r.Evaluations.Add(1)
			var bad map[string]string
			if d == depth {
				bad = w.badTokens()
			}
			w.sweep(bad)
			r.Distinct(strings.Join(w.hist, ";"))
			if d == depth {
				return
			}
			if time.Now().After(deadline) {
				capOnce.Do(func() { r.Capped("internal deadline reached: histories beyond this point were not expanded") })
				return
			}
			for i := range al {
				if d >= 2 && (!coreOps[al[i].name] || !coreOps[al[seq[0]].name] || !coreOps[al[seq[1]].name] || !related(al[seq[len(seq)-1]].name, al[i].name)) {
					continue // depth 3+: reduced alphabet, and only operations related to the previous one (same token/GUID, lifecycle)
				}
				rec(d+1, append(append([]int{}, seq...), i))
			}
		}
		rec(1, []int{first})
	}
}

// related: used to prune depth>=3: same token, or a lifecycle / persistence operation.
func related(a, b string) bool {
	for _, t := range []string{"t0", "t1", "t2", "g0", "g1", "g2"} {
		if strings.Contains(a, t) && strings.Contains(b, t) {
			return true
		}
	}
	for _, k := range []string{"Close", "Fresh", "Clock", "Invalidate", "Replace"} {
		if strings.Contains(a, k) || strings.Contains(b, k) {
			return true
		}
	}
	return false
}

func main() {
	r = ev.Start("C18", "model_checking")
	var err error
	base := "/dev/shm" // memory file system: the database files are scratch, and fsync on a disk dominates the run time otherwise
	if _, serr := os.Stat(base); serr != nil {
		base = "/var/tmp"
	}
	scratch, err = os.MkdirTemp(base, "verif-c18-")
	if err != nil {
		r.Fatal("%v", err)
	}
	defer os.RemoveAll(scratch)
	sqlite.VerifNow = func() time.Time {
		// one clock per database file would need the DB handle; all worlds share one virtual base and move it in lockstep per world via worldNow
		clockMu.Lock()
		defer clockMu.Unlock()
		if t, ok := worldNow[curWorld()]; ok {
			return t
		}
		return time.Now() // goroutines that are not history workers (restart-point runs) use the real clock
	}
	setup()
	depth := 2
	if !r.Quick() {
		depth = 3
	}
	exploreHistories(depth, !r.Quick())
	restartPoints(!r.Quick())
	r.Assume("SQLite's own durability (torn pages, fsync loss) is outside the property; close and reopen are clean")
	r.Assume("expected getter strings come from the same code on a private single-token database, so the model fixes WHICH value is visible to WHOM, not its byte encoding (C11 covers encodings)")
	os.RemoveAll(scratch)
	r.Finish()
}

func setup() {
	k := keys.Get("ec256", "devca")
	certs = []*x509.Certificate{keys.SelfSigned("ec256-devca", k), keys.SelfSigned("ec256-mfg", keys.Get("ec256", "mfg")), keys.SelfSigned("ec256-owner1", keys.Get("ec256", "owner1"))}
	for _, kc := range kexCases() {
		s := kc.mk()
		kexVals = append(kexVals, struct {
			suite kex.Suite
			sess  kex.Session
			repr  string
		}{kc.suite, s, sessRepr(s)})
	}
	// three vouchers with controlled GUIDs and their blobs
	for v := 0; v < 3; v++ {
		w := lab.NewWorld(keys.KindByName("ec256"), protocol.X509KeyEnc)
		ov, err := w.Manufacture(context.Background(), 1)
		if err != nil {
			r.Fatal("voucher setup: %v", err)
		}
		ov.Header.Val.GUID = guidOf(9, v) // the store keys by header GUID; signatures are irrelevant here
		if v == 2 {
			ov.Entries = nil
		}
		vouchersByV = append(vouchersByV, ov)
		dns := fmt.Sprintf("o%d.example", v)
		b := &cose.Sign1[protocol.To1d, []byte]{Payload: cbor.NewByteWrap(protocol.To1d{RV: []protocol.RvTO2Addr{{DNSAddress: &dns, Port: 80, TransportProtocol: protocol.HTTPTransport}}, To0dHash: protocol.Hash{Algorithm: protocol.Sha256Hash, Value: make([]byte, 32)}})}
		_ = b.Sign(keys.Get("ec256", "owner1"), nil, nil, nil)
		blobByV = append(blobByV, b)
	}
	{
		w := lab.NewWorld(keys.KindByName("ec256"), protocol.X509KeyEnc)
		ov, err := w.Manufacture(context.Background(), 2)
		if err != nil {
			r.Fatal("voucher setup: %v", err)
		}
		ov.Header.Val.GUID = guidOf(9, 0)
		ov.Header.Val.DeviceInfo = "same guid, other content"
		ov.Entries = nil // ReplaceVoucher takes vouchers without extensions only
		voucherG0b = ov
	}
	var err error
	expDB, err = sqlite.Open(filepath.Join(scratch, "expected.sqlite"), "")
	if err != nil {
		r.Fatal("%v", err)
	}
	fdb, err := sqlite.Open(filepath.Join(scratch, "foreign.sqlite"), "")
	if err != nil {
		r.Fatal("%v", err)
	}
	foreignToken, _ = fdb.NewToken(context.Background(), protocol.TO2Protocol)
	_ = fdb.Close()
}

// the virtual clock is per world; worlds run on separate goroutines, so the current world is looked up by goroutine-local
// convention: every world sets worldNow under its path and VerifNow reads the entry of the calling world. Because the
// store calls VerifNow synchronously from the goroutine that called RVBlob, a goroutine->world map suffices.
var gw sync.Map

func curWorld() string {
	if v, ok := gw.Load(goid()); ok {
		return v.(string)
	}
	return ""
}

func exploreHistories(depth int, thorough bool) {
	probeW := openWorld(999)
	probeW.flds = append(fields(), xsessionField())
	probeW.reset()
	n := len(probeW.alphabet(thorough))
	probeW.db.Close()
	r.Set("alphabet_size", n)
	r.Rule(fmt.Sprintf("explicit-state search: a state is an operation history over an alphabet of %d operations (every session-state setter x tokens {two TO2 sessions, one DI session} x value domains incl. every key-exchange session type at each of its three stages, both HMAC sizes, empty/large rendezvous info, devmod with/without optionals, module lists of 0/200; token invalidation; voucher add/remove/replace; blob registration with future/past expiry; virtual clock moves; close+reopen of the database file; fresh DB object over the same connection); all histories of length <= %d (beyond 2: over the reduced quick-tier alphabet, and the next operation must relate to the previous one: same token/GUID or a lifecycle operation). After EVERY history the store is rebuilt by replay and EVERY getter is compared, for every token, with an in-memory reference model; at maximal depth nine damaged-token variants (bit-flipped MAC / id, empty, truncated to 15/16/17 bytes, non-base64, issued by a database with another secret, extended) must be refused without panic. Second leg: restart points - for every message boundary of DI, TO0, TO1 and TO2 (each key-exchange family) handler, responders and DB object are torn down and rebuilt from the database file, singly and at every boundary at once; the run must end like an uninterrupted one. states = histories; transitions = store calls compared with the model.", n, depth))
	jobs := make(chan int, n)
	for i := 0; i < n; i++ {
		jobs <- i
	}
	close(jobs)
	var wg sync.WaitGroup
	for wi := 0; wi < 16; wi++ {
		wg.Add(1)
		go func() {
			defer wg.Done()
			p := filepath.Join(scratch, fmt.Sprintf("db%d.sqlite", wi))
			gw.Store(goid(), p)
			search(wi, depth, thorough, jobs, n)
		}()
	}
	wg.Wait()
	r.Sample(4, map[string]any{"history": []string{"SetGUID(t0,v0)", "SetMTU(t0,v1)", "Close+Reopen"}, "then": "all getters x all tokens compared with the model"})
	r.Sample(4, map[string]any{"history": []string{"SetRVBlob(g0,+1h)", "Clock(+2h)"}, "then": "RVBlob(g0) must be ErrNotFound"})
}

// ---------- restart points ----------

type noModules struct{}

func (noModules) Module(context.Context) (string, serviceinfo.OwnerModule, error) {
	return "", nil, fmt.Errorf("no modules")
}
func (noModules) NextModule(context.Context) (bool, error) { return false, nil }
func (noModules) CleanupModules(context.Context)           {}

func restartPoints(thorough bool) {
	type rcfg struct {
		kind  string
		suite kex.Suite
		reuse bool
	}
	cfgs := []rcfg{{"ec256", kex.ECDH256Suite, false}, {"rsa2048restr", kex.ASYMKEX2048Suite, false}}
	if thorough {
		cfgs = append(cfgs, rcfg{"ec384", kex.ECDH384Suite, true}, rcfg{"rsapss3072", kex.DHKEXid15Suite, false}, rcfg{"rsapkcs3072", kex.ASYMKEX3072Suite, true}, rcfg{"rsapss2048", kex.DHKEXid14Suite, false})
	}
	var wg sync.WaitGroup
	for ci, cf := range cfgs {
		wg.Add(1)
		go func() {
			defer wg.Done()
			k := keys.KindByName(cf.kind)
			// count boundaries with an uninterrupted run
			n := runWithRestarts(ci*1000, k, cf.suite, cf.reuse, func(int) bool { return false })
			if n < 0 {
				return
			}
			r.Add("restart_boundaries", int64(n))
			for b := 0; b < n; b++ {
				runWithRestarts(ci*1000+1+b, k, cf.suite, cf.reuse, func(i int) bool { return i == b })
			}
			runWithRestarts(ci*1000+999, k, cf.suite, cf.reuse, func(int) bool { return true })
		}()
	}
	wg.Wait()
}

// runWithRestarts runs DI, TO0, TO1, TO2 against one SQLite-backed server; before exchange i (global index) the
// server side is torn down and rebuilt from the file if restartAt(i). Returns the number of exchanges, or -1.
func runWithRestarts(id int, k keys.Kind, suite kex.Suite, reuse bool, restartAt func(int) bool) int {
	r.Evaluations.Add(1)
	path := filepath.Join(scratch, fmt.Sprintf("restart-%d.sqlite", id))
	defer os.Remove(path)
	ctx := context.Background()
	what := fmt.Sprintf("%s/%s reuse=%v", k.Name, suite, reuse)
	var db *sqlite.DB
	var srv *lab.Server
	open := func() {
		if db != nil {
			_ = db.Close()
		}
		var err error
		db, err = sqlite.Open(path, "")
		if err != nil {
			r.Fatal("sqlite open: %v", err)
		}
		srv = lab.NewServer("sql", "owner1", db, noModules{})
		srv.Reuse = reuse
	}
	open()
	defer func() { _ = db.Close() }()
	for _, kk := range keys.Kinds {
		key := keys.Get(kk.Alg, "owner1")
		chain := []*x509.Certificate{keys.SelfSigned(kk.Alg+"-owner1", key)}
		_ = db.AddOwnerKey(kk.Type, key, chain)
		_ = db.AddManufacturerKey(kk.Type, key, chain)
	}
	idx, restarts := 0, 0
	wire := &lab.Wire{H: srv.Handler}
	wire.Pre = func(x *lab.Exchange) {
		if restartAt(idx) {
			open()
			wire.H = srv.Handler
			restarts++
		}
		idx++
	}
	fail := func(stage string, err error) int {
		r.Violation("restart-breaks:"+stage, fmt.Sprintf("%s: %s fails when the server is rebuilt from the database file before exchange(s) %v: %v", what, stage, restartsDesc(restartAt, idx), err), map[string]any{"config": what, "stage": stage, "exchanges_before_failure": idx})
		return -1
	}
	dev := lab.NewDevice(k, protocol.X509KeyEnc, "device")
	if err := dev.DI(ctx, wire.Transport()); err != nil {
		return fail("DI", err)
	}
	// the manufacturer (same service) extends to itself as owner: mfg and owner keys are the same ring here
	ov, err := db.RemoveVoucher(ctx, dev.Cred.GUID)
	if err != nil {
		return fail("voucher-after-DI", err)
	}
	x, err := lab.Extend(ov, keys.Get(k.Alg, "owner1"), keys.Get(k.Alg, "owner1"), k)
	if err != nil {
		return fail("extend", err)
	}
	if err := db.AddVoucher(ctx, x); err != nil {
		return fail("add-voucher", err)
	}
	c0 := &fdo.TO0Client{Vouchers: lateState{&db}, OwnerKeys: lateState{&db}, TTL: 3600}
	if _, err := c0.RegisterBlob(ctx, wire.Transport(), dev.Cred.GUID, lab.DefaultAddrs()); err != nil {
		return fail("TO0", err)
	}
	to1d, err := dev.TO1(ctx, wire.Transport())
	if err != nil {
		return fail("TO1", err)
	}
	cfg := dev.TO2Config(suite, kex.A128GcmCipher)
	cfg.AllowCredentialReuse = reuse
	cred, err := fdo.TO2(ctx, wire.Transport(), to1d, cfg)
	if err != nil {
		return fail("TO2", err)
	}
	if !reuse {
		if cred == nil {
			return fail("TO2-credential", fmt.Errorf("no replacement credential"))
		}
		nv, err := db.Voucher(ctx, cred.GUID)
		if err != nil {
			return fail("replacement-voucher", err)
		}
		nb, _ := cbor.Marshal(nv)
		if msg := lab.Agree(cred, dev, nb); msg != "" {
			return fail("agreement", fmt.Errorf("%s", msg))
		}
		if _, err := db.Voucher(ctx, dev.Cred.GUID); err == nil {
			return fail("old-voucher-gone", fmt.Errorf("old voucher still retrievable after replacement"))
		}
	}
	// no session may be left behind
	var left int
	_ = db.DB().QueryRow("SELECT COUNT(*) FROM sessions").Scan(&left)
	if left != 0 {
		r.Violation("sessions-left-behind", fmt.Sprintf("%s: %d sessions remain after all protocols completed", what, left), nil)
	}
	r.Distinct(fmt.Sprintf("restart|%s|%d restarts", what, restarts))
	return idx
}

func restartsDesc(at func(int) bool, n int) []int {
	var out []int
	for i := 0; i < n; i++ {
		if at(i) {
			out = append(out, i)
		}
	}
	sort.Ints(out)
	return out
}

// lateState reads the current DB object at call time (the TO0 client must follow restarts too).
type lateState struct{ db **sqlite.DB }

func (l lateState) AddVoucher(ctx context.Context, ov *fdo.Voucher) error {
	return (*l.db).AddVoucher(ctx, ov)
}
func (l lateState) Voucher(ctx context.Context, g protocol.GUID) (*fdo.Voucher, error) {
	return (*l.db).Voucher(ctx, g)
}
func (l lateState) OwnerKey(ctx context.Context, t protocol.KeyType, bits int) (crypto_Signer, []*x509.Certificate, error) {
	return (*l.db).OwnerKey(ctx, t, bits)
}
