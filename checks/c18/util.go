package main

import (
	"bytes"
	"crypto"
	"runtime"
	"strconv"
)

type crypto_Signer = crypto.Signer

// goid returns the current goroutine id (used only to give every worker goroutine its own virtual clock).
func goid() int64 {
	var buf [64]byte
	n := runtime.Stack(buf[:], false)
	f := bytes.Fields(buf[:n])
	if len(f) < 2 {
		return -1
	}
	id, _ := strconv.ParseInt(string(f[1]), 10, 64)
	return id
}
