#!/bin/bash
# Generates the overlay for C18: the fdo/kex re-export files plus a copy of the CURRENT /repo/sqlite/sqlite.go in
# which time.Now() is routed through a settable clock (virtual time for blob expiry).
set -e
OUT="$1"; D=/verif/.cache/overlay/c18; mkdir -p "$D"
sed 's/time\.Now()/verifNow()/g' /repo/sqlite/sqlite.go > "$D/sqlite.go"
if ! grep -q 'verifNow()' "$D/sqlite.go"; then echo "overlay: no time.Now() call found in sqlite.go (clock seam lost)"; exit 1; fi
cat > "$D/zz_verif_clock.go" <<'G'
package sqlite

import "time"

// VerifNow is the clock used by the store under verification builds (injected by /verif, never part of /repo).
var VerifNow = time.Now

func verifNow() time.Time { return VerifNow() }
G
printf '{"Replace":{"/repo/zz_verif_export.go":"/verif/overlay/fdo_export.go","/repo/kex/zz_verif_export.go":"/verif/overlay/kex_export.go","/repo/sqlite/sqlite.go":"%s/sqlite.go","/repo/sqlite/zz_verif_clock.go":"%s/zz_verif_clock.go"}}\n' "$D" "$D" > "$OUT"
