// C01 — a device completes TO2 only with the owner its voucher chain designates.
//
// Deviation-bounded exploration of the adversarial environment (owner + network) of the real device-side
// fdo.TO2: one (and selected two) deviations per run on what the device receives; the oracle is an independent
// reference predicate evaluated on the bytes actually delivered to the device.
package main

import (
	"bytes"
	"context"
	"crypto"
	"crypto/x509"
	"encoding/hex"
	"fmt"
	"hash"
	"strings"
	"sync"

	fdo "github.com/fido-device-onboard/go-fdo"
	"github.com/fido-device-onboard/go-fdo/cbor"
	"github.com/fido-device-onboard/go-fdo/cose"
	"github.com/fido-device-onboard/go-fdo/kex"
	"github.com/fido-device-onboard/go-fdo/protocol"
	"github.com/fido-device-onboard/go-fdo/serviceinfo"

	"verif/internal/cbormut"
	"verif/internal/ev"
	"verif/internal/keys"
	"verif/internal/lab"
	"verif/internal/probe"
	rc "verif/internal/refcbor"
	rv "verif/internal/refverify"
)

var r *ev.Run

type env struct {
	kind   keys.Kind
	enc    protocol.KeyEncoding
	hops   int
	w      *lab.World
	ov     []byte // voucher CBOR held by the owner
	to1d   *cose.Sign1[protocol.To1d, []byte]
	chain  []crypto.Signer // mfg, intermediate owners..., final owner
	donors map[string]*transcript
	// hmacStyle: how the device's secret-keyed HMAC is implemented: "" a plain hash.Hash; "fallible" a hash.Hash that
	// also offers Err() error (the optional method documented for hardware HMACs) and reports no error; "failing" one
	// whose Err() reports an error (the hardware failed: nothing may be trusted)
	hmacStyle string
}

// fallibleHash adds the optional Err method to a hash.
type fallibleHash struct {
	hash.Hash
	err error
}

func (f fallibleHash) Err() error { return f.err }

type transcript struct {
	req60  []byte
	resp61 []byte
	resp63 [][]byte
}

// deviation alters what the device receives. Any of the hooks may be nil.
type deviation struct {
	// replayed: what is delivered was recorded in ANOTHER session and nobody re-signed it; the peer of this run proved
	// nothing about this session, so any progress is a violation whatever the reference verifier says about the bytes
	replayed    bool
	class, what string
	on61        func(body []byte) []byte
	on63        func(i int, body []byte) []byte
	onTo1d      func(t *cose.Sign1[protocol.To1d, []byte]) *cose.Sign1[protocol.To1d, []byte]
	http        func(x *lab.Exchange)    // raw HTTP-level tampering of the 61 exchange
	label       func() (string, string)  // late-bound class/what (set by hooks that pick the mutant on the live message)
	ownerRole   string                   // if set, the device talks to a different owner instance (an earlier owner holding a shorter voucher)
	cut         int                      // with ownerRole: number of entries that owner's voucher has
	serveOther  []byte                   // the owner answers for the device\'s GUID with this other (valid) voucher
	on60        func(body []byte) []byte // alteration of the device\'s HelloDevice in flight
}

type obs struct {
	tr      transcript
	to1d    []byte
	cred    *fdo.DeviceCredential
	err     error
	sent64  bool
	modCall int
	applied bool
}

func newEnv(k keys.Kind, enc protocol.KeyEncoding, hops int, withTo1d bool) (*env, error) {
	ctx := context.Background()
	w := lab.NewWorld(k, enc)
	if _, err := w.Manufacture(ctx, hops); err != nil {
		return nil, err
	}
	e := &env{kind: k, enc: enc, hops: hops, w: w, donors: map[string]*transcript{}}
	e.ov, _ = w.Owner.Mem.VoucherBytes(w.Dev.Cred.GUID)
	e.chain = []crypto.Signer{keys.Get(k.Alg, "mfg")}
	roles := []string{"owner2", "owner3"}
	for i := 0; i < hops-1; i++ {
		e.chain = append(e.chain, keys.Get(k.Alg, roles[i%2]))
	}
	e.chain = append(e.chain, keys.Get(k.Alg, "owner1"))
	if withTo1d {
		if _, err := w.Register(ctx, w.WRV.Transport(), lab.DefaultAddrs()); err != nil {
			return nil, fmt.Errorf("TO0: %w", err)
		}
		t, err := w.Dev.TO1(ctx, w.WRV.Transport())
		if err != nil {
			return nil, fmt.Errorf("TO1: %w", err)
		}
		e.to1d = t
	}
	return e, nil
}

// freshOwner builds an owner instance holding a copy of the voucher (optionally cut to n entries, with the key
// ring of role), with one scripted owner module.
func (e *env) freshOwner(role string, cut int, rec *lab.Recorder) *lab.Server {
	ow := lab.NewMemServer("owner", role)
	var ov fdo.Voucher
	_ = cbor.Unmarshal(e.ov, &ov)
	if cut >= 0 && cut < len(ov.Entries) {
		ov.Entries = ov.Entries[:cut]
	}
	_ = ow.State.AddVoucher(context.Background(), &ov)
	ow.Mem.OwnerModules = func(context.Context, protocol.GUID, serviceinfo.Devmod, []string) []lab.NamedModule {
		return []lab.NamedModule{{Name: "vmod", Mod: &lab.OwnerScript{Name: "vmod", Rec: rec, Rounds: [][]lab.Msg{{{Name: "ping", Body: []byte{0x01}}}}}}}
	}
	return ow
}

func (e *env) run(d deviation) obs {
	var o obs
	rec := &lab.Recorder{}
	role, cut := "owner1", -1
	if d.ownerRole != "" {
		role, cut = d.ownerRole, d.cut
	}
	ow := e.freshOwner(role, cut, rec)
	if d.serveOther != nil {
		ow.Mem.PutVoucherAs(e.w.Dev.Cred.GUID, d.serveOther)
		o.applied = true
	}
	wire := lab.NewWire(ow)
	n62 := 0
	wire.Pre = func(x *lab.Exchange) {
		switch x.MsgType {
		case 60:
			o.tr.req60 = bytes.Clone(x.ReqBody) // what the device sent
			e.noteHelloNonce(x.ReqBody, d)
			if d.on60 != nil {
				if nb := d.on60(x.ReqBody); nb != nil && !bytes.Equal(nb, x.ReqBody) {
					x.ReqBody, o.applied = nb, true
				}
			}
		case 64:
			o.sent64 = true
		}
	}
	wire.Post = func(x *lab.Exchange) {
		switch x.MsgType {
		case 60:
			if d.on61 != nil && x.RespType == 61 {
				if nb := d.on61(x.RespBody); nb != nil && !bytes.Equal(nb, x.RespBody) {
					x.RespBody, o.applied = nb, true
					x.RespHeader.Set("Content-Length", fmt.Sprint(len(nb)))
				}
			}
			if d.http != nil {
				d.http(x)
				o.applied = true
			}
			o.tr.resp61 = bytes.Clone(x.RespBody)
		case 62:
			i := n62
			n62++
			if d.on63 != nil && x.RespType == 63 {
				if nb := d.on63(i, x.RespBody); nb != nil && !bytes.Equal(nb, x.RespBody) {
					x.RespBody, o.applied = nb, true
					x.RespHeader.Set("Content-Length", fmt.Sprint(len(nb)))
				}
			}
			o.tr.resp63 = append(o.tr.resp63, bytes.Clone(x.RespBody))
		}
	}
	to1d := e.to1d
	if d.onTo1d != nil && to1d != nil {
		if nt := d.onTo1d(to1d); nt != nil {
			to1d, o.applied = nt, true
		}
	}
	if to1d != nil {
		o.to1d, _ = cbor.Marshal(to1d.Tag())
	}
	if d.ownerRole != "" {
		o.applied = true
	}
	cfg := e.w.Dev.TO2Config(lab.DefaultSuite(e.kind), kex.A128GcmCipher)
	cfg.DeviceModules = map[string]serviceinfo.DeviceModule{"vmod": &lab.DeviceRec{Name: "vmod", Rec: rec}}
	switch e.hmacStyle {
	case "fallible":
		cfg.HmacSha256, cfg.HmacSha384 = fallibleHash{cfg.HmacSha256, nil}, fallibleHash{cfg.HmacSha384, nil}
	case "failing":
		herr := fmt.Errorf("verif: hardware HMAC failed")
		cfg.HmacSha256, cfg.HmacSha384 = fallibleHash{cfg.HmacSha256, herr}, fallibleHash{cfg.HmacSha384, herr}
	}
	if p := probe.Call(func() { o.cred, o.err = fdo.TO2(context.Background(), wire.Transport(), to1d, cfg) }); p != nil {
		r.Violation(p.Key(), fmt.Sprintf("%s: device TO2 panics on %s (%s): %s in %s", e.kind.Name, d.class, d.what, p.Value, p.Frame), map[string]any{"class": d.class, "what": d.what, "resp61": hex.EncodeToString(o.tr.resp61)})
		o.err = fmt.Errorf("panic")
	}
	o.modCall = rec.Count("device", "")
	return o
}

// helloNonces: every NonceTO2ProveOV any device run of this check put on the wire. "Fresh" means a value the device
// has not used before: a repeat (2^-128 by chance) or the all-zero value is a violation by itself - every replay
// defence of the device rests on it.
var helloNonces sync.Map

func (e *env) noteHelloNonce(req60 []byte, d deviation) {
	hello, n, err := rc.Parse(req60)
	if err != nil || n != len(req60) || hello.Kind != rc.Array || len(hello.Items) != 6 || hello.Items[2].Kind != rc.Bytes {
		return
	}
	nonce := hex.EncodeToString(hello.Items[2].B)
	id := fmt.Sprintf("%s/enc%d hops=%d %s (%s)", e.kind.Name, e.enc, e.hops, d.class, d.what)
	if strings.Trim(nonce, "0") == "" {
		r.Violation("hello-nonce-not-fresh:zero", fmt.Sprintf("%s: the device's HelloDevice carries the all-zero nonce", id), map[string]any{"req60": hex.EncodeToString(req60)})
		return
	}
	if prev, dup := helloNonces.LoadOrStore(nonce, id); dup {
		r.Violation("hello-nonce-not-fresh:repeated", fmt.Sprintf("%s: HelloDevice nonce %s was already used by run %v", id, nonce, prev), map[string]any{"req60": hex.EncodeToString(req60)})
	}
}

// refP is the reference predicate on what the device received.
func (e *env) refP(o obs) (bool, string) {
	hello, n, err := rc.Parse(o.tr.req60)
	if err != nil || n != len(o.tr.req60) || hello.Kind != rc.Array || len(hello.Items) != 6 || hello.Items[2].Kind != rc.Bytes {
		return false, "HelloDevice not recorded"
	}
	// value level: normalise through the codec (decoder leniencies do not change bound values)
	var p61 cose.Sign1Tag[fdo.XOvhProof, []byte]
	if err := cbor.Unmarshal(o.tr.resp61, &p61); err != nil || p61.Payload == nil {
		return false, "ProveOVHdr not decodable"
	}
	n61, err := cbor.Marshal(p61)
	if err != nil {
		return false, "ProveOVHdr not re-encodable"
	}
	it, _, err := rc.Parse(n61)
	if err != nil {
		return false, "ProveOVHdr"
	}
	s, err := rv.ParseSign1(it, true)
	if err != nil || s.Payload == nil {
		return false, "ProveOVHdr is not a COSE_Sign1"
	}
	pl, k, err := rc.Parse(s.Payload)
	if err != nil || k != len(s.Payload) || pl.Kind != rc.Array || len(pl.Items) != 8 || pl.Items[0].Kind != rc.Bytes {
		return false, "ProveOVHdr payload shape"
	}
	num, ok := rv.IntOf(pl.Items[1])
	if !ok {
		return false, "NumOVEntries"
	}
	var entries []*rc.Item
	for i, b := range o.tr.resp63 {
		var ent fdo.XOvEntry
		if err := cbor.Unmarshal(b, &ent); err != nil {
			return false, fmt.Sprintf("OVNextEntry %d not decodable", i)
		}
		nb, _ := cbor.Marshal(ent)
		ei, _, err := rc.Parse(nb)
		if err != nil || ei.Kind != rc.Array || len(ei.Items) != 2 {
			return false, "OVNextEntry shape"
		}
		if echo, ok := rv.IntOf(ei.Items[0]); !ok || echo != int64(i) {
			return false, fmt.Sprintf("entry %d echoes index %d", i, echo)
		}
		entries = append(entries, ei.Items[1])
	}
	if int64(len(entries)) != num || num < 1 {
		return false, fmt.Sprintf("NumOVEntries=%d but %d entries delivered", num, len(entries))
	}
	v, err := rv.FromParts(pl.Items[0].B, pl.Items[2], entries)
	if err != nil {
		return false, err.Error()
	}
	if !v.VerifyHMAC(e.w.Dev.Secret) {
		return false, "header HMAC does not verify under the device secret"
	}
	if !v.VerifyKeyHash(int64(e.w.Dev.Cred.PublicKeyHash.Algorithm), e.w.Dev.Cred.PublicKeyHash.Value) {
		return false, "manufacturer key does not match the credential's key hash"
	}
	owner, err := v.VerifyEntries()
	if err != nil {
		return false, "entry chain: " + err.Error()
	}
	adv := s.UnprotectedGet(257)
	if adv == nil {
		return false, "CUPHOwnerPubKey missing"
	}
	advKey, err := rv.ParsePublicKeyAnyType(adv)
	if err != nil || !rv.KeysEqual(advKey, owner) {
		return false, "advertised owner key is not the chain's last key"
	}
	if !s.Verify(owner, nil) {
		return false, "ProveOVHdr is not signed by the chain's last key"
	}
	if pl.Items[3].Kind != rc.Bytes || !bytes.Equal(pl.Items[3].B, hello.Items[2].B) {
		return false, "nonce is not the device's HelloDevice nonce"
	}
	hh := pl.Items[6]
	if hh.Kind != rc.Array || len(hh.Items) != 2 || hh.Items[1].Kind != rc.Bytes {
		return false, "HelloDeviceHash shape"
	}
	alg, _ := rv.IntOf(hh.Items[0])
	hf := rv.HashByAlg(alg)
	if hf == nil || (alg != -16 && alg != -43) {
		return false, "HelloDeviceHash algorithm"
	}
	h := hf()
	h.Write(o.tr.req60)
	if !bytes.Equal(h.Sum(nil), hh.Items[1].B) {
		return false, "HelloDeviceHash is not the hash of the HelloDevice sent"
	}
	if s.UnprotectedGet(256) == nil {
		return false, "CUPHNonce missing"
	}
	if o.to1d != nil {
		ti, _, err := rc.Parse(o.to1d)
		if err != nil {
			return false, "to1d"
		}
		ts, err := rv.ParseSign1(ti, true)
		if err != nil || !ts.Verify(owner, nil) {
			return false, "to1d is not signed by the chain's last key"
		}
	}
	return true, ""
}

func (e *env) judge(d deviation, o obs, honest bool) {
	r.Evaluations.Add(1)
	if !honest && !o.applied && e.hmacStyle != "failing" {
		return
	}
	ok, why := e.refP(o)
	progressed := o.cred != nil || o.err == nil || o.modCall > 0 || o.sent64
	id := fmt.Sprintf("%s/enc%d hops=%d to1d=%v", e.kind.Name, e.enc, e.hops, e.to1d != nil)
	if e.hmacStyle != "" {
		id += " hmac=" + e.hmacStyle
	}
	repl := map[string]any{"config": id, "class": d.class, "what": d.what, "req60": hex.EncodeToString(o.tr.req60), "resp61": hex.EncodeToString(o.tr.resp61), "to1d": hex.EncodeToString(o.to1d)}
	if e.hmacStyle == "failing" {
		if progressed {
			r.Violation("proceeds-although-hmac-failed:"+d.class, fmt.Sprintf("%s %s (%s): the device's HMAC implementation reported an error, yet the device went on (cred=%v err=%v module calls=%d ProveDevice sent=%v)", id, d.class, d.what, o.cred != nil, o.err, o.modCall, o.sent64), repl)
		}
		r.Distinct(fmt.Sprintf("%s|%s|failing-hmac|%v", e.kind.Name, d.class, progressed))
		return
	}
	if d.replayed && o.applied && progressed {
		r.Violation("proceeds-on-replayed-proof:"+d.class, fmt.Sprintf("%s %s (%s): the device went on (cred=%v err=%v module calls=%d ProveDevice sent=%v) on an owner proof recorded in another session", id, d.class, d.what, o.cred != nil, o.err, o.modCall, o.sent64), repl)
	}
	if progressed && !ok {
		r.Violation("proceeds-without-proof:"+d.class, fmt.Sprintf("%s %s (%s): device went on (cred=%v err=%v module calls=%d ProveDevice sent=%v) although the reference predicate fails: %s", id, d.class, d.what, o.cred != nil, o.err, o.modCall, o.sent64, why), repl)
	}
	if !ok && (o.err == nil || o.cred != nil) {
		r.Violation("no-error-without-proof:"+d.class, fmt.Sprintf("%s %s (%s): TO2 returned cred=%v err=%v although %s", id, d.class, d.what, o.cred != nil, o.err, why), repl)
	}
	if honest && !(ok && o.err == nil && o.cred != nil && o.modCall > 0) {
		r.Violation("honest-fails:"+d.class, fmt.Sprintf("%s %s: honest run: err=%v cred=%v module calls=%d reference=%v %s", id, d.class, o.err, o.cred != nil, o.modCall, ok, why), repl)
	}
	r.Distinct(fmt.Sprintf("%s|%s|%v|%v|%s", e.kind.Name, d.class, progressed, ok, why))
}

// ---- deviation constructors ----

func (e *env) pubKeyOf(k crypto.Signer) *protocol.PublicKey {
	pk, _ := lab.EncodePublicKey(e.kind.Type, e.enc, k.Public(), []*x509.Certificate{keys.SelfSigned(fmt.Sprintf("c01-%p", k), k)})
	return pk
}

func (e *env) resign61(k crypto.Signer, swapAdvertised bool) func([]byte) []byte {
	return func(body []byte) []byte {
		var t cose.Sign1Tag[fdo.XOvhProof, []byte]
		if err := cbor.Unmarshal(body, &t); err != nil {
			return nil
		}
		s := cose.Sign1[fdo.XOvhProof, []byte]{Header: cose.Header{Unprotected: t.Unprotected}, Payload: t.Payload}
		if swapAdvertised {
			s.Unprotected[cose.Label{Int64: 257}] = e.pubKeyOf(k)
		}
		if err := s.Sign(k, nil, nil, signOpts(k, e.kind.PSS)); err != nil {
			return nil
		}
		out, _ := cbor.Marshal(s.Tag())
		return out
	}
}

func (e *env) resignEntry(idx int, k crypto.Signer, nextKey crypto.Signer) func(int, []byte) []byte {
	return func(i int, body []byte) []byte {
		if i != idx {
			return nil
		}
		var ent fdo.XOvEntry
		if err := cbor.Unmarshal(body, &ent); err != nil {
			return nil
		}
		pl := ent.OVEntry.Payload.Val
		if nextKey != nil {
			pl.PublicKey = *e.pubKeyOf(nextKey)
		}
		s := cose.Sign1[fdo.VoucherEntryPayload, []byte]{Payload: cbor.NewByteWrap(pl)}
		if err := s.Sign(k, nil, nil, signOpts(k, e.kind.PSS)); err != nil {
			return nil
		}
		ent.OVEntry = *s.Tag()
		out, _ := cbor.Marshal(ent)
		return out
	}
}

func (e *env) resignTo1d(k crypto.Signer) func(*cose.Sign1[protocol.To1d, []byte]) *cose.Sign1[protocol.To1d, []byte] {
	return func(t *cose.Sign1[protocol.To1d, []byte]) *cose.Sign1[protocol.To1d, []byte] {
		s := cose.Sign1[protocol.To1d, []byte]{Payload: t.Payload}
		if err := s.Sign(k, nil, nil, signOpts(k, e.kind.PSS)); err != nil {
			return nil
		}
		return &s
	}
}

func patchEcho(body []byte, num int) []byte {
	it, _, err := rc.Parse(body)
	if err != nil || it.Kind != rc.Array || len(it.Items) != 2 {
		return nil
	}
	return rc.Encode(rc.A(rc.Int(int64(num)), it.Items[1]))
}

func (e *env) explore(thorough bool) {
	d0 := deviation{class: "honest", what: "baseline"}
	base := e.run(d0)
	e.judge(d0, base, true)
	if base.err != nil {
		return
	}
	// donors for substitution
	other := e.run(d0)
	e.donors["same-device-other-session"] = &other.tr
	if w2, err := newEnvDonor(e.kind, e.enc, e.hops, "mfg"); err == nil {
		e.donors["other-device-same-mfg"] = w2
	}
	opts := cbormut.Options{Leaf: true, ByteFlips: thorough, IntDomain: []int64{-16, -43, 5, 6, -7, -35, -257, -258, -37, -38, 0, 255}}
	pick := func(i int, m *cbormut.Mutant) func([]byte) []byte {
		return func(body []byte) []byte {
			ms := cbormut.Enumerate(body, opts)
			if i >= len(ms) {
				return nil
			}
			*m = ms[i]
			return m.Get()
		}
	}
	var wg sync.WaitGroup
	sem := make(chan struct{}, 3)
	goRun := func(d func() deviation) {
		wg.Add(1)
		sem <- struct{}{}
		go func() {
			defer wg.Done()
			defer func() { <-sem }()
			dv := d()
			o := e.run(dv)
			if dv.label != nil {
				dv.class, dv.what = dv.label()
			}
			if dv.class == "" {
				return
			}
			e.judge(dv, o, false)
		}()
	}
	// (a) every single-node alteration of 61, of every 63 and of the to1d
	n61 := len(cbormut.Enumerate(base.tr.resp61, opts))
	r.Add("mutants_61", int64(n61))
	for i := 0; i < n61; i++ {
		goRun(func() deviation {
			m := new(cbormut.Mutant)
			return deviation{on61: pick(i, m), label: func() (string, string) { return "leaf61:" + m.Op, m.Path }}
		})
	}
	for ei := range base.tr.resp63 {
		n63 := len(cbormut.Enumerate(base.tr.resp63[ei], opts))
		r.Add("mutants_63", int64(n63))
		for i := 0; i < n63; i++ {
			goRun(func() deviation {
				m := new(cbormut.Mutant)
				return deviation{on63: func(k int, b []byte) []byte {
					if k != ei {
						return nil
					}
					return pick(i, m)(b)
				}, label: func() (string, string) { return "leaf63:" + m.Op, fmt.Sprintf("entry%d%s", ei, m.Path) }}
			})
		}
	}
	if e.to1d != nil {
		tb, _ := cbor.Marshal(e.to1d.Tag())
		ms := cbormut.Enumerate(tb, opts)
		r.Add("mutants_to1d", int64(len(ms)))
		for _, m := range ms {
			goRun(func() deviation {
				return deviation{class: "leafto1d:" + m.Op, what: m.Path, onTo1d: func(*cose.Sign1[protocol.To1d, []byte]) *cose.Sign1[protocol.To1d, []byte] {
					var t cose.Sign1Tag[protocol.To1d, []byte]
					if nb := m.Get(); nb == nil || cbor.Unmarshal(nb, &t) != nil {
						return nil
					}
					return t.Untag()
				}}
			})
		}
	}
	// (b) re-signing with every other key
	type sk struct {
		name string
		key  crypto.Signer
	}
	var others []sk
	for i, k := range e.chain[:len(e.chain)-1] {
		others = append(others, sk{fmt.Sprintf("chain-key-%d", i), k})
	}
	others = append(others, sk{"stranger", keys.Get(e.kind.Alg, "stranger")}, sk{"other-mfg", keys.Get(e.kind.Alg, "mfg2")}, sk{"device-key", e.w.Dev.Key})
	for _, alg := range []string{"ec256", "ec384", "rsa2048"} {
		if alg != e.kind.Alg {
			others = append(others, sk{"stranger-" + alg, keys.Get(alg, "stranger")})
		}
	}
	last := e.hops - 1
	for _, s := range others {
		sameAlg := strings.HasPrefix(s.name, "chain") || s.name == "stranger" || s.name == "other-mfg" || s.name == "device-key"
		for _, swap := range []bool{false, true} {
			if swap && !sameAlg {
				continue
			}
			goRun(func() deviation {
				return deviation{class: fmt.Sprintf("resign61:swap=%v", swap), what: s.name, on61: e.resign61(s.key, swap)}
			})
		}
		if !sameAlg {
			continue
		}
		for ei := 0; ei < e.hops; ei++ {
			goRun(func() deviation {
				return deviation{class: "resign-entry", what: fmt.Sprintf("entry%d by %s", ei, s.name), on63: e.resignEntry(ei, s.key, nil)}
			})
		}
		if e.to1d != nil {
			goRun(func() deviation { return deviation{class: "resign-to1d", what: s.name, onTo1d: e.resignTo1d(s.key)} })
		}
		// bound 2: pairs of semantic deviations
		goRun(func() deviation {
			return deviation{class: "pair:resign61+last-entry-names-attacker", what: s.name, on61: e.resign61(s.key, true), on63: e.resignEntry(last, s.key, s.key)}
		})
		if e.to1d != nil {
			goRun(func() deviation {
				return deviation{class: "pair:resign61+resign-to1d", what: s.name, on61: e.resign61(s.key, true), onTo1d: e.resignTo1d(s.key)}
			})
		}
	}
	// an earlier owner of the chain serving its own (shorter, valid) voucher: a legitimate fork, decided by the reference
	roles := []string{"owner2", "owner3"}
	for c := 1; c < e.hops; c++ {
		goRun(func() deviation {
			return deviation{class: "earlier-owner-serves-shorter-voucher", what: fmt.Sprintf("cut=%d", c), ownerRole: roles[(c-1)%2], cut: c}
		})
	}
	// (c) whole-message substitution from other sessions / devices
	for name, dn := range e.donors {
		goRun(func() deviation {
			return deviation{class: "substitute61", what: name, replayed: true, on61: func([]byte) []byte { return dn.resp61 }}
		})
		for ei := range dn.resp63 {
			goRun(func() deviation {
				return deviation{class: "substitute63", what: fmt.Sprintf("%s entry%d", name, ei), on63: func(i int, _ []byte) []byte {
					if i == ei {
						return dn.resp63[ei]
					}
					return nil
				}}
			})
		}
		goRun(func() deviation {
			return deviation{class: "pair:substitute61+all63", what: name, replayed: true, on61: func([]byte) []byte { return dn.resp61 }, on63: func(i int, _ []byte) []byte {
				if i < len(dn.resp63) {
					return dn.resp63[i]
				}
				return nil
			}}
		})
	}
	// (c') an owner that answers for this device's GUID with another, perfectly valid voucher it owns
	for name, ovb := range e.otherVouchers() {
		goRun(func() deviation { return deviation{class: "owner-serves-other-voucher", what: name, serveOther: ovb} })
	}
	// the device's HelloDevice altered in flight (the owner then signs the hash of something the device never sent)
	n60 := len(cbormut.Enumerate(base.tr.req60, opts))
	for i := 0; i < n60; i++ {
		goRun(func() deviation {
			m := new(cbormut.Mutant)
			return deviation{on60: pick(i, m), label: func() (string, string) { return "hello-in-flight:" + m.Op, m.Path }}
		})
	}
	// (d) entry list structure
	if e.hops >= 2 {
		goRun(func() deviation {
			var first []byte
			return deviation{class: "entries-swapped", what: "0<->1 with echoes fixed", on63: func(i int, b []byte) []byte {
				switch i {
				case 0:
					first = b
					return patchEcho(base.tr.resp63[1], 0) // stale session copy of entry 1 in slot 0
				case 1:
					return patchEcho(first, 1)
				}
				return nil
			}}
		})
		goRun(func() deviation {
			var first []byte
			return deviation{class: "entry-duplicated", what: "entry0 served twice", on63: func(i int, b []byte) []byte {
				if i == 0 {
					first = b
				}
				if i == 1 {
					return patchEcho(first, 1)
				}
				return nil
			}}
		})
	}
	for ei := 0; ei < e.hops; ei++ {
		for _, delta := range []int{-1, 1} {
			goRun(func() deviation {
				return deviation{class: "echo-off-by-one", what: fmt.Sprintf("entry%d%+d", ei, delta), on63: func(i int, b []byte) []byte {
					if i == ei {
						return patchEcho(b, i+delta)
					}
					return nil
				}}
			})
		}
	}
	// (e) HTTP-level faults on the 61 exchange
	for _, h := range []struct {
		name string
		f    func(x *lab.Exchange)
	}{{"message-type-63", func(x *lab.Exchange) { x.RespHeader.Set("Message-Type", "63") }}, {"message-type-255", func(x *lab.Exchange) { x.RespHeader.Set("Message-Type", "255") }},
		{"message-type-garbage", func(x *lab.Exchange) { x.RespHeader.Set("Message-Type", "sixty-one") }}, {"message-type-65", func(x *lab.Exchange) { x.RespHeader.Set("Message-Type", "65") }},
		{"status-500-cbor", func(x *lab.Exchange) { x.Status = 500; x.RespHeader.Set("Content-Type", "application/cbor") }}, {"status-404", func(x *lab.Exchange) { x.Status = 404 }},
		{"empty-body", func(x *lab.Exchange) { x.RespBody = nil; x.RespHeader.Set("Content-Length", "0") }}, {"no-content-length", func(x *lab.Exchange) { x.RespHeader.Del("Content-Length") }},
		{"token-dropped", func(x *lab.Exchange) { x.RespHeader.Del("Authorization") }}} {
		goRun(func() deviation { return deviation{class: "http:" + h.name, what: h.name, http: h.f} })
	}
	wg.Wait()
}

// otherVouchers builds valid vouchers held by the same owner that are NOT this device's current voucher:
// another device of the same manufacturer, a device of another manufacturer, and the replacement voucher of this
// very device from a TO2 whose Done2 never reached it (valid header MAC under the device secret, but the device's
// credential still names the manufacturer key), extended once so that it can be served.
func (e *env) otherVouchers() map[string][]byte {
	out := map[string][]byte{}
	ctx := context.Background()
	mk := func(mfgRole, devRole string) []byte {
		w := lab.NewWorld(e.kind, e.enc)
		w.Mfg = lab.NewMemServer("mfg", mfgRole)
		w.WMfg = lab.NewWire(w.Mfg)
		w.Dev = lab.NewDevice(e.kind, e.enc, devRole)
		if err := w.Dev.DI(ctx, w.WMfg.Transport()); err != nil {
			return nil
		}
		ov, err := w.Mfg.State.RemoveVoucher(ctx, w.Dev.Cred.GUID)
		if err != nil {
			return nil
		}
		x, err := lab.Extend(ov, keys.Get(e.kind.Alg, mfgRole), keys.Get(e.kind.Alg, "owner1"), e.kind)
		if err != nil {
			return nil
		}
		b, _ := cbor.Marshal(x)
		return b
	}
	if b := mk("mfg", "device2"); b != nil {
		out["other-device-same-manufacturer"] = b
	}
	if b := mk("mfg2", "device2"); b != nil {
		out["device-of-another-manufacturer"] = b
	}
	// stale credential: run TO2 with the Done2 response lost; the owner has replaced the voucher
	rec := &lab.Recorder{}
	ow := e.freshOwner("owner1", -1, rec)
	wire := lab.NewWire(ow)
	wire.Post = func(x *lab.Exchange) {
		if x.MsgType == 70 {
			x.Err = lab.ErrCut
		}
	}
	cfg := e.w.Dev.TO2Config(lab.DefaultSuite(e.kind), kex.A128GcmCipher)
	if _, err := fdo.TO2(ctx, wire.Transport(), e.to1d, cfg); err != nil {
		for _, b := range ow.Mem.AllVouchers() {
			var nv fdo.Voucher
			if cbor.Unmarshal(b, &nv) == nil && nv.Header.Val.GUID != e.w.Dev.Cred.GUID && len(nv.Entries) == 0 {
				if x, err := lab.Extend(&nv, keys.Get(e.kind.Alg, "owner1"), keys.Get(e.kind.Alg, "owner1"), e.kind); err == nil {
					if xb, err := cbor.Marshal(x); err == nil {
						out["own-replacement-voucher-of-a-TO2-whose-Done2-was-lost"] = xb
					}
				}
			}
		}
	}
	return out
}

func newEnvDonor(k keys.Kind, enc protocol.KeyEncoding, hops int, _ string) (*transcript, error) {
	e2, err := newEnv(k, enc, hops, false)
	if err != nil {
		return nil, err
	}
	o := e2.run(deviation{class: "honest"})
	if o.err != nil {
		return nil, o.err
	}
	return &o.tr, nil
}

func main() {
	r = ev.Start("C01", "fault_enumeration")
	type cfg struct {
		kind string
		enc  protocol.KeyEncoding
		hops int
		to1d bool
		hmac string
	}
	cfgs := []cfg{{"ec256", protocol.X509KeyEnc, 2, true, ""}, {"rsa2048restr", protocol.X5ChainKeyEnc, 2, false, ""}, {"ec256", protocol.X509KeyEnc, 1, false, "fallible"}, {"ec384", protocol.X509KeyEnc, 1, false, "fallible"}}
	if !r.Quick() {
		cfgs = nil
		for _, k := range keys.Kinds {
			for _, enc := range k.Encodings() {
				cfgs = append(cfgs, cfg{k.Name, enc, 1, true, ""}, cfg{k.Name, enc, 3, false, ""})
			}
			cfgs = append(cfgs, cfg{k.Name, protocol.X509KeyEnc, 2, true, "fallible"})
		}
		cfgs = append(cfgs, cfg{"ec256", protocol.X509KeyEnc, 2, true, ""}, cfg{"ec384", protocol.CoseKeyEnc, 2, false, ""})
	}
	r.Rule("per configuration (key type x encoding x chain length x with/without to1d): an honest TO2 with a device module, then ONE deviation per run (bound 1, complete over the operator x node product) on what the real device-side fdo.TO2 receives: every single-node alteration (thorough: plus every byte ^0x01) of ProveOVHdr, of every OVNextEntry and of the to1d; 61 / each entry / to1d re-signed by every other key of the ring (each earlier chain key, strangers of same and other type, another manufacturer, the device key) with and without swapping the advertised owner key; an earlier owner serving its own shorter voucher; whole-message substitution from another session, another device; entries swapped/duplicated, echo index +-1; 9 HTTP-level faults; plus bound-2 pairs of the semantic operators. Two (thorough: six more) configurations run with a device HMAC that also implements the optional Err() method (hardware style) and, once, with one whose Err() reports a failure (then nothing may proceed). Oracle: (credential returned, nil error, any device-module callback, or a ProveDevice request leaving the device) => reference predicate on the delivered bytes (header HMAC under the device secret, manufacturer key hash, link-by-link entry chain, advertised key = last entry key, 61 signed by it over the device's nonce and HelloDevice hash, entry count/echo, to1d signed by it).")
	var wg sync.WaitGroup
	sem := make(chan struct{}, 6)
	for _, c := range cfgs {
		wg.Add(1)
		sem <- struct{}{}
		go func() {
			defer wg.Done()
			defer func() { <-sem }()
			e, err := newEnv(keys.KindByName(c.kind), c.enc, c.hops, c.to1d)
			if err != nil {
				r.Violation("lab-setup:"+c.kind, fmt.Sprintf("%+v: %v", c, err), nil)
				return
			}
			e.hmacStyle = c.hmac
			e.explore(!r.Quick())
			if c.hmac == "fallible" {
				// the same device with an HMAC implementation that reports a failure: not even the honest owner may be trusted
				e.hmacStyle = "failing"
				d0 := deviation{class: "honest", what: "hardware HMAC reports an error"}
				e.judge(d0, e.run(d0), false)
			}
		}()
	}
	wg.Wait()
	r.Sample(3, map[string]any{"class": "resign61:swap=true", "signer": "stranger", "config": "ec256 hops=2 to1d"})
	r.Sample(3, map[string]any{"class": "leaf63:str-flip-last", "path": "entry1/1/0/3"})
	r.Assume("reference verdict is taken on the codec-normalised form of the delivered messages (decoder leniencies change no bound value); stdlib crypto trusted")
	r.Finish()
}
