// C10: no peer-supplied bytes can crash, hang or exhaust a protocol endpoint.
//
// A "site" is one message position of one protocol run in one direction (request to the server role, response to
// the client role) for one configuration. For every site the honest message at that position is captured with the
// session state of all preceding honest steps, and EVERY mutant of a fixed operator set is delivered in its place:
//
//	plain  structure-aware mutants of the plaintext (inside the TO2 tunnel where there is one; inside signatures,
//	       re-signed with the right key, where the message is a COSE_Sign1 or carries one), truncations, trailing data
//	bytes  a fixed corpus of hostile byte strings (every single byte, length bombs, deep nesting, 64 KiB bodies)
//	wire   mutants of the bytes on the wire for encrypted positions, and HTTP-level variants (path, method,
//	       Authorization, Message-Type, Content-Length, status) at every position
//
// Oracle: no panic (recovered and attributed to the top go-fdo frame; unrecoverable crashes are caught by running
// cases in worker subprocesses), no hang, allocation <= A0 + K*len, the server's answer is a well-formed FDO message
// (an error message, or the regular next message if the mutant was harmless) and the client role returns.
package main

import (
	"bytes"
	"context"
	"crypto"
	"crypto/ecdsa"
	"crypto/rand"
	"crypto/rsa"
	"crypto/sha256"
	"crypto/sha512"
	"encoding/hex"
	"encoding/json"
	"fmt"
	"io"
	"math/big"
	"net/http"
	"os"
	"strings"
	"time"

	fdo "github.com/fido-device-onboard/go-fdo"
	"github.com/fido-device-onboard/go-fdo/cbor"
	"github.com/fido-device-onboard/go-fdo/kex"
	"github.com/fido-device-onboard/go-fdo/protocol"
	"github.com/fido-device-onboard/go-fdo/serviceinfo"

	"verif/internal/cbormut"
	"verif/internal/ev"
	"verif/internal/keys"
	"verif/internal/lab"
	"verif/internal/probe"
	rc "verif/internal/refcbor"
	"verif/internal/workers"
)

// ---------------- configurations and sites ----------------

type cfg struct {
	Name   string
	Alg    string
	Enc    protocol.KeyEncoding
	Suite  kex.Suite
	Cipher kex.CipherSuiteID
	Hops   int
	Split  bool // deployment with one role per server: manufacturer (DI only), rendezvous (TO0, TO1), owner (TO2)
}

var cfgs = []cfg{
	{"ec256-x509-ecdh256-gcm", "ec256", protocol.X509KeyEnc, kex.ECDH256Suite, kex.A128GcmCipher, 2, false},
	{"ec384-cose-ecdh384-cbc", "ec384", protocol.CoseKeyEnc, kex.ECDH384Suite, kex.CoseAes256CbcCipher, 1, true},
	{"rsa2048-x5chain-dhkex14-ctr", "rsa2048restr", protocol.X5ChainKeyEnc, kex.DHKEXid14Suite, kex.CoseAes128CtrCipher, 1, false},
	{"rsapss3072-x509-asymkex3072-gcm256", "rsapss3072", protocol.X509KeyEnc, kex.ASYMKEX3072Suite, kex.A256GcmCipher, 1, true},
	{"ec256-x5chain-ecdh256-cbc128-hops3", "ec256", protocol.X5ChainKeyEnc, kex.ECDH256Suite, kex.CoseAes128CbcCipher, 3, true},
	{"rsapkcs3072-x509-dhkex15-ctr256", "rsapkcs3072", protocol.X509KeyEnc, kex.DHKEXid15Suite, kex.CoseAes256CtrCipher, 2, false},
}

func cfgsFor(tier string) []cfg {
	if tier == "quick" {
		return cfgs[:2]
	}
	return cfgs
}

var protos = []string{"di", "to0", "to1", "to2"}

type site struct {
	Cfg   int
	Proto string
	Idx   int    // index of the Send call within the run
	Dir   string // req or resp
	Type  int    // message type observed there on the honest run
	Plain []byte // honest plaintext (parent only)
	Wire  []byte // honest bytes on the wire (parent only)
	N     map[string]int
}

type world struct {
	c   cfg
	w   *lab.World
	ctx context.Context
}

func kindOf(alg string) keys.Kind {
	for _, k := range keys.Kinds {
		if k.Alg == alg || k.Name == alg {
			return k
		}
	}
	panic("unknown key kind " + alg)
}

func newWorld(c cfg) (*world, error) {
	ctx := context.Background()
	w := lab.NewWorld(kindOf(c.Alg), c.Enc)
	if _, err := w.Manufacture(ctx, c.Hops); err != nil {
		return nil, fmt.Errorf("manufacture: %w", err)
	}
	w.Owner.Reuse = true
	if c.Split {
		// one role per server, as deployments do: the other responders are simply not configured
		w.Mfg.Handler.TO0Responder, w.Mfg.Handler.TO1Responder, w.Mfg.Handler.TO2Responder = nil, nil, nil
		w.RV.Handler.DIResponder, w.RV.Handler.TO2Responder = nil, nil
		w.Owner.Handler.DIResponder, w.Owner.Handler.TO0Responder, w.Owner.Handler.TO1Responder = nil, nil, nil
	}
	w.Owner.Mem.OwnerModules = func(context.Context, protocol.GUID, serviceinfo.Devmod, []string) []lab.NamedModule {
		return []lab.NamedModule{{Name: "m", Mod: &ownMod{}}}
	}
	wd := &world{c: c, w: w, ctx: ctx}
	if _, err := w.Register(ctx, lab.NewWire(w.RV).Transport(), lab.DefaultAddrs()); err != nil {
		return nil, fmt.Errorf("TO0: %w", err)
	}
	return wd, nil
}

type ownMod struct{ state int }

func (m *ownMod) HandleInfo(ctx context.Context, name string, body io.Reader) error {
	_, err := io.Copy(io.Discard, body)
	return err
}
func (m *ownMod) ProduceInfo(ctx context.Context, p *serviceinfo.Producer) (bool, bool, error) {
	m.state++
	switch m.state {
	case 1:
		b, _ := cbor.Marshal(true)
		return false, false, p.WriteChunk("active", b)
	case 2:
		return false, false, p.WriteChunk("hello", []byte{0x63, 'a', 'b', 'c'})
	}
	return false, true, nil
}

type devMod struct{}

func (devMod) Transition(bool) error { return nil }
func (devMod) Receive(ctx context.Context, name string, body io.Reader, respond func(string) io.Writer, yield func()) error {
	b, err := io.ReadAll(body)
	if err != nil {
		return err
	}
	_, err = respond("echo").Write(b)
	return err
}
func (devMod) Yield(context.Context, func(string) io.Writer, func()) error { return nil }

// ---------------- the two seams ----------------

type plainSeam struct {
	inner  fdo.Transport
	n      int
	at     int
	dir    string
	mutate func(msgType int, plain []byte) []byte
	log    []rec
	keep   bool // record plaintexts (table building only)
	fired  bool
	idle   int
}

// errIdle ends a run in which neither side has sent service info for 200 consecutive rounds: such a run only ends
// at the library's own limit of 1e6 rounds, which is a bounded wait, not a hang.
var errIdle = fmt.Errorf("verif: idle cutoff")

type rec struct {
	Idx   int
	Dir   string
	Type  int
	Plain []byte
}

func (s *plainSeam) Send(ctx context.Context, msgType uint8, msg any, sess kex.Session) (uint8, io.ReadCloser, error) {
	idx := s.n
	s.n++
	b, err := cbor.Marshal(msg)
	if err != nil {
		return 0, nil, err
	}
	if s.keep {
		s.log = append(s.log, rec{idx, "req", int(msgType), b})
	}
	devEmpty := false
	if msgType == 68 {
		var d fdo.XDeviceServiceInfo
		devEmpty = cbor.Unmarshal(b, &d) == nil && len(d.ServiceInfo) == 0
	}
	if idx == s.at && s.dir == "req" && s.mutate != nil {
		if m := s.mutate(int(msgType), b); m != nil {
			msg, s.fired = cbor.RawBytes(m), true
		}
	}
	typ, body, err := s.inner.Send(ctx, msgType, msg, sess)
	if err != nil {
		return typ, body, err
	}
	rb, rerr := io.ReadAll(body)
	_ = body.Close()
	if rerr != nil {
		return typ, nil, rerr
	}
	if s.keep {
		s.log = append(s.log, rec{idx, "resp", int(typ), rb})
	}
	if typ == 69 && devEmpty {
		var o fdo.XOwnerServiceInfo
		if cbor.Unmarshal(rb, &o) == nil && len(o.ServiceInfo) == 0 && !o.IsDone {
			if s.idle++; s.idle > 200 {
				return 0, nil, errIdle
			}
		} else {
			s.idle = 0
		}
	}
	if idx == s.at && s.dir == "resp" && s.mutate != nil {
		if m := s.mutate(int(typ), rb); m != nil {
			rb, s.fired = m, true
		}
	}
	return typ, io.NopCloser(bytes.NewReader(rb)), nil
}

// run executes one protocol as its client role over tr.
func (wd *world) run(proto string, mk func(*lab.Wire) fdo.Transport) error {
	w := wd.w
	switch proto {
	case "di":
		d := lab.NewDevice(kindOf(wd.c.Alg), wd.c.Enc, "device2")
		return d.DI(wd.ctx, mk(lab.NewWire(w.Mfg)))
	case "to0":
		_, err := w.Register(wd.ctx, mk(lab.NewWire(w.RV)), lab.DefaultAddrs())
		return err
	case "to1":
		_, err := w.Dev.TO1(wd.ctx, mk(lab.NewWire(w.RV)))
		return err
	case "to2":
		c := w.Dev.TO2Config(wd.c.Suite, wd.c.Cipher)
		c.AllowCredentialReuse = true
		c.DeviceModules = map[string]serviceinfo.DeviceModule{"m": devMod{}}
		if w.Dev.Kind.Alg == "ec256" || w.Dev.Kind.Alg == "rsa2048" {
			// a minimal device: HMAC-SHA384 support is optional for P-256 / RSA-2048 keys and left out here
			c.HmacSha384 = nil
		}
		_, err := fdo.TO2(wd.ctx, mk(lab.NewWire(w.Owner)), nil, c)
		return err
	}
	return fmt.Errorf("unknown protocol %s", proto)
}

// ---------------- mutant sets ----------------

var mutOpts = cbormut.Options{Leaf: true, Inflate: true, IntDomain: []int64{-1, 1, 2, 3, 4, 5, 6, 7, 10, 11, 23, 24, 255, 256, 65535, 65536, -7, -16, -35, -37, -43, -257, 1 << 31}}

// signerFor names the key that signs a COSE_Sign1 found at a site (top level, or element 1 of a top-level array).
func (wd *world) signerFor(typ int, plain []byte) crypto.Signer {
	k := kindOf(wd.c.Alg)
	switch typ {
	case 32, 64:
		return wd.w.Dev.Key
	case 22, 33, 61, 65:
		return wd.w.Owner.OwnerSigner(k)
	case 63:
		it, _, err := rc.Parse(plain)
		if err == nil && it.Kind == rc.Array && len(it.Items) == 2 && it.Items[0].Kind == rc.Uint {
			chain := []crypto.Signer{wd.w.Mfg.OwnerSigner(k), keys.Get(k.Alg, "owner2"), keys.Get(k.Alg, "owner3")}
			if int(it.Items[0].U) < len(chain) {
				return chain[it.Items[0].U]
			}
		}
	}
	return nil
}

// locateSign1 returns the item holding the 4-element COSE_Sign1 array (below an optional tag) and a function that
// re-encodes the whole message.
func locateSign1(plain []byte) (root *rc.Item, arr *rc.Item) {
	root, n, err := rc.Parse(plain)
	if err != nil || n != len(plain) {
		return nil, nil
	}
	isS1 := func(it *rc.Item) *rc.Item {
		if it.Kind == rc.Tag && len(it.Items) == 1 {
			it = it.Items[0]
		}
		if it.Kind == rc.Array && len(it.Items) == 4 && it.Items[0].Kind == rc.Bytes && it.Items[1].Kind == rc.Map && it.Items[2].Kind == rc.Bytes && it.Items[3].Kind == rc.Bytes {
			return it
		}
		return nil
	}
	if a := isS1(root); a != nil {
		return root, a
	}
	if root.Kind == rc.Array && len(root.Items) == 2 {
		if a := isS1(root.Items[1]); a != nil {
			return root, a
		}
	}
	return nil, nil
}

func sign(arr *rc.Item, key crypto.Signer) bool {
	alg := int64(0)
	if pm, n, err := rc.Parse(arr.Items[0].B); err == nil && n == len(arr.Items[0].B) && pm.Kind == rc.Map {
		for i := 0; i+1 < len(pm.Items); i += 2 {
			if pm.Items[i].Kind == rc.Uint && pm.Items[i].U == 1 {
				switch pm.Items[i+1].Kind {
				case rc.Nint:
					alg = -1 - int64(pm.Items[i+1].U)
				case rc.Uint:
					alg = int64(pm.Items[i+1].U)
				}
			}
		}
	}
	tbs := rc.Encode(rc.A(rc.T("Signature1"), rc.Bs(arr.Items[0].B), rc.Bs(nil), rc.Bs(arr.Items[2].B)))
	var h crypto.Hash
	var digest []byte
	switch alg {
	case -7, -257, -37:
		d := sha256.Sum256(tbs)
		h, digest = crypto.SHA256, d[:]
	case -35, -258, -38:
		d := sha512.Sum384(tbs)
		h, digest = crypto.SHA384, d[:]
	default:
		return false
	}
	switch k := key.(type) {
	case *ecdsa.PrivateKey:
		r, s, err := ecdsa.Sign(rand.Reader, k, digest)
		if err != nil {
			return false
		}
		n := (k.Params().N.BitLen() + 7) / 8
		sig := make([]byte, 2*n)
		r.FillBytes(sig[:n])
		s.FillBytes(sig[n:])
		arr.Items[3] = rc.Bs(sig)
	case *rsa.PrivateKey:
		var sig []byte
		var err error
		if alg == -37 || alg == -38 {
			sig, err = rsa.SignPSS(rand.Reader, k, h, digest, &rsa.PSSOptions{SaltLength: rsa.PSSSaltLengthEqualsHash})
		} else {
			sig, err = rsa.SignPKCS1v15(rand.Reader, k, h, digest)
		}
		if err != nil {
			return false
		}
		arr.Items[3] = rc.Bs(sig)
	default:
		return false
	}
	return true
}

var _ = big.NewInt

// hostile byte strings (the "bytes" family), independent of the honest message.
func hostile() [][]byte {
	var out [][]byte
	for b := 0; b < 256; b++ {
		out = append(out, []byte{byte(b)})
	}
	rep := func(b byte, n int) []byte { return bytes.Repeat([]byte{b}, n) }
	out = append(out, nil,
		[]byte{0x9b, 0xff, 0xff, 0xff, 0xff, 0xff, 0xff, 0xff, 0xff}, []byte{0x5b, 0x7f, 0xff, 0xff, 0xff, 0xff, 0xff, 0xff, 0xff},
		[]byte{0x7b, 0x00, 0x00, 0x00, 0x01, 0x00, 0x00, 0x00, 0x00}, []byte{0xbb, 0x00, 0x00, 0x00, 0x00, 0xff, 0xff, 0xff, 0xff},
		[]byte{0x9a, 0x00, 0x01, 0x86, 0xa0}, []byte{0x9a, 0x00, 0x01, 0x86, 0x9f}, []byte{0x5a, 0x00, 0x01, 0x86, 0xa0},
		[]byte{0x9f}, []byte{0x9f, 0xff}, []byte{0x5f, 0x41, 0x00, 0xff}, []byte{0xbf, 0xff}, []byte{0xff},
		rep(0x81, 200), rep(0x81, 65535), append(rep(0x81, 65534), 0x00), rep(0xc1, 65535), append(rep(0xd8, 1), rep(0x12, 65534)...),
		rep(0xa1, 65535), rep(0x00, 65535), rep(0xff, 65535), append([]byte{0x59, 0xff, 0xfc}, rep(0x41, 65532)...),
		append([]byte{0x99, 0xff, 0xff}, rep(0xf6, 65532)...), append([]byte{0x84}, rep(0x9f, 60000)...),
		append([]byte{0x82, 0x00}, rep(0x82, 65000)...), []byte{0xd2, 0x84, 0x40, 0xa0, 0x40, 0x40}, []byte{0xd2, 0x84, 0x40, 0xa0, 0xf6, 0x40},
		[]byte{0x84, 0x43, 0xa1, 0x01, 0x26, 0xa0, 0xf6, 0x58, 0x40}, []byte{0x83, 0xf6, 0xf6, 0xf6}, []byte{0x82, 0xf6, 0xf6}, []byte{0x81, 0xf6}, []byte{0x80}, []byte{0xa0}, []byte{0xf6, 0x00})
	return out
}

// plainMutants lists every mutant of the "plain" family for a site, lazily built.
func (wd *world) plainMutants(typ int, plain []byte) []func() []byte {
	var out []func() []byte
	ms := cbormut.Enumerate(plain, mutOpts)
	for i := range ms {
		m := &ms[i]
		out = append(out, func() []byte { return m.Get() })
	}
	for _, cut := range []int{1, 2, len(plain) / 2, len(plain) - 1} {
		if cut > 0 && cut < len(plain) {
			c := cut
			out = append(out, func() []byte { return bytes.Clone(plain[:len(plain)-c]) })
		}
	}
	out = append(out, func() []byte { return append(bytes.Clone(plain), 0x00) }, func() []byte { return append(bytes.Clone(plain), plain...) }, func() []byte { return append(bytes.Clone(plain), 0xff) })
	// inside the signature: mutants of the signed payload and of the protected header, re-signed
	if key := wd.signerFor(typ, plain); key != nil {
		if root, arr := locateSign1(plain); arr != nil {
			payload := arr.Items[2].B
			pms := cbormut.Enumerate(payload, mutOpts)
			for i := range pms {
				pm := &pms[i]
				out = append(out, func() []byte {
					b := pm.Get()
					if b == nil {
						return nil
					}
					r2, a2 := locateSign1(plain)
					a2.Items[2] = rc.Bs(b)
					if !sign(a2, key) {
						return nil
					}
					return rc.Encode(r2)
				})
			}
			_ = root
			// key exchange parameters and similar byte strings made of 16-bit length-prefixed fields: per-field
			// length and content variants (a structured format the CBOR operators cannot see into)
			for li, leaf := range lpLeaves(payload) {
				for vi := 0; vi < lpVariants(leaf); vi++ {
					out = append(out, func() []byte {
						pit, _, err := rc.Parse(payload)
						if err != nil {
							return nil
						}
						leaves := bytesNodes(pit)
						n := 0
						for _, nd := range leaves {
							if _, ok := lpParse(nd.B); ok {
								if n == li {
									nd.B = lpMutate(nd.B, vi)
								}
								n++
							}
						}
						r2, a2 := locateSign1(plain)
						a2.Items[2] = rc.Bs(encodeKeep(pit))
						if !sign(a2, key) {
							return nil
						}
						return rc.Encode(r2)
					})
				}
			}
			// unprotected header mutants keep the signature valid without re-signing; they are already among the
			// top-level mutants. Protected header mutants, re-signed:
			hms := cbormut.Enumerate(arr.Items[0].B, mutOpts)
			for i := range hms {
				hm := &hms[i]
				out = append(out, func() []byte {
					b := hm.Get()
					if b == nil {
						return nil
					}
					r2, a2 := locateSign1(plain)
					a2.Items[0] = rc.Bs(b)
					if !sign(a2, key) {
						return nil
					}
					return rc.Encode(r2)
				})
			}
		}
	}
	return out
}

// ---- length-prefixed field strings ----

func lpParse(b []byte) ([][]byte, bool) {
	var fs [][]byte
	for len(b) > 0 {
		if len(b) < 2 {
			return nil, false
		}
		n := int(b[0])<<8 | int(b[1])
		if n > len(b)-2 {
			return nil, false
		}
		fs = append(fs, b[2:2+n])
		b = b[2+n:]
	}
	return fs, len(fs) >= 2
}

func bytesNodes(it *rc.Item) []*rc.Item {
	var out []*rc.Item
	var walk func(x *rc.Item)
	walk = func(x *rc.Item) {
		if x.Kind == rc.Bytes {
			out = append(out, x)
		}
		for _, c := range x.Items {
			walk(c)
		}
	}
	walk(it)
	return out
}

func lpLeaves(payload []byte) [][]byte {
	pit, n, err := rc.Parse(payload)
	if err != nil || n != len(payload) {
		return nil
	}
	var out [][]byte
	for _, nd := range bytesNodes(pit) {
		if _, ok := lpParse(nd.B); ok {
			out = append(out, nd.B)
		}
	}
	return out
}

const lpPerField = 8

func lpVariants(leaf []byte) int {
	fs, _ := lpParse(leaf)
	return len(fs) * lpPerField
}

func lpMutate(leaf []byte, v int) []byte {
	fs, _ := lpParse(leaf)
	fi, op := v/lpPerField, v%lpPerField
	var out []byte
	for i, f := range fs {
		claim := len(f)
		if i == fi {
			switch op {
			case 0: // empty field
				f, claim = nil, 0
			case 1: // minimal encoding: first byte stripped
				if len(f) > 0 {
					f = f[1:]
				}
				claim = len(f)
			case 2: // one byte wider
				f = append([]byte{0}, f...)
				claim = len(f)
			case 3: // all zero
				f = make([]byte, len(f))
			case 4: // all ones
				f = bytes.Repeat([]byte{0xff}, len(f))
			case 5: // length claims more than there is
				claim = 0xffff
			case 6: // one byte only
				if len(f) > 0 {
					f = f[:1]
				}
				claim = len(f)
			case 7: // twice as wide
				f = append(bytes.Clone(f), f...)
				claim = len(f)
			}
		}
		out = append(out, byte(claim>>8), byte(claim))
		out = append(out, f...)
	}
	return out
}

func cborHead(major byte, v uint64) []byte {
	m := major << 5
	switch {
	case v < 24:
		return []byte{m | byte(v)}
	case v < 1<<8:
		return []byte{m | 24, byte(v)}
	case v < 1<<16:
		return []byte{m | 25, byte(v >> 8), byte(v)}
	case v < 1<<32:
		return []byte{m | 26, byte(v >> 24), byte(v >> 16), byte(v >> 8), byte(v)}
	}
	return []byte{m | 27, byte(v >> 56), byte(v >> 48), byte(v >> 40), byte(v >> 32), byte(v >> 24), byte(v >> 16), byte(v >> 8), byte(v)}
}

// encodeKeep re-encodes an item tree without reordering map entries.
func encodeKeep(it *rc.Item) []byte {
	switch it.Kind {
	case rc.Array:
		out := cborHead(4, uint64(len(it.Items)))
		for _, c := range it.Items {
			out = append(out, encodeKeep(c)...)
		}
		return out
	case rc.Map:
		out := cborHead(5, uint64(len(it.Items)/2))
		for _, c := range it.Items {
			out = append(out, encodeKeep(c)...)
		}
		return out
	case rc.Tag:
		return append(cborHead(6, it.U), encodeKeep(it.Items[0])...)
	}
	return rc.Encode(it)
}

func wireMutants(wire []byte) []func() []byte {
	var out []func() []byte
	ms := cbormut.Enumerate(wire, cbormut.Options{Leaf: true, Inflate: true, NoDescend: false})
	for i := range ms {
		m := &ms[i]
		out = append(out, func() []byte { return m.Get() })
	}
	for _, cut := range []int{1, len(wire) / 2, len(wire) - 1} {
		if cut > 0 && cut < len(wire) {
			c := cut
			out = append(out, func() []byte { return bytes.Clone(wire[:len(wire)-c]) })
		}
	}
	out = append(out, func() []byte { return append(bytes.Clone(wire), 0) })
	return out
}

// HTTP-level variants: each alters the exchange in place.
type httpVar struct {
	name string
	dir  string
	f    func(x *lab.Exchange)
}

func httpVariants() []httpVar {
	big := strings.Repeat("A", 70000)
	req := func(n string, f func(x *lab.Exchange)) httpVar { return httpVar{n, "req", f} }
	resp := func(n string, f func(x *lab.Exchange)) httpVar { return httpVar{n, "resp", f} }
	return []httpVar{
		req("no-auth", func(x *lab.Exchange) { x.ReqHeader.Del("Authorization") }),
		req("auth-empty-bearer", func(x *lab.Exchange) { x.ReqHeader.Set("Authorization", "Bearer ") }),
		req("auth-garbage", func(x *lab.Exchange) { x.ReqHeader.Set("Authorization", "Bearer \x00\xff'\";--") }),
		req("auth-basic", func(x *lab.Exchange) { x.ReqHeader.Set("Authorization", "Basic QQ==") }),
		req("auth-huge", func(x *lab.Exchange) { x.ReqHeader.Set("Authorization", "Bearer "+big) }),
		req("auth-twice", func(x *lab.Exchange) { x.ReqHeader.Add("Authorization", "Bearer zzz") }),
		req("path-type-0", func(x *lab.Exchange) { x.Path = "/fdo/101/msg/0" }),
		req("path-type-256", func(x *lab.Exchange) { x.Path = "/fdo/101/msg/256" }),
		req("path-type-huge", func(x *lab.Exchange) { x.Path = "/fdo/101/msg/99999999999999999999" }),
		req("path-type-neg", func(x *lab.Exchange) { x.Path = "/fdo/101/msg/-1" }),
		req("path-type-text", func(x *lab.Exchange) { x.Path = "/fdo/101/msg/abc" }),
		req("path-empty-type", func(x *lab.Exchange) { x.Path = "/fdo/101/msg/" }),
		req("path-extra", func(x *lab.Exchange) { x.Path = x.Path + "/1" }),
		req("path-version", func(x *lab.Exchange) { x.Path = strings.Replace(x.Path, "/101/", "/100/", 1) }),
		req("path-255-same-body", func(x *lab.Exchange) { x.Path = "/fdo/101/msg/255" }),
		req("path-255-empty", func(x *lab.Exchange) { x.Path, x.ReqBody = "/fdo/101/msg/255", nil }),
		req("path-255-error-di", func(x *lab.Exchange) { x.Path, x.ReqBody = "/fdo/101/msg/255", errMsg(10) }),
		req("path-255-error-to0", func(x *lab.Exchange) { x.Path, x.ReqBody = "/fdo/101/msg/255", errMsg(20) }),
		req("path-255-error-to1", func(x *lab.Exchange) { x.Path, x.ReqBody = "/fdo/101/msg/255", errMsg(30) }),
		req("path-255-error-to2", func(x *lab.Exchange) { x.Path, x.ReqBody = "/fdo/101/msg/255", errMsg(60) }),
		req("path-255-error-255", func(x *lab.Exchange) { x.Path, x.ReqBody = "/fdo/101/msg/255", errMsg(255) }),
		req("path-255-error-0", func(x *lab.Exchange) { x.Path, x.ReqBody = "/fdo/101/msg/255", errMsg(0) }),
		req("path-other-protocol", func(x *lab.Exchange) { x.Path = fmt.Sprintf("/fdo/101/msg/%d", (x.MsgType+20)%80) }),
		req("path-response-type", func(x *lab.Exchange) { x.Path = fmt.Sprintf("/fdo/101/msg/%d", x.MsgType+1) }),
		req("path-unassigned-type", func(x *lab.Exchange) { x.Path = "/fdo/101/msg/90" }),
		req("method-get", func(x *lab.Exchange) { x.Method = "GET" }),
		req("method-put", func(x *lab.Exchange) { x.Method = "PUT" }),
		req("cl-zero", func(x *lab.Exchange) { x.ReqHeader.Set("X-Verif-Content-Length", "0") }),
		req("cl-one-less", func(x *lab.Exchange) { x.ReqHeader.Set("X-Verif-Content-Length", fmt.Sprint(len(x.ReqBody)-1)) }),
		req("cl-huge", func(x *lab.Exchange) { x.ReqHeader.Set("X-Verif-Content-Length", "9223372036854775807") }),
		req("cl-negative", func(x *lab.Exchange) { x.ReqHeader.Set("X-Verif-Content-Length", "-1") }),
		req("cl-more", func(x *lab.Exchange) { x.ReqHeader.Set("X-Verif-Content-Length", fmt.Sprint(len(x.ReqBody)+100)) }),
		req("body-empty", func(x *lab.Exchange) { x.ReqBody = nil }),
		req("body-70000", func(x *lab.Exchange) { x.ReqBody = bytes.Repeat([]byte{0x81}, 70000) }),
		resp("type-absent", func(x *lab.Exchange) { x.RespHeader.Del("Message-Type") }),
		resp("type-text", func(x *lab.Exchange) { x.RespHeader.Set("Message-Type", "abc") }),
		resp("type-256", func(x *lab.Exchange) { x.RespHeader.Set("Message-Type", "256") }),
		resp("type-neg", func(x *lab.Exchange) { x.RespHeader.Set("Message-Type", "-1") }),
		resp("type-0", func(x *lab.Exchange) { x.RespHeader.Set("Message-Type", "0") }),
		resp("type-request", func(x *lab.Exchange) { x.RespHeader.Set("Message-Type", fmt.Sprint(x.MsgType)) }),
		resp("type-later", func(x *lab.Exchange) { x.RespHeader.Set("Message-Type", fmt.Sprint(x.MsgType+3)) }),
		resp("type-255-same-body", func(x *lab.Exchange) { x.RespHeader.Set("Message-Type", "255") }),
		resp("type-255-error", func(x *lab.Exchange) { x.RespHeader.Set("Message-Type", "255"); x.RespBody = errMsg(uint8(x.MsgType)) }),
		resp("type-255-empty", func(x *lab.Exchange) { x.RespHeader.Set("Message-Type", "255"); x.RespBody = nil }),
		resp("auth-absent", func(x *lab.Exchange) { x.RespHeader.Del("Authorization") }),
		resp("auth-garbage", func(x *lab.Exchange) { x.RespHeader.Set("Authorization", "\x00\xff") }),
		resp("auth-huge", func(x *lab.Exchange) { x.RespHeader.Set("Authorization", "Bearer "+big) }),
		resp("status-500", func(x *lab.Exchange) { x.Status = 500 }),
		resp("status-404-empty", func(x *lab.Exchange) { x.Status, x.RespBody = 404, nil }),
		resp("status-204", func(x *lab.Exchange) { x.Status = 204 }),
		resp("cl-absent", func(x *lab.Exchange) { x.RespHeader.Del("Content-Length") }),
		resp("cl-huge", func(x *lab.Exchange) { x.RespHeader.Set("Content-Length", "9223372036854775807") }),
		resp("cl-less", func(x *lab.Exchange) { x.RespHeader.Set("Content-Length", fmt.Sprint(len(x.RespBody)-1)) }),
		resp("cl-more", func(x *lab.Exchange) { x.RespHeader.Set("Content-Length", fmt.Sprint(len(x.RespBody)+5)) }),
		resp("body-empty", func(x *lab.Exchange) { x.RespBody = nil; x.RespHeader.Set("Content-Length", "0") }),
		resp("body-70000", func(x *lab.Exchange) {
			x.RespBody = bytes.Repeat([]byte{0x81}, 70000)
			x.RespHeader.Set("Content-Length", "70000")
		}),
		resp("content-type", func(x *lab.Exchange) { x.RespHeader.Set("Content-Type", "text/html") }),
	}
}

func errMsg(prev uint8) []byte {
	b, _ := cbor.Marshal(protocol.ErrorMessage{Code: 100, PrevMsgType: prev, ErrString: "verif", Timestamp: 1, CorrelationID: nil})
	return b
}

// ---------------- one case ----------------

const (
	allocA0       = 24 << 20
	allocK        = 256
	allocPerRound = 256 << 10 // per message exchanged after the delivery (a run cut off as idle has 200 of them)
)

type caseResult struct {
	panicked *probe.Panic
	hang     bool
	alloc    uint64
	err      error
	fired    bool
	x        *lab.Exchange // the exchange at the site
	mutLen   int
	rounds   int
}

// execute runs proto with the given seams installed; everything is observed from outside.
func (wd *world) execute(proto string, at int, dir string, plainMut func(int, []byte) []byte, wireHook func(x *lab.Exchange, phase string)) caseResult {
	var res caseResult
	var seamRef *plainSeam
	done := make(chan struct{})
	go func() {
		defer close(done)
		res.alloc = probe.Alloc(func() {
			res.panicked = probe.Call(func() {
				res.err = wd.run(proto, func(w *lab.Wire) fdo.Transport {
					if wireHook != nil {
						w.Pre = func(x *lab.Exchange) {
							if x.Idx == at {
								res.x = x
								wireHook(x, "req")
							}
						}
						w.Post = func(x *lab.Exchange) {
							if x.Idx == at {
								wireHook(x, "resp")
							}
						}
					} else {
						w.Post = func(x *lab.Exchange) {
							if x.Idx == at {
								res.x = x
							}
						}
					}
					ht := w.Transport()
					var s *plainSeam
					s = &plainSeam{inner: ht, at: at, dir: dir, mutate: func(t int, p []byte) []byte {
						if plainMut == nil {
							return nil
						}
						m := plainMut(t, p)
						res.mutLen = len(m)
						res.fired = m != nil
						return m
					}}
					seamRef = s
					return s
				})
			})
		})
		if seamRef != nil {
			res.rounds = seamRef.n
		}
	}()
	select {
	case <-done:
	case <-time.After(45 * time.Second):
		res.hang = true
	}
	return res
}

// ---------------- families ----------------

// tables are computed by the parent from one honest run per configuration and handed to the workers in a file,
// so that parent and workers agree on the index space.
type table struct {
	Tier  string
	Sites []site
	Off   map[string][]int // family -> cumulative offsets per site
}

const tablePath = "/verif/.cache/c10_table.json"

func buildTable(tier string) *table {
	t := &table{Tier: tier, Off: map[string][]int{}}
	hv := httpVariants()
	nh := len(hostile())
	for ci, c := range cfgsFor(tier) {
		wd, err := newWorld(c)
		if err != nil {
			fmt.Fprintf(os.Stderr, "HARNESS-ERROR config %s: %v\n", c.Name, err)
			os.Exit(2)
		}
		for _, p := range protos {
			var seam *plainSeam
			var wire *lab.Wire
			err := wd.run(p, func(w *lab.Wire) fdo.Transport {
				wire = w
				seam = &plainSeam{inner: w.Transport(), at: -1, keep: true}
				return seam
			})
			if err != nil {
				fmt.Fprintf(os.Stderr, "HARNESS-ERROR honest %s/%s: %v\n", c.Name, p, err)
				os.Exit(2)
			}
			for _, rc := range seam.log {
				s := site{Cfg: ci, Proto: p, Idx: rc.Idx, Dir: rc.Dir, Type: rc.Type, N: map[string]int{}}
				x := wire.Log[rc.Idx]
				wireBytes := x.ReqBody
				if rc.Dir == "resp" {
					wireBytes = x.RespBody
				}
				s.N["plain"] = len(wd.plainMutants(rc.Type, rc.Plain))
				s.N["bytes"] = nh
				nw := 0
				if !bytes.Equal(wireBytes, rc.Plain) {
					nw = len(wireMutants(wireBytes))
				}
				for _, v := range hv {
					if v.dir == rc.Dir {
						nw++
					}
				}
				s.N["wire"] = nw
				t.Sites = append(t.Sites, s)
			}
		}
	}
	for _, fam := range []string{"plain", "bytes", "wire"} {
		off := []int{0}
		for _, s := range t.Sites {
			off = append(off, off[len(off)-1]+s.N[fam])
		}
		t.Off[fam] = off
	}
	return t
}

var theTable *table

func loadTable() *table {
	if theTable != nil {
		return theTable
	}
	b, err := os.ReadFile(tablePath)
	if err != nil {
		fmt.Fprintf(os.Stderr, "HARNESS-ERROR table: %v\n", err)
		os.Exit(2)
	}
	theTable = &table{}
	if err := json.Unmarshal(b, theTable); err != nil {
		fmt.Fprintf(os.Stderr, "HARNESS-ERROR table: %v\n", err)
		os.Exit(2)
	}
	return theTable
}

func total(fam string) func(string) int {
	return func(string) int { t := loadTable(); o := t.Off[fam]; return o[len(o)-1] }
}

func runFamily(fam string) func(ctx *workers.Ctx, tier string, lo, hi int) {
	return func(ctx *workers.Ctx, tier string, lo, hi int) {
		t := loadTable()
		off := t.Off[fam]
		worlds := map[int]*world{}
		hv := httpVariants()
		hs := hostile()
		si := 0
		for i := lo; i < hi; i++ {
			for si+1 < len(off) && i >= off[si+1] {
				si++
			}
			s := t.Sites[si]
			k := i - off[si]
			ctx.Begin(i)
			wd := worlds[s.Cfg]
			if wd == nil {
				var err error
				if wd, err = newWorld(cfgsFor(tier)[s.Cfg]); err != nil {
					fmt.Fprintf(os.Stderr, "HARNESS-ERROR %v\n", err)
					os.Exit(2)
				}
				worlds[s.Cfg] = wd
			}
			if s.Proto == "to1" {
				// keep the rendezvous blob fresh whatever earlier cases did to it
				_, _ = wd.w.Register(wd.ctx, lab.NewWire(wd.w.RV).Transport(), lab.DefaultAddrs())
			}
			var res caseResult
			desc := ""
			var mutHex string
			switch fam {
			case "plain":
				res = wd.execute(s.Proto, s.Idx, s.Dir, func(typ int, plain []byte) []byte {
					ms := wd.plainMutants(typ, plain)
					if k >= len(ms) {
						ctx.Extra["index_beyond_own_enumeration"]++
						return nil
					}
					if len(ms) != s.N["plain"] {
						ctx.Extra["enumeration_size_differs_from_table"]++
					}
					m := ms[k]()
					if m == nil || bytes.Equal(m, plain) {
						return nil
					}
					mutHex = hex.EncodeToString(m)
					if os.Getenv("VERIF_C10_DEBUG") != "" {
						fmt.Fprintf(os.Stderr, "delivering %s\n", mutHex)
					}
					return m
				}, nil)
				desc = fmt.Sprintf("plain mutant #%d", k)
			case "bytes":
				res = wd.execute(s.Proto, s.Idx, s.Dir, func(typ int, plain []byte) []byte {
					mutHex = hex.EncodeToString(hs[k])
					if hs[k] == nil {
						return []byte{}
					}
					return hs[k]
				}, nil)
				desc = fmt.Sprintf("hostile string #%d (%d bytes)", k, len(hs[k]))
			case "wire":
				res = wd.execute(s.Proto, s.Idx, s.Dir, nil, func(x *lab.Exchange, phase string) {
					if phase != s.Dir {
						return
					}
					body := x.ReqBody
					if phase == "resp" {
						body = x.RespBody
					}
					// HTTP variants first, then body mutants
					var vs []httpVar
					for _, v := range hv {
						if v.dir == s.Dir {
							vs = append(vs, v)
						}
					}
					if k < len(vs) {
						desc = "http variant " + vs[k].name
						vs[k].f(x)
						return
					}
					ms := wireMutants(body)
					j := k - len(vs)
					if j >= len(ms) {
						ctx.Extra["index_beyond_own_enumeration"]++
						return
					}
					m := ms[j]()
					if m == nil {
						return
					}
					mutHex = hex.EncodeToString(m)
					desc = fmt.Sprintf("wire mutant #%d", j)
					if phase == "req" {
						x.ReqBody = m
					} else {
						x.RespBody = m
						x.RespHeader.Set("Content-Length", fmt.Sprint(len(m)))
					}
				})
			}
			if len(mutHex) > 400 {
				mutHex = mutHex[:400] + "..."
			}
			where := fmt.Sprintf("%s %s message %d %s (send #%d), %s", cfgsFor(tier)[s.Cfg].Name, s.Proto, s.Type, s.Dir, s.Idx, desc)
			repl := map[string]any{"family": fam, "index": i, "tier": tier, "config": cfgsFor(tier)[s.Cfg].Name, "proto": s.Proto, "send": s.Idx, "dir": s.Dir, "type": s.Type, "mutant_hex": mutHex, "desc": desc}
			if os.Getenv("VERIF_C10_DEBUG") != "" && res.x != nil {
				fmt.Fprintf(os.Stderr, "answer: HTTP %d type %s body %d bytes: %x\n", res.x.Status, res.x.RespHeader.Get("Message-Type"), len(res.x.RespBody), head(res.x.RespBody, 300))
			}
			if os.Getenv("VERIF_C10_DEBUG") != "" {
				fmt.Fprintf(os.Stderr, "case %d: %s fired=%v err=%v alloc=%d mutant=%s\n", i, where, res.fired, res.err, res.alloc, mutHex)
			}
			outcome := "error"
			switch {
			case res.hang:
				ctx.Violation("hang", where+": no return within 45 s", repl)
				delete(worlds, s.Cfg)
				outcome = "hang"
			case res.panicked != nil:
				ctx.Violation(res.panicked.Key(), fmt.Sprintf("%s: panic %q in %s", where, res.panicked.Value, res.panicked.Frame), repl)
				delete(worlds, s.Cfg) // a panic may leave locks held
				outcome = "panic"
			default:
				if lim := uint64(allocA0 + allocK*max(res.mutLen, 1) + allocPerRound*res.rounds); res.alloc > lim {
					ctx.Violation("alloc", fmt.Sprintf("%s: %d bytes allocated while handling it (limit %d)", where, res.alloc, lim), repl)
				}
				if res.err == nil {
					outcome = "accepted"
				}
				// the server's answer at a mutated request must be a well-formed FDO message
				if s.Dir == "req" && res.x != nil && res.x.Served && strings.HasPrefix(res.x.Path, "/fdo/101/msg/") && res.x.Method == http.MethodPost {
					if bad := illFormedAnswer(res.x); bad != "" && validType(res.x.Path) {
						ctx.Violation("answer-not-fdo-message:"+bad, fmt.Sprintf("%s: the server answered HTTP %d Message-Type %q with a body that is not an FDO message (%s)", where, res.x.Status, res.x.RespHeader.Get("Message-Type"), bad), repl)
					}
				}
			}
			ctx.Distinct(fmt.Sprintf("%s|%s|%d|%s|%s", fam, s.Proto, s.Type, s.Dir, outcome))
			ctx.Extra["protocol_messages_exchanged"] += int64(max(res.rounds, 1))
			if (i-lo)%997 == 0 {
				ctx.Sample(map[string]any{"site": where, "outcome": outcome, "delivered_hex": mutHex, "client_error": fmt.Sprint(res.err)})
			}
		}
	}
}

func head(b []byte, n int) []byte {
	if len(b) > n {
		return b[:n]
	}
	return b
}

func validType(path string) bool {
	var n int
	if _, err := fmt.Sscanf(strings.TrimPrefix(path, "/fdo/101/msg/"), "%d", &n); err != nil {
		return false
	}
	if strings.Contains(strings.TrimPrefix(path, "/fdo/101/msg/"), "/") {
		return false
	}
	switch {
	case n == 10 || n == 12 || n == 20 || n == 22 || n == 30 || n == 32:
		return true
	case n >= 60 && n <= 70 && n%2 == 0:
		return true
	}
	return false
}

func illFormedAnswer(x *lab.Exchange) string {
	mt := x.RespHeader.Get("Message-Type")
	if mt == "" {
		return "no Message-Type header"
	}
	if mt == "255" {
		// shape check with the reference parser (the library's own decoder refuses strings of 100 000 bytes or more,
		// and an error text may legitimately quote what was received)
		it, n, err := rc.Parse(x.RespBody)
		if err != nil || n != len(x.RespBody) || it.Kind != rc.Array || len(it.Items) != 5 || it.Items[0].Kind != rc.Uint || it.Items[1].Kind != rc.Uint || it.Items[2].Kind != rc.Text {
			return "error body is not an ErrorMessage"
		}
		return ""
	}
	if x.Status != 200 {
		return "non-error message with HTTP status " + fmt.Sprint(x.Status)
	}
	return ""
}

var families = []workers.Family{
	{Name: "devmod", Total: dmTotal, Run: runDevmod},
	{Name: "authed", Total: authedTotal, Run: runAuthed},
	{Name: "plain", Total: total("plain"), Run: runFamily("plain")},
	{Name: "wire", Total: total("wire"), Run: runFamily("wire")},
	{Name: "bytes", Total: total("bytes"), Run: runFamily("bytes")},
}

func main() {
	workers.MaybeWorker(families)
	r := ev.Start("C10", "model_checking")
	if r.Replay != "" {
		b, _ := os.ReadFile(r.Replay)
		fmt.Printf("replay of %s: the 'replay' object names the family, index, site and the delivered bytes (mutant_hex); re-run that one case with\n  %s --worker <family> <tier> <index> <index+1> 1 '[]'\n%s\n", r.Replay, os.Args[0], b)
		os.Exit(0)
	}
	t := buildTable(r.Tier)
	b, _ := json.Marshal(t)
	if err := os.WriteFile(tablePath, b, 0o644); err != nil {
		r.Fatal("%v", err)
	}
	theTable = t
	r.Rule(fmt.Sprintf("For %d configurations (key type x key encoding x key exchange x cipher suite x voucher length; half of them with one role per server) and EVERY message position of DI, TO0, TO1 and TO2 in both directions (%d sites), reached with the session state of all preceding honest steps, every member of three finite families is delivered in place of the honest message: (plain) all single-node structure-aware mutants of the plaintext (value, type, length, enum/algorithm identifiers from a fixed domain, null/absent, inflated length heads, recursing into bstr-wrapped CBOR), truncations and trailing data, delivered inside the TO2 tunnel where there is one, plus all such mutants of the signed payload and protected header of a COSE_Sign1 re-signed with the right key; (bytes) %d hostile byte strings (every single byte, length bombs, nesting to 64 KiB, 64 KiB bodies); (wire) all mutants of the bytes on the wire for encrypted positions and %d HTTP-level variants (path, method, Authorization, Message-Type, Content-Length, status). (devmod) every script  nummodules=N ; chunk ; chunk [; chunk]  of a deviating device over small domains of start index, declared length and number of names, in one message or one message per chunk, through the real TO2Server.Respond with the partially filled module list persisted between messages. (authed) for 4 key exchanges x 7 cipher suites, both directions: ~50 structurally odd inner COSE_Encrypt0 objects (ciphertext empty / 1 / 15 / 16 / 17 / 32 octets / null / mistyped; IV missing, of 10 lengths, mistyped; 19 algorithm identifiers, registered and not; empty or malformed header maps), for encrypt-then-MAC suites wrapped in a COSE_Mac0 whose tag is correctly recomputed with the session's key, delivered to the receiving session's Decrypt. Oracle: no panic, no hang (45 s), allocation <= %d + %d*len, the server's answer to a request on a valid message path is a well-formed FDO message. Cases run in worker subprocesses so that unrecoverable crashes are attributed to their case.", len(cfgsFor(r.Tier)), len(t.Sites), len(hostile()), len(httpVariants()), allocA0, allocK))
	deadline := time.Now().Add(90 * time.Minute)
	if r.Quick() {
		deadline = time.Now().Add(20 * time.Minute)
	}
	for _, f := range families {
		res := workers.Run(f, r.Tier, workers.Options{SingleProc: false, CaseTimeout: 120 * time.Second, Deadline: deadline})
		r.Evaluations.Add(res.Evals)
		r.States.Add(res.Evals) // one protocol run per case: the state reached through the honest history plus one delivery
		r.Transitions.Add(res.Extra["protocol_messages_exchanged"])
		r.Traces.Add(res.Evals)
		for _, smp := range res.Samples {
			r.Sample(6, smp)
		}
		r.Set("cases_"+f.Name, res.Evals)
		for k := range res.Distinct {
			r.Distinct(k)
		}
		for k, v := range res.Extra {
			r.Add(k, v)
		}
		seen := map[string]bool{}
		for _, v := range res.Violations {
			id := fmt.Sprint(v.Idx, v.Key)
			if seen[id] {
				continue
			}
			seen[id] = true
			r.Violation(v.Key, v.What, v.Replay)
		}
		if res.TimedOut {
			r.Capped("family " + f.Name + ": internal deadline reached before the whole index space was covered")
		}
	}
	r.Set("sites", len(t.Sites))
	r.Assume("allocation is measured for the whole protocol run of the case (honest prefix included); A0 = 24 MiB covers the honest run of the most expensive configuration, K = 256 bytes per delivered byte")
	r.Assume("a mutant that decodes to the same values is accepted by the peer; acceptance is not a violation of this property")
	r.Finish()
}
