package main

// Family "authed": what a peer that HOLDS the session keys can put into the tunnel. The per-position families alter
// plaintext (re-encrypted by the real session, so ciphertext and headers are always well-formed) or the bytes on the
// wire (stopped by the MAC / AEAD tag before the inner layers are looked at). This family builds, for every key
// exchange x cipher suite, encrypted objects whose inner COSE_Encrypt0 is structurally odd - empty, one-octet, one
// block, null or mistyped ciphertext; missing, short, long or mistyped IV; unregistered, foreign or mistyped algorithm
// identifiers; empty protected header - and, for the encrypt-then-MAC suites, wraps them in a COSE_Mac0 whose tag is
// CORRECTLY recomputed with the session's verification key. The receiving Decrypt (what http.Handler and
// http.Transport call for every protected TO2 message) must return; it may accept or refuse.

import (
	"bytes"
	"crypto/hmac"
	"crypto/rand"
	"crypto/rsa"
	"crypto/sha256"
	"crypto/sha512"
	"fmt"
	"hash"
	"reflect"

	"github.com/fido-device-onboard/go-fdo/cbor"
	"github.com/fido-device-onboard/go-fdo/kex"

	"verif/internal/keys"
	"verif/internal/probe"
	rc "verif/internal/refcbor"
	"verif/internal/workers"
)

type authedCombo struct {
	suite  kex.Suite
	cipher kex.CipherSuiteID
}

func authedCombos() []authedCombo {
	var out []authedCombo
	for _, s := range []kex.Suite{kex.ECDH256Suite, kex.ECDH384Suite, kex.DHKEXid14Suite, kex.ASYMKEX2048Suite} {
		for _, c := range []kex.CipherSuiteID{kex.A128GcmCipher, kex.A192GcmCipher, kex.A256GcmCipher, kex.CoseAes128CbcCipher, kex.CoseAes256CbcCipher, kex.CoseAes128CtrCipher, kex.CoseAes256CtrCipher} {
			out = append(out, authedCombo{s, c})
		}
	}
	return out
}

func authedTotal(string) int { return len(authedCombos()) }

func sessField(s kex.Session, name string) []byte {
	v := reflect.ValueOf(s)
	for v.Kind() == reflect.Pointer || v.Kind() == reflect.Interface {
		v = v.Elem()
	}
	f := v.FieldByName(name)
	if !f.IsValid() || f.Kind() != reflect.Slice {
		return nil
	}
	return f.Bytes()
}

func authedEstablish(s kex.Suite, c kex.CipherSuiteID) (owner, dev kex.Session, err error) {
	var key *rsa.PrivateKey
	var pub *rsa.PublicKey
	if s == kex.ASYMKEX2048Suite {
		key = keys.Get("rsa2048", "owner1").(*rsa.PrivateKey)
		pub = &key.PublicKey
	}
	owner = s.New(nil, c)
	xA, err := owner.Parameter(rand.Reader, pub)
	if err != nil {
		return nil, nil, err
	}
	dev = s.New(bytes.Clone(xA), c)
	xB, err := dev.Parameter(rand.Reader, pub)
	if err != nil {
		return nil, nil, err
	}
	return owner, dev, owner.SetParameter(bytes.Clone(xB), key)
}

func runAuthed(ctx *workers.Ctx, tier string, lo, hi int) {
	combos := authedCombos()
	for i := lo; i < hi; i++ {
		ctx.Begin(i)
		cb := combos[i]
		owner, dev, err := authedEstablish(cb.suite, cb.cipher)
		if err != nil {
			ctx.Violation("harness:authed-establish", fmt.Sprintf("%s/%s: %v", cb.suite, cb.cipher, err), nil)
			continue
		}
		for dir, pair := range [][2]kex.Session{{owner, dev}, {dev, owner}} {
			enc, err := pair[0].Encrypt(rand.Reader, []byte("sixteen byte msg"))
			if err != nil {
				continue
			}
			wire, _ := cbor.Marshal(enc)
			top, _, err := rc.Parse(wire)
			if err != nil || top.Kind != rc.Tag {
				continue
			}
			arr := top.Items[0]
			svk := sessField(pair[0], "SVK")
			var inner *rc.Item
			rewrap := func(e *rc.Item) []byte { return rc.Encode(rc.Tg(16, e)) }
			if top.U == 17 {
				in, _, perr := rc.Parse(arr.Items[2].B)
				if perr != nil {
					continue
				}
				innerTagged := in.Kind == rc.Tag
				if innerTagged {
					in = in.Items[0]
				}
				inner = in
				var h func() hash.Hash = sha256.New
				if pm, _, e2 := rc.Parse(arr.Items[0].B); e2 == nil && pm.Kind == rc.Map {
					for k := 0; k+1 < len(pm.Items); k += 2 {
						if pm.Items[k].Kind == rc.Uint && pm.Items[k].U == 1 && pm.Items[k+1].Kind == rc.Uint && pm.Items[k+1].U == 6 {
							h = sha512.New384
						}
					}
				}
				rewrap = func(e *rc.Item) []byte {
					var payload []byte
					if innerTagged {
						payload = rc.Encode(rc.Tg(16, e))
					} else {
						payload = rc.Encode(e)
					}
					m := hmac.New(h, svk)
					m.Write(rc.Encode(rc.A(rc.T("MAC0"), rc.Bs(arr.Items[0].B), rc.Bs(nil), rc.Bs(payload))))
					return rc.Encode(rc.Tg(17, rc.A(rc.Bs(arr.Items[0].B), arr.Items[1], rc.Bs(payload), rc.Bs(m.Sum(nil)))))
				}
			} else {
				inner = arr
			}
			if inner.Kind != rc.Array || len(inner.Items) != 3 {
				continue
			}
			type alt struct {
				name string
				e    *rc.Item
			}
			var alts []alt
			with := func(name string, f func(c *rc.Item)) {
				c := inner.Clone()
				f(c)
				alts = append(alts, alt{name, c})
			}
			with("genuine-rewrapped", func(*rc.Item) {})
			for _, ct := range []struct {
				n string
				v *rc.Item
			}{{"empty", rc.Bs(nil)}, {"1-octet", rc.Bs([]byte{1})}, {"15-octets", rc.Bs(make([]byte, 15))}, {"16-octets", rc.Bs(make([]byte, 16))}, {"17-octets", rc.Bs(make([]byte, 17))}, {"32-octets", rc.Bs(make([]byte, 32))}, {"null", rc.Null()}, {"int", rc.U(7)}, {"text", rc.T("x")}, {"array", rc.A()}} {
				with("ciphertext:"+ct.n, func(c *rc.Item) { c.Items[2] = ct.v })
			}
			setHdr := func(c *rc.Item, label uint64, v *rc.Item, drop bool) {
				for _, idx := range []int{0, 1} {
					var m *rc.Item
					if idx == 0 {
						if len(c.Items[0].B) == 0 {
							continue
						}
						pm, _, e := rc.Parse(c.Items[0].B)
						if e != nil || pm.Kind != rc.Map {
							continue
						}
						m = pm
					} else {
						m = c.Items[1]
					}
					if m.Kind != rc.Map {
						continue
					}
					o := rc.M()
					found := false
					for k := 0; k+1 < len(m.Items); k += 2 {
						if m.Items[k].Kind == rc.Uint && m.Items[k].U == label {
							found = true
							if !drop {
								o.Items = append(o.Items, m.Items[k], v)
							}
							continue
						}
						o.Items = append(o.Items, m.Items[k], m.Items[k+1])
					}
					if !found {
						continue
					}
					if idx == 0 {
						if len(o.Items) == 0 {
							c.Items[0] = rc.Bs(nil)
						} else {
							c.Items[0] = rc.Bs(rc.Encode(o))
						}
					} else {
						c.Items[1] = o
					}
				}
			}
			for _, l := range []int{0, 1, 8, 11, 12, 13, 15, 16, 17, 64} {
				with(fmt.Sprintf("iv:%d-octets", l), func(c *rc.Item) { setHdr(c, 5, rc.Bs(make([]byte, l)), false) })
			}
			with("iv:dropped", func(c *rc.Item) { setHdr(c, 5, nil, true) })
			with("iv:int", func(c *rc.Item) { setHdr(c, 5, rc.U(5), false) })
			with("iv:null", func(c *rc.Item) { setHdr(c, 5, rc.Null(), false) })
			for _, id := range []*rc.Item{rc.U(0), rc.U(1), rc.U(2), rc.U(3), rc.U(5), rc.U(9), rc.U(17), rc.U(30), rc.N(0), rc.N(1), rc.N(65530), rc.N(65531), rc.N(65533), rc.N(65534), rc.U(9999), rc.U(1 << 40), rc.T("A128GCM"), rc.Null(), rc.Bs([]byte{1})} {
				with("alg:"+id.String(), func(c *rc.Item) { setHdr(c, 1, id, false) })
			}
			with("alg:dropped", func(c *rc.Item) { setHdr(c, 1, nil, true) })
			with("protected:empty-unprotected:empty", func(c *rc.Item) { c.Items[0], c.Items[1] = rc.Bs(nil), rc.M() })
			with("protected:not-a-map", func(c *rc.Item) { c.Items[0] = rc.Bs([]byte{0x01}) })
			with("unprotected:null", func(c *rc.Item) { c.Items[1] = rc.Null() })
			for _, a := range alts {
				w := rewrap(a.e)
				var derr error
				p := probe.Call(func() { _, derr = pair[1].Decrypt(rand.Reader, bytes.NewReader(w)) })
				where := fmt.Sprintf("%s/%s direction %d, inner COSE_Encrypt0 with %s (MAC recomputed with the session key where the suite has one)", cb.suite, cb.cipher, dir, a.name)
				if p != nil {
					ctx.Violation(p.Key(), fmt.Sprintf("%s: Decrypt panics: %q in %s", where, p.Value, p.Frame), map[string]any{"family": "authed", "suite": string(cb.suite), "cipher": cb.cipher.String(), "alteration": a.name, "wire_hex": fmt.Sprintf("%x", w)})
				}
				ctx.Distinct(fmt.Sprintf("authed|%s|%v", a.name, derr == nil))
				ctx.Extra["authed_objects_delivered"]++
			}
		}
		if i%5 == 0 {
			ctx.Sample(map[string]any{"family": "authed", "suite": string(cb.suite), "cipher": cb.cipher.String()})
		}
	}
}
