package main

// Family "devmod": multi-message devmod scripts of an authenticated but deviating device against the real owner
// responder. The per-position families deliver ONE altered message into an otherwise honest history; the devmod
// module list, however, is assembled over several messages (nummodules, then chunks [start, len, names...] that
// fill the announced list), and the owner keeps the partially filled list in session state between messages. This
// family enumerates every script  nummodules=N ; chunk ; chunk [; chunk]  over small domains of start index, declared
// length and number of names, delivered in one message or one message per chunk, through TO2Server.Respond(68)
// with a session state that persists Devmod/SetDevmod. Oracle: no panic, an answer of type 69 or 255, bounded
// allocation.

import (
	"bytes"
	"context"
	"fmt"

	fdo "github.com/fido-device-onboard/go-fdo"
	"github.com/fido-device-onboard/go-fdo/cbor"
	"github.com/fido-device-onboard/go-fdo/serviceinfo"

	"verif/internal/probe"
	"verif/internal/workers"
)

type dmChunk struct{ start, ln, names int }

func (c dmChunk) encode(emptyName bool) []byte {
	arr := []any{c.start, c.ln}
	for i := 0; i < c.names; i++ {
		n := string(rune('a' + i))
		if emptyName && i == c.names-1 {
			n = ""
		}
		arr = append(arr, n)
	}
	b, _ := cbor.Marshal(arr)
	return b
}

type dmScript struct {
	n        int
	chunks   []dmChunk
	split    bool // one TO2.DeviceServiceInfo per chunk (else all chunks in one modules value)
	emptyLst bool // the last name of the last chunk is empty
}

func (s dmScript) String() string {
	return fmt.Sprintf("nummodules=%d chunks=%v one-message-per-chunk=%v empty-last-name=%v", s.n, s.chunks, s.split, s.emptyLst)
}

var dmScriptsCache map[string][]dmScript

func dmScripts(tier string) []dmScript {
	if c, ok := dmScriptsCache[tier]; ok {
		return c
	}
	var wide, narrow []dmChunk
	for _, st := range []int{-1, 0, 1, 2, 3, 4} {
		for _, ln := range []int{-1, 0, 1, 2, 3, 4} {
			for names := 0; names <= 4; names++ {
				wide = append(wide, dmChunk{st, ln, names})
			}
		}
	}
	for _, st := range []int{0, 1, 2} {
		for _, ln := range []int{1, 2, 3} {
			for _, d := range []int{0} {
				narrow = append(narrow, dmChunk{st, ln, ln + d})
			}
		}
	}
	ns := []int{0, 1, 2, 3}
	if tier == "thorough" {
		ns = []int{0, 1, 2, 3, 4, 5}
	}
	var out []dmScript
	for _, n := range ns {
		for _, split := range []bool{false, true} {
			for _, a := range wide {
				out = append(out, dmScript{n, []dmChunk{a}, split, false})
				if a.names > 0 {
					out = append(out, dmScript{n, []dmChunk{a}, split, true})
				}
				// a plausible first chunk followed by anything
				if a.start >= 0 && a.ln >= 0 && a.names == a.ln {
					for _, b := range wide {
						out = append(out, dmScript{n, []dmChunk{a, b}, split, false})
					}
				}
			}
			for _, a := range narrow {
				for _, b := range narrow {
					for _, c := range narrow {
						out = append(out, dmScript{n, []dmChunk{a, b, c}, split, false})
					}
				}
			}
		}
	}
	if dmScriptsCache == nil {
		dmScriptsCache = map[string][]dmScript{}
	}
	dmScriptsCache[tier] = out
	return out
}

// dmSession persists what the responder stores between messages; everything else of the session interface is
// never reached during the devmod phase (a call would be a nil dereference, reported as a panic of the harness kind).
type dmSession struct {
	fdo.TO2SessionState
	dm       serviceinfo.Devmod
	mods     []string
	complete bool
	set      bool
}

func (s *dmSession) Devmod(context.Context) (serviceinfo.Devmod, []string, bool, error) {
	if !s.set {
		return serviceinfo.Devmod{}, nil, false, fdo.ErrNotFound
	}
	return s.dm, append([]string(nil), s.mods...), s.complete, nil
}
func (s *dmSession) SetDevmod(_ context.Context, d serviceinfo.Devmod, m []string, c bool) error {
	s.dm, s.mods, s.complete, s.set = d, append([]string(nil), m...), c, true
	return nil
}
func (s *dmSession) MTU(context.Context) (uint16, error) { return 1300, nil }

type dmNoModules struct{}

func (dmNoModules) Module(context.Context) (string, serviceinfo.OwnerModule, error) {
	return "", nil, fmt.Errorf("no module")
}
func (dmNoModules) NextModule(context.Context) (bool, error) { return false, nil }
func (dmNoModules) CleanupModules(context.Context)           {}

func dmTotal(tier string) int { return len(dmScripts(tier)) }

func kvMsg(more bool, kvs ...*serviceinfo.KV) []byte {
	b, _ := cbor.Marshal(fdo.XDeviceServiceInfo{IsMoreServiceInfo: more, ServiceInfo: kvs})
	return b
}

func runDevmod(ctx *workers.Ctx, tier string, lo, hi int) {
	scripts := dmScripts(tier)
	for i := lo; i < hi; i++ {
		ctx.Begin(i)
		sc := scripts[i]
		sess := &dmSession{}
		srv := &fdo.TO2Server{Session: sess, Modules: dmNoModules{}}
		nb, _ := cbor.Marshal(sc.n)
		// message list
		var msgs [][]byte
		first := []*serviceinfo.KV{{Key: "devmod:active", Val: []byte{0xf5}}, {Key: "devmod:nummodules", Val: nb}}
		if sc.split {
			msgs = append(msgs, kvMsg(true, first...))
			for ci, c := range sc.chunks {
				msgs = append(msgs, kvMsg(ci < len(sc.chunks)-1, &serviceinfo.KV{Key: "devmod:modules", Val: c.encode(sc.emptyLst && ci == len(sc.chunks)-1)}))
			}
		} else {
			var val []byte
			for ci, c := range sc.chunks {
				val = append(val, c.encode(sc.emptyLst && ci == len(sc.chunks)-1)...)
			}
			msgs = append(msgs, kvMsg(false, append(first, &serviceinfo.KV{Key: "devmod:modules", Val: val})...))
		}
		outcome := ""
		var alloc uint64
		for mi, m := range msgs {
			var typ uint8
			var p *probe.Panic
			alloc += probe.Alloc(func() {
				p = probe.Call(func() { typ, _ = srv.Respond(context.Background(), 68, bytes.NewReader(m)) })
			})
			repl := map[string]any{"family": "devmod", "index": i, "tier": tier, "script": sc.String(), "message": mi}
			if p != nil {
				ctx.Violation(p.Key(), fmt.Sprintf("devmod script %s: TO2Server.Respond(68) panics at message %d: %s in %s", sc, mi, p.Value, p.Frame), repl)
				outcome = "panic"
				break
			}
			if typ != 69 && typ != 255 {
				ctx.Violation("devmod-answer-type", fmt.Sprintf("devmod script %s: answer type %d to message %d", sc, typ, mi), repl)
			}
			outcome += fmt.Sprint(typ, ",")
			if typ == 255 {
				break
			}
		}
		if alloc > 4<<20 {
			ctx.Violation("alloc", fmt.Sprintf("devmod script %s: %d bytes allocated", sc, alloc), map[string]any{"family": "devmod", "index": i, "script": sc.String()})
		}
		ctx.Distinct("devmod|" + outcome)
		ctx.Extra["protocol_messages_exchanged"] += int64(len(msgs))
		if (i-lo)%20011 == 0 {
			ctx.Sample(map[string]any{"family": "devmod", "script": sc.String(), "answers": outcome})
		}
	}
}
