#!/bin/bash
exec /verif/checks/vs_overlay.sh "$1" c16
