// C16: TO2 service info is delivered exactly once, in order, until modules finish.
//
// (A) scenario enumeration on the real TO2 client and the real owner responders (in-process, real HTTP
// transport and handler): scripted recording modules on both sides, MTU pairs, 0..200 device module names,
// reply sizes swept across every remainder of the device's send budget, owner messages swept across the owner's
// budget, yields, IsMoreServiceInfo, owner-only and device-only modules. (B) the same end-to-end run with the
// device's chunk.go/to2.go rewritten onto the cooperative scheduler: all interleavings of the device's module,
// chunking and transport threads within a preemption bound.
//
// Oracle (reference model computed from the script): what the owner stored as devmod and module list; the
// per-module (message, bytes) streams seen by device modules and owner modules after merging consecutive equal
// names; Transition(true) before any Receive/Yield; no callback at all on modules that were never activated;
// owner modules produce strictly one after another and never after reporting done; exactly one TO2.Done, sent
// after the last module reported done; TO2 returns nil.
package main

import (
	"bytes"
	"context"
	"encoding/json"
	"fmt"
	"io"
	"os"
	"sort"
	"strings"
	"sync"
	"time"

	fdo "github.com/fido-device-onboard/go-fdo"
	"github.com/fido-device-onboard/go-fdo/cbor"
	"github.com/fido-device-onboard/go-fdo/kex"
	"github.com/fido-device-onboard/go-fdo/protocol"
	"github.com/fido-device-onboard/go-fdo/serviceinfo"
	vsync "github.com/fido-device-onboard/go-fdo/zzvsync"

	"verif/internal/ev"
	"verif/internal/explore"
	"verif/internal/keys"
	"verif/internal/lab"
	"verif/internal/schedshard"
)

var r *ev.Run

// ---------------- scripts ----------------

type msgSpec struct {
	Name   string
	Size   int
	Seed   byte
	Yield  bool // device side: call yield() after this reply
	Splits int  // device side: number of Write calls
}

func (m msgSpec) body() []byte {
	b := make([]byte, m.Size)
	for i := range b {
		b[i] = m.Seed + byte(i*7)
	}
	return b
}

type oModSpec struct {
	Name   string
	Rounds [][]msgSpec
	Block  []bool // per round: report IsMoreServiceInfo after that round's ProduceInfo calls
	// DoneWithLast: report done in the same ProduceInfo call that emits the end of the last round (replies to that
	// round are then not owed by the device)
	DoneWithLast bool
	// DoneWithActive: the module has nothing to say: it reports done in the very call that sends active=true (the
	// device's automatic reply then arrives when the next module is already current)
	DoneWithActive bool
	Idle           int // ProduceInfo calls that emit nothing before the first round
}

type dModSpec struct {
	Name    string
	Replies map[string][]msgSpec
	OnYield []msgSpec
}

type scen struct {
	Label    string
	RecvMTU  uint16 // what the device announces it can receive (owner's send budget); 0 = library default
	SendMTU  uint16 // what the owner announces it can receive (device's send budget); 0 = not announced
	Extra    int    // additional device modules that no owner module addresses
	ExtraLen int    // length of their names
	Owner    []oModSpec
	Device   []dModSpec
	// Persist: the owner's module state machine keeps no module object between messages; it serialises the current
	// module's state (ModulePersister) and rebuilds the module from it for every message
	Persist bool
}

func (s scen) String() string {
	b, _ := json.Marshal(s)
	return string(b)
}

type call struct {
	Side, Mod, Kind, Msg string
	Body                 []byte
	Arg                  bool
}

type recorder struct {
	mu    sync.Mutex
	calls []call
}

func (r *recorder) add(c call) {
	r.mu.Lock()
	r.calls = append(r.calls, c)
	r.mu.Unlock()
}

// ---------------- owner module ----------------

type pend struct {
	name string
	body []byte
}

type oMod struct {
	spec       oModSpec
	rec        *recorder
	sentActive bool
	inactive   bool
	idle       int
	round      int
	queue      []pend
	loaded     bool
	done       bool
}

// oModState is everything an oMod knows between two calls (Snapshot/Restore for the persisting state machine).
type oModState struct {
	SentActive, Inactive, Loaded, Done bool
	Idle, Round                        int
	Queue                              []struct {
		Name string
		Body []byte
	}
}

func (m *oMod) Snapshot() []byte {
	st := oModState{SentActive: m.sentActive, Inactive: m.inactive, Loaded: m.loaded, Done: m.done, Idle: m.idle, Round: m.round}
	for _, q := range m.queue {
		st.Queue = append(st.Queue, struct {
			Name string
			Body []byte
		}{q.name, q.body})
	}
	b, _ := json.Marshal(st)
	return b
}

func (m *oMod) Restore(b []byte) {
	var st oModState
	if json.Unmarshal(b, &st) != nil {
		return
	}
	m.sentActive, m.inactive, m.loaded, m.done, m.idle, m.round = st.SentActive, st.Inactive, st.Loaded, st.Done, st.Idle, st.Round
	m.queue = nil
	for _, q := range st.Queue {
		m.queue = append(m.queue, pend{q.Name, q.Body})
	}
}

func (m *oMod) HandleInfo(ctx context.Context, name string, body io.Reader) error {
	b, err := io.ReadAll(body)
	if err != nil {
		return err
	}
	m.rec.add(call{Side: "owner", Mod: m.spec.Name, Kind: "HandleInfo", Msg: name, Body: b})
	if name == "active" {
		var a bool
		if err := cbor.Unmarshal(b, &a); err == nil && !a {
			m.inactive = true
		}
	}
	return nil
}

func (m *oMod) ProduceInfo(ctx context.Context, p *serviceinfo.Producer) (bool, bool, error) {
	m.rec.add(call{Side: "owner", Mod: m.spec.Name, Kind: "ProduceInfo", Arg: m.done})
	if m.done {
		return false, true, nil
	}
	if !m.sentActive {
		m.sentActive = true
		b, _ := cbor.Marshal(true)
		if err := p.WriteChunk("active", b); err != nil {
			return false, false, err
		}
		if m.spec.DoneWithActive {
			m.done = true
			return false, true, nil
		}
		return false, false, nil
	}
	if m.inactive {
		m.done = true
		return false, true, nil
	}
	if m.idle < m.spec.Idle {
		m.idle++
		return false, false, nil
	}
	if m.round >= len(m.spec.Rounds) {
		m.done = true
		return false, true, nil
	}
	if !m.loaded {
		for _, ms := range m.spec.Rounds[m.round] {
			m.queue = append(m.queue, pend{ms.Name, ms.body()})
		}
		m.loaded = true
	}
	for len(m.queue) > 0 {
		q := &m.queue[0]
		n := p.Available(q.name)
		if n <= 0 || (n < len(q.body) && len(q.body) <= 64) {
			break // small messages travel whole
		}
		if n > len(q.body) {
			n = len(q.body)
		}
		if err := p.WriteChunk(q.name, q.body[:n]); err != nil {
			return false, false, err
		}
		q.body = q.body[n:]
		if len(q.body) == 0 {
			m.queue = m.queue[1:]
		}
	}
	block := m.round < len(m.spec.Block) && m.spec.Block[m.round]
	if len(m.queue) > 0 {
		return block, false, nil
	}
	m.round++
	m.loaded = false
	if m.round >= len(m.spec.Rounds) && m.spec.DoneWithLast {
		m.done = true
		return false, true, nil
	}
	return block && m.round < len(m.spec.Rounds), false, nil
}

// ---------------- device module ----------------

type dMod struct {
	spec    dModSpec
	rec     *recorder
	yielded bool
}

func (d *dMod) Transition(active bool) error {
	d.rec.add(call{Side: "device", Mod: d.spec.Name, Kind: "Transition", Arg: active})
	return nil
}

func (d *dMod) emit(msgs []msgSpec, respond func(string) io.Writer, yield func()) error {
	for _, m := range msgs {
		w := respond(m.Name)
		body := m.body()
		n := max(1, m.Splits)
		for i := 0; i < n; i++ {
			part := body[len(body)*i/n : len(body)*(i+1)/n]
			if len(part) == 0 {
				continue
			}
			if _, err := w.Write(part); err != nil {
				return err
			}
		}
		if m.Yield {
			yield()
		}
	}
	return nil
}

func (d *dMod) Receive(ctx context.Context, name string, body io.Reader, respond func(string) io.Writer, yield func()) error {
	b, err := io.ReadAll(body)
	if err != nil {
		return err
	}
	d.rec.add(call{Side: "device", Mod: d.spec.Name, Kind: "Receive", Msg: name, Body: b})
	return d.emit(d.spec.Replies[name], respond, yield)
}

func (d *dMod) Yield(ctx context.Context, respond func(string) io.Writer, yield func()) error {
	d.rec.add(call{Side: "device", Mod: d.spec.Name, Kind: "Yield"})
	if d.yielded {
		return nil
	}
	d.yielded = true
	return d.emit(d.spec.OnYield, respond, yield)
}

// ---------------- one run ----------------

type world struct {
	w   *lab.World
	ctx context.Context
}

func newWorld() *world {
	ctx := context.Background()
	k := keys.Kinds[0]
	w := lab.NewWorld(k, protocol.X509KeyEnc)
	if _, err := w.Manufacture(ctx, 1); err != nil {
		fmt.Fprintf(os.Stderr, "HARNESS-ERROR manufacture: %v\n", err)
		os.Exit(2)
	}
	w.Owner.Reuse = true
	w.Owner.Handler.MaxContentLength = 1 << 18 // the transport's own size cap is configuration, sized here for MTU 65535
	w.Owner.Mem.AllModules = true
	return &world{w: w, ctx: ctx}
}

type outcome struct {
	err       error
	rec       *recorder
	devmod    *serviceinfo.Devmod
	supported []string
	wire      []lab.PlainMsg
	cfgDevmod serviceinfo.Devmod
	devNames  []string
}

func extraName(i, l int) string {
	s := fmt.Sprintf("x%03d", i)
	for len(s) < l {
		s += "y"
	}
	return s
}

func (wd *world) run(s scen) outcome {
	rec := &recorder{}
	out := outcome{rec: rec}
	w := wd.w
	w.Owner.Mem.OwnerModules = func(ctx context.Context, guid protocol.GUID, devmod serviceinfo.Devmod, supported []string) []lab.NamedModule {
		d := devmod
		out.devmod = &d
		out.supported = append([]string{}, supported...)
		var l []lab.NamedModule
		for _, o := range s.Owner {
			l = append(l, lab.NamedModule{Name: o.Name, Mod: &oMod{spec: o, rec: rec}})
		}
		return l
	}
	if s.Persist {
		w.Owner.TO2.Modules = w.Owner.Mem.PersistingModules()
	} else {
		w.Owner.TO2.Modules = w.Owner.Mem.Modules()
	}
	if s.SendMTU != 0 {
		mtu := s.SendMTU
		w.Owner.TO2.MaxDeviceServiceInfoSize = func(context.Context, fdo.Voucher) (uint16, error) { return mtu, nil }
	} else {
		w.Owner.TO2.MaxDeviceServiceInfoSize = nil
	}
	cfg := w.Dev.TO2Config(kex.ECDH256Suite, kex.A128GcmCipher)
	cfg.MaxServiceInfoSizeReceive = s.RecvMTU
	cfg.AllowCredentialReuse = true
	cfg.DeviceModules = map[string]serviceinfo.DeviceModule{}
	for _, d := range s.Device {
		cfg.DeviceModules[d.Name] = &dMod{spec: d, rec: rec}
		out.devNames = append(out.devNames, d.Name)
	}
	for i := 0; i < s.Extra; i++ {
		n := extraName(i, s.ExtraLen)
		cfg.DeviceModules[n] = &dMod{spec: dModSpec{Name: n}, rec: rec}
		out.devNames = append(out.devNames, n)
	}
	out.cfgDevmod = cfg.Devmod
	ht := lab.NewWire(w.Owner).Transport()
	ht.MaxContentLength = 1 << 18
	tr := &lab.RecTransport{Inner: ht}
	_, out.err = fdo.TO2(wd.ctx, tr, nil, cfg)
	out.wire = tr.Log
	return out
}

// ---------------- reference model and oracle ----------------

type kv struct {
	Name string
	Body []byte
}

func merge(in []kv) []kv {
	var out []kv
	for _, k := range in {
		if n := len(out); n > 0 && out[n-1].Name == k.Name {
			out[n-1].Body = append(out[n-1].Body, k.Body...)
			continue
		}
		out = append(out, kv{k.Name, bytes.Clone(k.Body)})
	}
	return out
}

func sameKV(a, b []kv) bool {
	if len(a) != len(b) {
		return false
	}
	for i := range a {
		if a[i].Name != b[i].Name || !bytes.Equal(a[i].Body, b[i].Body) {
			return false
		}
	}
	return true
}

func descKV(a []kv) string {
	var p []string
	for _, k := range a {
		p = append(p, fmt.Sprintf("%s[%d]", k.Name, len(k.Body)))
	}
	return strings.Join(p, " ")
}

type viol struct{ key, what string }

// judge compares one run with the reference model; it returns the violations found.
func judge(s scen, o outcome) []viol {
	var vs []viol
	add := func(key, f string, a ...any) { vs = append(vs, viol{key, fmt.Sprintf(f, a...)}) }
	if o.err != nil {
		add("to2-fails:"+classify(o.err), "TO2 fails: %v", o.err)
		return vs
	}
	dev := map[string]dModSpec{}
	for _, d := range s.Device {
		dev[d.Name] = d
	}
	own := map[string]int{}
	for i, m := range s.Owner {
		own[m.Name] = i
	}
	// 1. devmod and module list as the owner stored them
	if o.devmod == nil {
		add("devmod-missing", "the owner never completed devmod")
	} else {
		if a, _ := cbor.Marshal(*o.devmod); !bytes.Equal(a, mustCBOR(o.cfgDevmod)) {
			add("devmod-differs", "owner stored devmod %+v, device configured %+v", *o.devmod, o.cfgDevmod)
		}
		want := append([]string{"devmod"}, o.devNames...)
		got := append([]string{}, o.supported...)
		sort.Strings(want)
		sort.Strings(got)
		if strings.Join(want, ",") != strings.Join(got, ",") {
			add("module-list-differs", "owner stored %d module names, device has %d (first difference: %s)", len(got), len(want), firstDiff(got, want))
		}
	}
	// 2. per-module streams
	devGot := map[string][]kv{}
	ownGot := map[string][]kv{}
	activated := map[string]bool{}
	var produceOrder []string
	doneSeen := map[string]bool{}
	for _, c := range o.rec.calls {
		switch {
		case c.Side == "device" && c.Kind == "Transition":
			if c.Arg {
				activated[c.Mod] = true
			}
			if _, addressed := own[c.Mod]; !addressed {
				add("callback-on-unaddressed-module", "device module %q, which no owner module addresses, got Transition(%v)", c.Mod, c.Arg)
			}
		case c.Side == "device":
			if !activated[c.Mod] {
				add("callback-before-activation", "device module %q got %s %q before Transition(true)", c.Mod, c.Kind, c.Msg)
			}
			if c.Kind == "Receive" {
				devGot[c.Mod] = append(devGot[c.Mod], kv{c.Msg, c.Body})
			}
		case c.Kind == "HandleInfo":
			ownGot[c.Mod] = append(ownGot[c.Mod], kv{c.Msg, c.Body})
		case c.Kind == "ProduceInfo":
			if c.Arg || doneSeen[c.Mod] && false {
				add("produce-after-done", "owner module %q asked to produce after it reported done", c.Mod)
			}
			if n := len(produceOrder); n == 0 || produceOrder[n-1] != c.Mod {
				produceOrder = append(produceOrder, c.Mod)
			}
		}
	}
	var wantOrder []string
	for _, m := range s.Owner {
		wantOrder = append(wantOrder, m.Name)
	}
	if strings.Join(produceOrder, ",") != strings.Join(wantOrder, ",") {
		add("module-order", "owner modules produced in order %v, configured %v", produceOrder, wantOrder)
	}
	cborTrue, _ := cbor.Marshal(true)
	cborFalse, _ := cbor.Marshal(false)
	for _, m := range s.Owner {
		d, shared := dev[m.Name]
		if !shared {
			if got := merge(ownGot[m.Name]); !sameKV(got, []kv{{"active", cborFalse}}) {
				add("unknown-module-not-inactive", "owner module %q, unknown to the device, received %s (want exactly active=false)", m.Name, descKV2(got))
			}
			continue
		}
		var wantDev, wantOwn []kv
		wantOwn = append(wantOwn, kv{"active", cborTrue})
		for _, y := range d.OnYield {
			wantOwn = append(wantOwn, kv{y.Name, y.body()})
		}
		for ri, round := range m.Rounds {
			for _, ms := range round {
				wantDev = append(wantDev, kv{ms.Name, ms.body()})
				if m.DoneWithLast && ri == len(m.Rounds)-1 {
					continue
				}
				for _, rp := range d.Replies[ms.Name] {
					wantOwn = append(wantOwn, kv{rp.Name, rp.body()})
				}
			}
		}
		if got, want := merge(devGot[m.Name]), merge(wantDev); !sameKV(got, want) {
			add("device-stream-differs", "device module %q received %s, owner module wrote %s", m.Name, descKV(got), descKV(want))
		}
		got, want := merge(ownGot[m.Name]), merge(wantOwn)
		if m.DoneWithActive {
			want = nil
			got = nil
		}
		if m.DoneWithLast {
			// replies to the final round may or may not arrive; everything owed must be a prefix
			if len(got) >= len(want) {
				got = got[:len(want)]
			}
		}
		if !sameKV(got, want) {
			add("owner-stream-differs", "owner module %q received %s, device module wrote %s", m.Name, descKV(got), descKV(want))
		}
	}
	for name := range devGot {
		if _, ok := own[name]; !ok {
			add("callback-on-unaddressed-module", "device module %q received messages although no owner module addresses it", name)
		}
	}
	// 3. termination: exactly one Done, after the last module finished, nothing after it but Done2
	dones, lastInfo := 0, -1
	for i, m := range o.wire {
		if m.Dir != "req" {
			continue
		}
		switch m.Type {
		case 70:
			dones++
			if i != len(o.wire)-2 {
				add("done-not-last", "TO2.Done is message %d of %d", i, len(o.wire))
			}
		case 68:
			lastInfo = i
		}
	}
	if dones != 1 {
		add("done-count", "%d TO2.Done messages", dones)
	}
	_ = lastInfo
	return vs
}

func mustCBOR(v any) []byte {
	b, _ := cbor.Marshal(v)
	return b
}

func descKV2(a []kv) string {
	var p []string
	for _, k := range a {
		p = append(p, fmt.Sprintf("%s=%x", k.Name, k.Body))
	}
	return "[" + strings.Join(p, " ") + "]"
}

func firstDiff(got, want []string) string {
	g := map[string]int{}
	for _, x := range got {
		g[x]++
	}
	for _, x := range want {
		if g[x] == 0 {
			return fmt.Sprintf("%q missing", x)
		}
		g[x]--
	}
	for x, n := range g {
		if n > 0 {
			return fmt.Sprintf("%q extra", x)
		}
	}
	return "order only"
}

func classify(err error) string {
	m := err.Error()
	for _, k := range []string{"could not read service info key", "not enough size", "MTU too small", "exceeding the MTU", "closed pipe", "unexpected EOF", "EOF", "invalid devmod module chunk", "has not activated", "did not read full body", "deadlock"} {
		if strings.Contains(m, k) {
			return k
		}
	}
	if len(m) > 60 {
		m = m[len(m)-60:]
	}
	return m
}

// ---------------- (A) scenario grid ----------------

func baseDevice(name string, replies map[string][]msgSpec, onYield []msgSpec) dModSpec {
	return dModSpec{Name: name, Replies: replies, OnYield: onYield}
}

// secondSize: the reply that follows the swept one is short for half of the sweep positions and several messages long for
// the other half (a key pushed to the next message whose value then fills more than that whole message)
func secondSize(f, send int) int {
	if (f/2)%2 == 1 {
		return 2*send + 100
	}
	return 30
}

func scenarios(thorough bool) []scen {
	var out []scen
	add := func(s scen) { out = append(out, s) }
	type pair struct{ recv, send uint16 }
	pairs := []pair{{0, 0}, {1300, 1300}, {1301, 1500}, {65535, 65535}, {1300, 65535}, {65535, 1300}}
	if thorough {
		pairs = append(pairs, pair{1400, 1299 + 2}, pair{2048, 1302}, pair{1302, 2048}, pair{4096, 4096}, pair{1303, 1303}, pair{1304, 1305}, pair{32768, 1300}, pair{1300, 32768})
	}
	// 1. module-count sweep: the complete module list reaches the owner
	counts := []int{0, 1, 2, 3, 199, 200}
	for i := 5; i < 199; i += 6 {
		counts = append(counts, i)
	}
	nameLens := []int{4, 12, 30}
	if thorough {
		counts = nil
		for i := 0; i <= 200; i++ {
			counts = append(counts, i)
		}
		nameLens = []int{4, 5, 12, 30}
	}
	for _, p := range pairs {
		for _, n := range counts {
			for _, l := range nameLens {
				add(scen{Label: "modules", RecvMTU: p.recv, SendMTU: p.send, Extra: n, ExtraLen: l,
					Owner:  []oModSpec{{Name: "m1", Rounds: [][]msgSpec{{{Name: "go", Size: 3, Seed: 1}}}}},
					Device: []dModSpec{baseDevice("m1", map[string][]msgSpec{"go": {{Name: "r", Size: 5, Seed: 2}}}, nil)}})
			}
		}
	}
	// 1b. dense module counts where the whole list is ONE chunk whatever order the device's module map is iterated
	// in: the chunk is the array [start, len, name...], whose head grows at 24 and at 256 items (20 and 252 extra
	// modules next to m1 and devmod); the sparse counts above reach such a chunk only by luck of the map order
	dense := []int{}
	for i := 4; i <= 40; i++ {
		dense = append(dense, i)
	}
	for _, p := range pairs {
		for _, n := range dense {
			add(scen{Label: "modules-dense", RecvMTU: p.recv, SendMTU: p.send, Extra: n, ExtraLen: 4,
				Owner:  []oModSpec{{Name: "m1", Rounds: [][]msgSpec{{{Name: "go", Size: 3, Seed: 1}}}}},
				Device: []dModSpec{baseDevice("m1", map[string][]msgSpec{"go": {{Name: "r", Size: 5, Seed: 2}}}, nil)}})
		}
		if p.send >= 4096 {
			for n := 246; n <= 258; n++ {
				add(scen{Label: "modules-dense", RecvMTU: p.recv, SendMTU: p.send, Extra: n, ExtraLen: 4,
					Owner:  []oModSpec{{Name: "m1", Rounds: [][]msgSpec{{{Name: "go", Size: 3, Seed: 1}}}}},
					Device: []dModSpec{baseDevice("m1", map[string][]msgSpec{"go": {{Name: "r", Size: 5, Seed: 2}}}, nil)}})
			}
		}
	}
	// 2. device reply sizes across every remainder of the device's send budget
	for _, p := range pairs {
		send := int(p.send)
		if send == 0 {
			send = serviceinfo.DefaultMTU
		}
		lo, hi, step := send-70, send+8, 1
		if !thorough && p.send != 1300 {
			step = 2
		}
		for f := lo; f <= hi; f += step {
			for _, y := range []bool{false, true} {
				for _, splits := range []int{1, 3} {
					if !thorough && (splits == 3) != y {
						continue
					}
					add(scen{Label: "reply-remainder", RecvMTU: p.recv, SendMTU: p.send,
						Owner: []oModSpec{{Name: "m1", Rounds: [][]msgSpec{{{Name: "go", Size: 3, Seed: 1}}, {{Name: "go2", Size: 1, Seed: 4}}}}},
						Device: []dModSpec{baseDevice("m1", map[string][]msgSpec{
							"go":  {{Name: "first", Size: f, Seed: 2, Yield: y, Splits: splits}, {Name: "second-reply-with-a-long-name", Size: secondSize(f, send), Seed: 3}, {Name: "t", Size: 1, Seed: 9}},
							"go2": {{Name: "u", Size: 2, Seed: 5}},
						}, nil)}})
				}
			}
		}
		// values much longer than one message, in both directions
		for _, mult := range []int{2, 5} {
			add(scen{Label: "long-both", RecvMTU: p.recv, SendMTU: p.send,
				Owner:  []oModSpec{{Name: "m1", Rounds: [][]msgSpec{{{Name: "blob", Size: mult*int(max(p.recv, 1300)) + 17, Seed: 1}, {Name: "go", Size: 2, Seed: 3}}}, Block: []bool{true}}},
				Device: []dModSpec{baseDevice("m1", map[string][]msgSpec{"go": {{Name: "back", Size: mult*send + 11, Seed: 2, Splits: 4}, {Name: "t", Size: 1, Seed: 9}}}, nil)}})
		}
		// owner message sizes across every remainder of the owner's budget
		recv := int(p.recv)
		if recv == 0 {
			recv = serviceinfo.DefaultMTU
		}
		stepO := 1
		if !thorough && p.recv != 1300 {
			stepO = 2
		}
		for f := recv - 70; f <= recv+8; f += stepO {
			for _, block := range []bool{false, true} {
				add(scen{Label: "owner-remainder", RecvMTU: p.recv, SendMTU: p.send,
					Owner:  []oModSpec{{Name: "m1", Rounds: [][]msgSpec{{{Name: "big", Size: f, Seed: 1}, {Name: "next-message-with-a-long-name", Size: 80, Seed: 2}, {Name: "go", Size: 2, Seed: 3}}}, Block: []bool{block}}},
					Device: []dModSpec{baseDevice("m1", map[string][]msgSpec{"go": {{Name: "r", Size: 5, Seed: 2}}}, nil)}})
			}
		}
	}
	// 2b. every MTU of a band above the minimum (thorough: a wider band, and one below the maximum) (the minimum and up, the maximum and down) with a long module list and
	// values several messages long in both directions
	{
		var band []uint16
		hi := 1345 // every residue of the chunk arithmetic modulo the encoded name lengths in use
		if thorough {
			hi = 1560
		}
		for m := 1300; m <= hi; m++ {
			band = append(band, uint16(m))
		}
		if thorough {
			for m := 65400; m <= 65535; m += 3 {
				band = append(band, uint16(m))
			}
		}
		for _, m := range band {
			add(scen{Label: "band-modules", RecvMTU: m, SendMTU: m, Extra: 150, ExtraLen: 12,
				Owner:  []oModSpec{{Name: "m1", Rounds: [][]msgSpec{{{Name: "go", Size: 3, Seed: 1}}}}},
				Device: []dModSpec{baseDevice("m1", map[string][]msgSpec{"go": {{Name: "r", Size: 5, Seed: 2}}}, nil)}})
			add(scen{Label: "band-long", RecvMTU: m, SendMTU: uint16(1300 + (int(m)*7)%64000),
				Owner:  []oModSpec{{Name: "m1", Rounds: [][]msgSpec{{{Name: "blob", Size: 2*int(m) + 17, Seed: 1}, {Name: "go", Size: 2, Seed: 3}}}, Block: []bool{true}}},
				Device: []dModSpec{baseDevice("m1", map[string][]msgSpec{"go": {{Name: "back", Size: 2*int(m) + 11, Seed: 2, Splits: 4, Yield: true}, {Name: "t", Size: 1, Seed: 9}}}, nil)}})
		}
	}
	// 3. module structure: several modules, owner-only, device-only, idle rounds, yield output, done with last data
	two := func(p pair, variant int) scen {
		s := scen{Label: fmt.Sprintf("structure-%d", variant), RecvMTU: p.recv, SendMTU: p.send, Extra: 2, ExtraLen: 6}
		m1 := oModSpec{Name: "m1", Rounds: [][]msgSpec{{{Name: "a", Size: 4, Seed: 1}, {Name: "b", Size: 9, Seed: 2}}, {{Name: "c", Size: 1, Seed: 3}}}}
		ghost := oModSpec{Name: "ghost", Rounds: [][]msgSpec{{{Name: "never", Size: 4, Seed: 1}}}}
		m2 := oModSpec{Name: "m2", Rounds: [][]msgSpec{{{Name: "p", Size: 2000, Seed: 5}}, {{Name: "q", Size: 2, Seed: 6}}}, Block: []bool{true, false}}
		d1 := baseDevice("m1", map[string][]msgSpec{"a": {{Name: "ra", Size: 10, Seed: 7}}, "c": {{Name: "rc", Size: 1500, Seed: 8, Splits: 2}, {Name: "rc2", Size: 1, Seed: 1}}}, nil)
		d2 := baseDevice("m2", map[string][]msgSpec{"q": {{Name: "rq", Size: 3, Seed: 9, Yield: true}, {Name: "rq2", Size: 3, Seed: 10}}}, []msgSpec{{Name: "hello", Size: 6, Seed: 11}})
		switch variant {
		case 0:
			s.Owner, s.Device = []oModSpec{m1, m2}, []dModSpec{d1, d2}
		case 1:
			s.Owner, s.Device = []oModSpec{m1, ghost, m2}, []dModSpec{d1, d2}
		case 2:
			s.Owner, s.Device = []oModSpec{ghost}, []dModSpec{d1}
		case 3:
			m1.Idle = 2
			s.Owner, s.Device = []oModSpec{m1, m2}, []dModSpec{d1, d2}
		case 4:
			m2.DoneWithLast = true
			s.Owner, s.Device = []oModSpec{m1, m2}, []dModSpec{d1, d2}
		case 5:
			s.Owner, s.Device = nil, []dModSpec{d1}
		case 6:
			s.Owner, s.Device = []oModSpec{ghost, m1}, nil
		case 7:
			s.Owner, s.Device = []oModSpec{{Name: "m1"}, m2}, []dModSpec{d1, d2}
		case 8: // m1 finishes with its last data; the device's answers to it arrive when m2 is current
			m1.DoneWithLast = true
			s.Owner, s.Device = []oModSpec{m1, m2}, []dModSpec{d1, d2}
		case 9: // m1 finishes in the call that activates it; the automatic active reply arrives when m2 is current
			s.Owner, s.Device = []oModSpec{{Name: "m1", DoneWithActive: true}, m2}, []dModSpec{d1, d2}
		case 10: // the same with a module unknown to the device in between
			s.Owner, s.Device = []oModSpec{{Name: "m1", DoneWithActive: true}, ghost, m2}, []dModSpec{d1, d2}
		case 11: // three modules, the middle one finishing with its last data, the last one finishing with data too
			m3 := oModSpec{Name: "m3", Rounds: [][]msgSpec{{{Name: "x", Size: 7, Seed: 3}}}, DoneWithLast: true}
			d3 := baseDevice("m3", map[string][]msgSpec{"x": {{Name: "rx", Size: 4, Seed: 2, Yield: true}, {Name: "rx2", Size: 2, Seed: 1}}}, nil)
			m2.DoneWithLast = true
			s.Owner, s.Device = []oModSpec{m1, m2, m3}, []dModSpec{d1, d2, d3}
		}
		return s
	}
	for _, p := range pairs {
		for v := 0; v <= 11; v++ {
			add(two(p, v))
		}
	}
	// the same structures with a persisting module state machine on the owner side
	for _, p := range pairs[:2] {
		for v := 0; v <= 11; v++ {
			s := two(p, v)
			s.Persist, s.Label = true, s.Label+"-persisted"
			add(s)
		}
	}
	return out
}

func sweep(thorough bool) {
	scs := scenarios(thorough)
	var wg sync.WaitGroup
	jobs := make(chan scen, len(scs))
	for _, s := range scs {
		jobs <- s
	}
	close(jobs)
	for w := 0; w < 16; w++ {
		wg.Add(1)
		go func() {
			defer wg.Done()
			wd := newWorld()
			for s := range jobs {
				done := make(chan outcome, 1)
				go func() { done <- wd.run(s) }()
				select {
				case o := <-done:
					r.Evaluations.Add(1)
					vs := judge(s, o)
					for _, v := range vs {
						r.Violation(v.key, fmt.Sprintf("[%s recv=%d send=%d extra=%d] %s", s.Label, s.RecvMTU, s.SendMTU, s.Extra, v.what), map[string]any{"mode": "sweep", "scenario": s})
					}
					n68 := 0
					for _, m := range o.wire {
						if m.Type == 68 && m.Dir == "req" {
							n68++
						}
					}
					r.Distinct(fmt.Sprintf("%s|%d|%d|msgs=%d|ok=%v", s.Label, s.RecvMTU, s.SendMTU, n68, len(vs) == 0))
				case <-time.After(60 * time.Second):
					r.Evaluations.Add(1)
					r.Violation("hang", fmt.Sprintf("[%s recv=%d send=%d extra=%d] TO2 did not finish within 60 s", s.Label, s.RecvMTU, s.SendMTU, s.Extra), map[string]any{"mode": "sweep", "scenario": s})
					wd = newWorld() // the stuck run keeps the old world
				}
			}
		}()
	}
	wg.Wait()
	r.Add("sweep_scenarios", int64(len(scs)))
}

// ---------------- (B) schedules ----------------

func schedScenarios(thorough bool) []scen {
	s := []scen{
		{Label: "sched-basic", RecvMTU: 1300, SendMTU: 1300,
			Owner:  []oModSpec{{Name: "m1", Rounds: [][]msgSpec{{{Name: "go", Size: 3, Seed: 1}}}}},
			Device: []dModSpec{baseDevice("m1", map[string][]msgSpec{"go": {{Name: "r", Size: 5, Seed: 2}}}, nil)}},
		{Label: "sched-yield-long", RecvMTU: 1300, SendMTU: 1300, Extra: 1, ExtraLen: 4,
			Owner:  []oModSpec{{Name: "m1", Rounds: [][]msgSpec{{{Name: "go", Size: 3, Seed: 1}}}}},
			Device: []dModSpec{baseDevice("m1", map[string][]msgSpec{"go": {{Name: "r", Size: 1400, Seed: 2, Yield: true, Splits: 2}, {Name: "s", Size: 2, Seed: 3}}}, []msgSpec{{Name: "hello", Size: 2, Seed: 4}})}},
	}
	if thorough {
		s = append(s,
			scen{Label: "sched-two-modules", RecvMTU: 1300, SendMTU: 1300,
				Owner:  []oModSpec{{Name: "ghost"}, {Name: "m1", Rounds: [][]msgSpec{{{Name: "blob", Size: 1500, Seed: 1}, {Name: "go", Size: 3, Seed: 1}}}, Block: []bool{true}}},
				Device: []dModSpec{baseDevice("m1", map[string][]msgSpec{"go": {{Name: "r", Size: 5, Seed: 2}}}, nil)}},
			scen{Label: "sched-exact-fill-then-yield", RecvMTU: 1300, SendMTU: 1300,
				Owner:  []oModSpec{{Name: "m1", Rounds: [][]msgSpec{{{Name: "go", Size: 3, Seed: 1}}}}},
				Device: []dModSpec{baseDevice("m1", map[string][]msgSpec{"go": {{Name: "first", Size: 1282, Seed: 2, Yield: true, Splits: 3}, {Name: "second", Size: 30, Seed: 3}}}, nil)}},
			scen{Label: "sched-many-modules", RecvMTU: 1300, SendMTU: 1300, Extra: 120, ExtraLen: 12,
				Owner:  []oModSpec{{Name: "m1", Rounds: [][]msgSpec{{{Name: "go", Size: 3, Seed: 1}}}}},
				Device: []dModSpec{baseDevice("m1", map[string][]msgSpec{"go": {{Name: "r", Size: 5, Seed: 2}}}, nil)}},
			scen{Label: "sched-done-with-last", RecvMTU: 1300, SendMTU: 1300,
				Owner:  []oModSpec{{Name: "m1", Rounds: [][]msgSpec{{{Name: "go", Size: 3, Seed: 1}}, {{Name: "fin", Size: 2000, Seed: 1}}}, DoneWithLast: true}},
				Device: []dModSpec{baseDevice("m1", map[string][]msgSpec{"go": {{Name: "r", Size: 5, Seed: 2}}, "fin": {{Name: "late", Size: 3, Seed: 2}}}, nil)}})
	}
	return s
}

func schedulesShard(shard, n int, thorough bool) *schedshard.Report {
	rep := &schedshard.Report{}
	wd := newWorld()
	for si, s := range schedScenarios(thorough) {
		bound := 1 // two preemptions over ~700 scheduling points per run are out of reach; thorough adds scenarios instead
		sc := schedshard.Scenario{Name: s.Label, Bound: bound, Outcomes: map[string]int{}}
		var commit func() // committed by visit: once per execution over all shards
		v0, t0 := len(rep.Violations), time.Now()
		budget := 8 * time.Minute
		if thorough {
			budget = 60 * time.Minute
		}
		explore.Stop = func() bool { return len(rep.Violations)-v0 >= 3 || time.Since(t0) > budget }
		st := explore.ExploreShard(bound, shard, n, func(c *explore.Ctx) {
			var o outcome
			vres := vsync.Run(c.Choose, 200000, func() { o = wd.run(s) })
			clean := !vres.Deadlock && !vres.Livelock && len(vres.Panics) == 0
			if !clean {
				wd = newWorld()
			}
			commit = func() {
				sc.Steps += int64(vres.Steps)
				rep.Evals++
				extra := map[string]any{"mode": "schedule", "choices": append([]int{}, c.Choices...), "preemptions": vres.Preempts, "scenario_index": si, "scenario": s}
				v := func(key, what string) {
					rep.Violations = append(rep.Violations, schedshard.Violation{Key: key, What: "[" + s.Label + "] " + what, Replay: extra})
				}
				switch {
				case vres.Deadlock:
					v("deadlock", fmt.Sprintf("deadlock: %v", vres.Blocked))
				case vres.Livelock:
					v("livelock", "no termination within the step horizon")
				case len(vres.Panics) > 0:
					v("panic:"+firstLine(vres.Panics[0]), vres.Panics[0])
				default:
					for _, x := range judge(s, o) {
						v(x.key, x.what)
					}
				}
				sc.Outcomes[fmt.Sprintf("err=%v calls=%d deadlock=%v panics=%d", o.err != nil, lenCalls(o), vres.Deadlock, len(vres.Panics))]++
			}
		}, func(*explore.Ctx) { commit() })
		sc.Executions, sc.MaxDepth = st.Executions, st.MaxDepth
		if st.Stopped && len(rep.Violations)-v0 < 3 {
			rep.Capped = append(rep.Capped, fmt.Sprintf("scenario %q: shard %d stopped at its wall-clock budget after %d executions", sc.Name, shard, st.Executions))
		}
		rep.Diverged = append(rep.Diverged, st.Diverged...)
		rep.Scenarios = append(rep.Scenarios, sc)
	}
	return rep
}

func lenCalls(o outcome) int {
	if o.rec == nil {
		return 0
	}
	return len(o.rec.calls)
}

func firstLine(s string) string {
	if i := strings.Index(s, "\n"); i > 0 {
		s = s[:i]
	}
	if i := strings.Index(s, "): "); i > 0 {
		s = s[i+3:]
	}
	if len(s) > 60 {
		s = s[:60]
	}
	return s
}

func schedules(thorough bool) {
	tier := "quick"
	if thorough {
		tier = "thorough"
	}
	rep, err := schedshard.Fanout(16, tier, 3*time.Hour)
	if err != nil {
		r.Fatal("schedule exploration incomplete: %v", err)
	}
	if len(rep.Diverged) > 0 {
		r.Fatal("schedule replay diverged: %s", rep.Diverged[0])
	}
	r.Evaluations.Add(rep.Evals)
	for _, v := range rep.Violations {
		r.Violation(v.Key, v.What, v.Replay)
	}
	for _, c := range rep.Capped {
		r.Capped(c)
	}
	for _, sc := range rep.Scenarios {
		r.States.Add(int64(sc.Executions))
		r.Transitions.Add(sc.Steps)
		r.Sample(8, map[string]any{"scenario": sc.Name, "preemption_bound": sc.Bound, "executions": sc.Executions, "max_choice_points": sc.MaxDepth, "distinct_outcomes": len(sc.Outcomes)})
		r.Add("schedule_executions", int64(sc.Executions))
		for o := range sc.Outcomes {
			r.Distinct("sched-outcome|" + sc.Name + "|" + o)
		}
	}
}

func main() {
	if shard, n, tier, ok := schedshard.Child(); ok {
		schedulesShard(shard, n, tier == "thorough").Emit()
	}
	r = ev.Start("C16", "model_checking")
	r.Rule("(A) every scenario of a grid run end to end through the real TO2 client, HTTP transport, handler and owner responders with scripted recording modules on both sides: MTU pairs (device receive, device send) x 0..200 device module names of several lengths; device reply sizes across EVERY remainder of the device's send budget (budget-70..budget+8) with/without yield and split writes; owner message sizes across every remainder of the owner's budget with/without IsMoreServiceInfo; values several messages long in both directions; module structures (two modules, owner-only module first/middle/alone, device-only modules, idle rounds, output on yield, done together with last data, empty module, no owner modules, no device modules). (B) the same run with the device's chunk.go/to2.go rewritten onto the cooperative scheduler: all interleavings of the device's module, chunking and transport threads with at most 1 preemption for 2 (thorough 6) scenarios. Oracle: reference model computed from the script (stored devmod and module list; per-module streams after merging consecutive equal message names; activation before any callback; no callback on unaddressed modules; unknown module sees exactly active=false; owner modules produce in order and never after done; exactly one Done, last; TO2 returns nil).")
	if r.Replay != "" {
		replay(r.Replay)
		return
	}
	t0 := time.Now()
	sweep(!r.Quick())
	r.Set("seconds_sweep", int64(time.Since(t0).Seconds()))
	t0 = time.Now()
	schedules(!r.Quick())
	r.Set("seconds_schedules", int64(time.Since(t0).Seconds()))
	r.Traces.Add(r.States.Load())
	r.Assume("MTUs below the protocol default 1300 are outside the grid (the library neither clamps nor documents a smaller minimum; the protocol's minimum is 1300)")
	r.Assume("the rewriter maps each Go synchronisation operation to one shim operation with the same blocking behaviour; the repository's own tests pass against the rewritten packages in pass-through mode (checked in setup)")
	r.Finish()
}

func replay(path string) {
	b, err := os.ReadFile(path)
	if err != nil {
		r.Fatal("%v", err)
	}
	var f struct {
		Key    string `json:"key"`
		Replay struct {
			Mode     string `json:"mode"`
			Choices  []int  `json:"choices"`
			Scenario scen   `json:"scenario"`
		} `json:"replay"`
	}
	if err := json.Unmarshal(b, &f); err != nil {
		r.Fatal("%v", err)
	}
	wd := newWorld()
	var o outcome
	if f.Replay.Mode == "schedule" {
		vsync.TraceOn = true
		explore.Replay(f.Replay.Choices, func(c *explore.Ctx) {
			vres := vsync.Run(c.Choose, 200000, func() { o = wd.run(f.Replay.Scenario) })
			tr := vres.Trace
			if len(tr) > 120 {
				tr = tr[len(tr)-120:]
			}
			for _, l := range tr {
				fmt.Println("  ", l)
			}
			fmt.Printf("deadlock=%v livelock=%v panics=%v blocked=%v\n", vres.Deadlock, vres.Livelock, vres.Panics, vres.Blocked)
		})
	} else {
		o = wd.run(f.Replay.Scenario)
	}
	fmt.Printf("scenario: %s\nTO2 error: %v\n", f.Replay.Scenario, o.err)
	for _, c := range o.rec.calls {
		fmt.Printf("  %-6s %-8s %-11s %-12s %d bytes arg=%v\n", c.Side, c.Mod, c.Kind, c.Msg, len(c.Body), c.Arg)
	}
	for _, m := range o.wire {
		fmt.Printf("  wire %d %s %d bytes\n", m.Type, m.Dir, len(m.Body))
	}
	for _, v := range judge(f.Replay.Scenario, o) {
		fmt.Printf("VIOLATION-DETAIL %s: %s\n", v.key, v.what)
	}
	os.Exit(0)
}
