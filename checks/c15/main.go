// C15 — service-info chunking is lossless, ordered and within the MTU.
//
// (A) exhaustive size sweep on the real UnchunkWriter -> ChunkReader -> batch loop (the re-exported
// exchangeServiceInfoRound) -> ChunkWriter -> UnchunkReader pipeline, default schedule; (B) exhaustive schedule
// exploration (preemption-bounded, cooperative scheduler) of the same pipeline built from the CURRENT source
// rewritten onto the vsync shims.
package main

import (
	"bytes"
	"context"
	"encoding/json"
	"errors"
	"fmt"
	"io"
	"os"
	"strings"
	"sync"
	"time"

	fdo "github.com/fido-device-onboard/go-fdo"
	"github.com/fido-device-onboard/go-fdo/cbor"
	"github.com/fido-device-onboard/go-fdo/kex"
	"github.com/fido-device-onboard/go-fdo/serviceinfo"
	vsync "github.com/fido-device-onboard/go-fdo/zzvsync"

	"verif/internal/ev"
	"verif/internal/explore"
	"verif/internal/schedshard"
)

var r *ev.Run

// one message of a producer script
type msg struct {
	mod, name string
	val       []byte
	splits    int  // the value is written in this many Write calls
	yield     bool // ForceNewMessage after this message
}

type script struct {
	mtu      uint16
	msgs     []msg
	buffered int
	// closeEarly: a third thread closes the writer at an arbitrary moment while the producer may
	// still be writing (what TO2 does with its deferred Close when the exchange fails)
	closeEarly bool
	// stubborn: the producer ignores errors from the writer and keeps calling it, as the respond/yield closures
	// handed to device modules do
	stubborn bool
	// bound overrides the quick preemption bound for this script (thorough adds one)
	bound int
	// scratch: the producer hands every Write the same scratch buffer and overwrites it as soon as Write returns
	// (io.Writer: an implementation must not retain p), as modules that stream from a fixed read buffer do
	scratch bool
}

func (s script) String() string {
	var parts []string
	for _, m := range s.msgs {
		y := ""
		if m.yield {
			y = "+yield"
		}
		parts = append(parts, fmt.Sprintf("%s:%s[%d bytes in %d writes]%s", m.mod, m.name, len(m.val), m.splits, y))
	}
	if s.closeEarly {
		parts = append(parts, fmt.Sprintf("(a third thread closes the writer at any moment; producer ignores errors=%v)", s.stubborn))
	}
	if s.scratch {
		parts = append(parts, "(producer reuses one scratch buffer for every Write)")
	}
	return fmt.Sprintf("mtu=%d buffered=%d %s", s.mtu, s.buffered, strings.Join(parts, " "))
}

// reference model: (key, bytes) with consecutive equal keys merged
type kv struct {
	key string
	val []byte
}

func reference(s script) []kv {
	var out []kv
	for _, m := range s.msgs {
		k := m.mod + ":" + m.name
		if n := len(out); n > 0 && out[n-1].key == k {
			out[n-1].val = append(out[n-1].val, m.val...)
			continue
		}
		out = append(out, kv{k, bytes.Clone(m.val)})
	}
	return out
}

// capture transport: records every DeviceServiceInfo message the batch loop sends, answers "nothing, not done".
type capture struct {
	msgs [][]*serviceinfo.KV
	more []bool
	raw  [][]byte
}

func (c *capture) Send(ctx context.Context, msgType uint8, m any, sess kex.Session) (uint8, io.ReadCloser, error) {
	b, err := cbor.Marshal(m)
	if err != nil {
		return 0, nil, err
	}
	var d fdo.XDeviceServiceInfo
	if err := cbor.Unmarshal(b, &d); err != nil {
		return 0, nil, err
	}
	c.msgs = append(c.msgs, d.ServiceInfo)
	c.more = append(c.more, d.IsMoreServiceInfo)
	c.raw = append(c.raw, b)
	reply, _ := cbor.Marshal(fdo.XOwnerServiceInfo{})
	return 69, io.NopCloser(bytes.NewReader(reply)), nil
}

type result struct {
	got        []kv
	writerErr  error
	roundErr   error
	msgs       int
	raw        [][]byte // the DeviceServiceInfo messages as sent
	oversize   string
	overbudget string
	yieldBad   string
}

// pipeline runs the producer and the batch loop. spawn starts a goroutine (vsync.Go under the scheduler).
func pipeline(s script, spawn func(func()), wait func(done *bool)) result {
	var res result
	reader, writer := serviceinfo.NewChunkOutPipe(s.buffered)
	prodDone := false
	scratchBuf := make([]byte, 70000)
	spawn(func() {
		defer func() { prodDone = true }()
		for mi, m := range s.msgs {
			if err := writer.NextServiceInfo(m.mod, m.name); err != nil && !s.stubborn {
				res.writerErr = fmt.Errorf("NextServiceInfo: %w", err)
				_ = writer.Close()
				return
			}
			if s.closeEarly && mi == 0 {
				// an independent thread closes the writer at a moment of the scheduler's choosing (TO2's deferred
				// Close when the exchange fails). In TO2 the batch loop cannot fail before it has received the
				// first message's pipe, so the closer starts after the first NextServiceInfo.
				spawn(func() { _ = writer.Close() })
			}
			n := max(1, m.splits)
			for i := 0; i < n; i++ {
				part := m.val[len(m.val)*i/n : len(m.val)*(i+1)/n]
				if len(part) == 0 && len(m.val) > 0 {
					continue
				}
				if s.scratch {
					k := copy(scratchBuf, part)
					part = scratchBuf[:k]
				}
				_, werr := writer.Write(part)
				if s.scratch {
					for x := range scratchBuf {
						scratchBuf[x] = 0xEE
					}
				}
				if err := werr; err != nil && !s.stubborn {
					res.writerErr = fmt.Errorf("Write: %w", err)
					_ = writer.Close()
					return
				}
			}
			if m.yield {
				if err := writer.ForceNewMessage(); err != nil && !s.stubborn {
					res.writerErr = fmt.Errorf("ForceNewMessage: %w", err)
					_ = writer.Close()
					return
				}
			}
		}
		if err := writer.Close(); err != nil {
			res.writerErr = fmt.Errorf("Close: %w", err)
		}
	})
	cap := &capture{}
	unchunked, chunker := serviceinfo.NewChunkInPipe(100000)
	_ = chunker
	for rounds := 0; rounds < 10000; rounds++ {
		before := len(cap.msgs)
		_, _, err := fdo.XExchangeServiceInfoRound(fdo.XContext(context.Background()), cap, s.mtu-5, reader, chunker, nil)
		if err != nil {
			res.roundErr = err
			break
		}
		empty := true
		for _, m := range cap.msgs[before:] {
			if len(m) > 0 {
				empty = false
			}
		}

		if empty && prodDone {
			break
		}
		if empty {
			wait(&prodDone)
		}
	}
	res.msgs = len(cap.msgs)
	res.raw = cap.raw
	// budgets: every message fits the negotiated MTU, and the batch of chunks packed into it fits the budget the
	// batch loop was given (MTU less the 5 octets reserved for the message framing)
	for i, b := range cap.raw {
		if len(b) > int(s.mtu) && res.oversize == "" {
			res.oversize = fmt.Sprintf("DeviceServiceInfo message %d is %d bytes, MTU %d", i, len(b), s.mtu)
		}
		sum := 0
		for _, c := range cap.msgs[i] {
			enc, _ := cbor.Marshal(c)
			sum += len(enc)
		}
		if sum > int(s.mtu)-5 && res.overbudget == "" {
			res.overbudget = fmt.Sprintf("the %d chunks packed into DeviceServiceInfo message %d encode to %d bytes, the batch was given %d", len(cap.msgs[i]), i, sum, int(s.mtu)-5)
		}
	}
	// reassembly with the real ChunkWriter/UnchunkReader
	rw, cw := serviceinfo.NewChunkInPipe(100000)
	for _, m := range cap.msgs {
		for _, c := range m {
			if err := cw.WriteChunk(c); err != nil {
				res.roundErr = fmt.Errorf("reassembly WriteChunk: %w", err)
			}
		}
	}
	_ = cw.Close()
	_ = unchunked
	for {
		key, body, ok := rw.NextServiceInfo()
		if !ok {
			break
		}
		b, _ := io.ReadAll(body)
		res.got = append(res.got, kv{key, b})
	}
	// a yield starts a new message: the chunk that follows a yielded message must not share a protocol message with it
	pos := 0
	_ = pos
	return res
}

func same(a, b []kv) bool {
	if len(a) != len(b) {
		return false
	}
	for i := range a {
		if a[i].key != b[i].key || !bytes.Equal(a[i].val, b[i].val) {
			return false
		}
	}
	return true
}

func describe(got []kv) string {
	var p []string
	for _, k := range got {
		p = append(p, fmt.Sprintf("%s[%d]", k.key, len(k.val)))
	}
	return strings.Join(p, " ")
}

func judge(s script, res result, mode string, extra map[string]any) {
	r.Evaluations.Add(1)
	repl := map[string]any{"script": s.String(), "mode": mode}
	for k, v := range extra {
		repl[k] = v
	}
	judgeTo(s, res, mode, func(key, what string) { r.Violation(key, what, repl) })
}

func judgeTo(s script, res result, mode string, viol func(key, what string)) {
	if s.closeEarly {
		return // only absence of panic / deadlock / livelock is demanded when the consumer aborts
	}
	want := reference(s)
	switch {
	case res.roundErr != nil:
		viol("exchange-fails:"+classify(res.roundErr), fmt.Sprintf("%s [%s]: the batch loop fails: %v", s, mode, res.roundErr))
	case res.writerErr != nil:
		viol("writer-error:"+classify(res.writerErr), fmt.Sprintf("%s [%s]: the producing module sees an error: %v", s, mode, res.writerErr))
	case !same(res.got, want):
		viol("lost-or-altered", fmt.Sprintf("%s [%s]: reassembled %s, written %s", s, mode, describe(res.got), describe(want)))
	}
	if res.oversize != "" {
		viol("exceeds-mtu", fmt.Sprintf("%s [%s]: %s", s, mode, res.oversize))
	}
	if res.overbudget != "" {
		viol("batch-exceeds-budget", fmt.Sprintf("%s [%s]: %s", s, mode, res.overbudget))
	}
}

func classify(err error) string {
	m := err.Error()
	for _, k := range []string{"could not read service info key", "not enough size", "closed pipe", "EOF"} {
		if strings.Contains(m, k) {
			return k
		}
	}
	if len(m) > 40 {
		m = m[:40]
	}
	return m
}

func val(n int, seed byte) []byte {
	b := make([]byte, n)
	for i := range b {
		b[i] = seed + byte(i*31)
	}
	return b
}

// ---------------- (A0) every ReadChunk budget, directly ----------------

// budgets calls the real ChunkReader.ReadChunk with EVERY budget 1..maxSize for each key length, with `pending`
// value bytes available, and checks: a returned chunk encodes within the budget it was given; the bytes handed out
// in sequence are exactly the bytes written; a refusal (ErrSizeTooSmall) happens only when key + one value byte
// really cannot fit.
func budgets(thorough bool) {
	maxSize := 700
	keyLens := []int{1, 3, 8, 21, 22, 23, 24, 40}
	if thorough {
		maxSize = 1400
		keyLens = nil
		for k := 1; k <= 60; k++ {
			keyLens = append(keyLens, k)
		}
	}
	var wg sync.WaitGroup
	sem := make(chan struct{}, 16)
	for _, kl := range keyLens {
		wg.Add(1)
		sem <- struct{}{}
		go func() {
			defer wg.Done()
			defer func() { <-sem }()
			mod, name := "m", ""
			switch {
			case kl == 1:
				mod = "" // key ":" is still a key
			case kl > 2:
				name = strings.Repeat("k", kl-2)
			}
			key := mod + ":" + name
			keyEnc := len(key) + 1
			if len(key) >= 24 {
				keyEnc++
			}
			for size := 1; size <= maxSize; size++ {
				pending := val(size+300, byte(size))
				reader, writer := serviceinfo.NewChunkOutPipe(1000)
				if err := writer.NextServiceInfo(mod, name); err != nil {
					r.Fatal("NextServiceInfo: %v", err)
				}
				go func() { _, _ = writer.Write(pending); _ = writer.Close() }()
				var got []byte
				refusals := 0
				for {
					c, err := reader.ReadChunk(uint16(size))
					r.Evaluations.Add(1)
					repl := map[string]any{"mode": "budget", "size": size, "key": key, "pending": len(pending)}
					if err == io.EOF {
						break
					}
					if err != nil {
						refusals++
						fits := size >= 1+keyEnc+1+1 // array head, key, bstr head, one byte
						if errors.Is(err, serviceinfo.ErrSizeTooSmall) && !fits {
							r.Distinct(fmt.Sprintf("budget|refused-infeasible|%d", kl))
							break
						}
						if errors.Is(err, serviceinfo.ErrSizeTooSmall) && refusals == 1 {
							continue // the first refusal only means "start a new message"
						}
						r.Violation("budget-refused", fmt.Sprintf("ReadChunk(%d) for key %q (%d bytes encoded) with %d value bytes pending: %v although a chunk fits", size, key, keyEnc, len(pending), err), repl)
						break
					}
					refusals = 0
					if enc, _ := cbor.Marshal(c); len(enc) > size {
						r.Violation("chunk-exceeds-budget", fmt.Sprintf("ReadChunk(%d) for key %q returned a chunk with %d value bytes that encodes to %d bytes", size, key, len(c.Val), len(enc)), repl)
						break
					}
					if c.Key != key {
						r.Violation("lost-or-altered", fmt.Sprintf("ReadChunk(%d): key %q, want %q", size, c.Key, key), repl)
						break
					}
					got = append(got, c.Val...)
					r.Distinct(fmt.Sprintf("budget|chunk|hdr%d", len(c.Val)/24*0+hdrClass(len(c.Val))))
				}
				if len(got) > 0 && !bytes.Equal(got, pending) {
					r.Violation("lost-or-altered", fmt.Sprintf("ReadChunk(%d) for key %q: %d bytes handed out, %d written, or content differs", size, key, len(got), len(pending)), map[string]any{"mode": "budget", "size": size, "key": key})
				}
				_ = reader.Close()
			}
		}()
	}
	wg.Wait()
}

func hdrClass(n int) int {
	switch {
	case n < 24:
		return 1
	case n < 256:
		return 2
	}
	return 3
}

// ---------------- (A) size sweep, free-running (pass-through shims) ----------------

func sweep(thorough bool) {
	var wg sync.WaitGroup
	sem := make(chan struct{}, 16)
	run := func(s script) {
		wg.Add(1)
		sem <- struct{}{}
		go func() {
			defer wg.Done()
			defer func() { <-sem }()
			done := make(chan result, 1)
			go func() {
				done <- pipeline(s, func(f func()) { go f() }, func(d *bool) { time.Sleep(50 * time.Microsecond) })
			}()
			select {
			case res := <-done:
				judge(s, res, "sweep", nil)
				r.Distinct(fmt.Sprintf("sweep|%d|%d|%v", s.mtu, res.msgs, res.roundErr == nil && res.writerErr == nil))
			case <-time.After(30 * time.Second):
				r.Evaluations.Add(1)
				r.Violation("hang", fmt.Sprintf("%s: pipeline did not finish within 30 s", s), map[string]any{"script": s.String()})
			}
		}()
	}
	mtus := []uint16{}
	for m := uint16(24); m <= 96; m++ {
		mtus = append(mtus, m)
	}
	mtus = append(mtus, 128, 255, 256, 257, 300, 320, 1300, 65535)
	keyLens := []int{1, 2, 5, 12, 23, 24, 25, 40}
	if !thorough {
		mtus = []uint16{24, 25, 26, 27, 28, 30, 32, 33, 40, 48, 64, 65, 96, 256, 300, 1300}
		keyLens = []int{1, 5, 23, 24, 40}
	}
	for _, mtu := range mtus {
		for _, kl := range keyLens {
			name := strings.Repeat("k", kl)
			keyEnc := 2 + kl + 1 // "m:" + name, plus the CBOR head
			if 2+kl >= 24 {
				keyEnc++
			}
			if int(mtu)-5 < 1+keyEnc+1+1 {
				continue // a key that can never fit this MTU together with one byte of value is a configuration error, not a chunking case
			}
			// first message sized so that the space left before the second key takes every remainder 0..40
			for rem := 0; rem <= 40; rem++ {
				first := int(mtu) - 5 - rem - (kl + 2 + 3) - 2
				if first < 1 {
					continue
				}
				for _, second := range []int{1, 30, int(mtu) + 50, 3 * int(mtu)} {
					if second > 30 && mtu > 2000 {
						continue
					}
					s := script{mtu: mtu, msgs: []msg{{"m", "a" + name, val(first, 1), 1, false}, {"m", "b" + name, val(second, 9), 1, false}}}
					run(s)
					if thorough || rem%5 == 0 {
						s.buffered = 1000
						run(s)
					}
				}
			}
			for _, vl := range []int{1, int(mtu) - 1, int(mtu), int(mtu) + 1, 3 * int(mtu)} {
				for _, splits := range []int{1, 3} {
					for _, y := range []bool{false, true} {
						if vl > 70000 {
							continue
						}
						run(script{mtu: mtu, msgs: []msg{{"m", name, val(vl, 3), splits, y}, {"m", name, val(2, 5), 1, false}, {"n", "z", val(1, 7), 1, y}}})
						if splits == 3 {
							run(script{mtu: mtu, buffered: 8, scratch: true, msgs: []msg{{"m", name, val(vl, 3), splits, y}, {"m", name, val(2, 5), 1, false}, {"n", "z", val(1, 7), 1, y}}})
						}
					}
				}
			}
		}
	}
	// every MTU in a contiguous range with one long value: every first-chunk and follow-up budget, including the
	// 24 and 256 byte bstr-header boundaries
	hi := uint16(420)
	if thorough {
		hi = 1400
	}
	for mtu := uint16(24); mtu <= hi; mtu++ {
		for _, name := range []string{"d", "data-with-a-long-name-xx"} {
			if int(mtu)-5 < 1+len(name)+2+2+1+1 {
				continue
			}
			run(script{mtu: mtu, msgs: []msg{{"m", name, val(2*int(mtu)+300, 3), 1, false}, {"n", "z", val(1, 7), 1, false}}})
		}
	}
	// entry-count sweep: n small service infos with distinct keys, then a value that spills over the rest of the
	// message: every number of entries a message can hold next to the array-header boundaries 23/24 and 255/256,
	// with the last chunk filling the message to the last byte (the spilling value takes whatever is left)
	counts := []int{}
	for n := 0; n <= 40; n++ {
		counts = append(counts, n)
	}
	for n := 250; n <= 260; n++ {
		counts = append(counts, n)
	}
	for _, mtu := range []uint16{300, 1300, 4096} {
		for _, n := range counts {
			for _, small := range []int{1, 3} {
				if n*(9+small) > int(mtu)-40 {
					continue
				}
				var ms []msg
				for i := 0; i < n; i++ {
					ms = append(ms, msg{"m", fmt.Sprintf("s%03d", i), val(small, byte(i)), 1, false})
				}
				ms = append(ms, msg{"m", "spill", val(2*int(mtu), 5), 1, false}, msg{"n", "z", val(1, 7), 1, false})
				run(script{mtu: mtu, msgs: ms})
				run(script{mtu: mtu, msgs: ms, buffered: 1000})
			}
		}
	}
	// exact head-length boundaries: a key, a value or a message entry count of exactly 23/24/25 and 255/256/257 octets
	// (where the CBOR head of the string grows by one octet), each followed by a value that fills the rest of the
	// message: the accounted size of the first entry decides how much the second may take
	for _, mtu := range []uint16{128, 300, 1300} {
		for _, klen := range []int{20, 21, 22, 23, 24} { // "m:" + name: total key length klen+2
			name := strings.Repeat("k", klen)
			for _, vlen := range []int{1, 22, 23, 24, 25, 26, 254, 255, 256, 257} {
				if vlen+klen+12 > int(mtu) {
					continue
				}
				run(script{mtu: mtu, msgs: []msg{{"m", name, val(vlen, 1), 1, false}, {"n", "z", val(2*int(mtu), 9), 1, false}}})
				run(script{mtu: mtu, buffered: 16, msgs: []msg{{"m", name, val(vlen, 1), 1, false}, {"n", "z", val(2*int(mtu), 9), 1, false}}})
			}
		}
	}
	// remainders around the 256 boundary before a second key
	for _, mtu := range []uint16{700, 1300} {
		for _, kl := range []int{1, 24} {
			name := strings.Repeat("k", kl)
			for rem := 250; rem <= 275+kl; rem++ {
				first := int(mtu) - 5 - rem - (kl + 2 + 3) - 3
				run(script{mtu: mtu, msgs: []msg{{"m", "a" + name, val(first, 1), 1, false}, {"m", "b" + name, val(600, 9), 1, false}}})
			}
		}
	}
	wg.Wait()
}

// ---------------- (B) schedule exploration under vsync ----------------

func schedScripts(thorough bool) []script {
	scripts := []script{
		{mtu: 32, msgs: []msg{{"m", "a", val(3, 1), 1, false}, {"m", "b", val(2, 2), 1, false}}},
		{mtu: 32, msgs: []msg{{"m", "a", val(40, 1), 2, false}, {"n", "b", val(1, 2), 1, true}, {"n", "c", val(1, 3), 1, false}}},
		{mtu: 40, buffered: 2, msgs: []msg{{"m", "a", val(30, 1), 1, true}, {"m", "a", val(30, 2), 1, false}}},
	}
	scripts = append(scripts,
		script{mtu: 32, closeEarly: true, stubborn: true, bound: 1, msgs: []msg{{"m", "a", val(3, 1), 1, false}, {"m", "b", val(2, 2), 1, false}}},
		script{mtu: 32, closeEarly: true, stubborn: true, msgs: []msg{{"m", "a", val(3, 1), 1, true}}},
		script{mtu: 32, buffered: 2, closeEarly: true, stubborn: true, bound: 1, msgs: []msg{{"m", "a", val(3, 1), 1, true}, {"m", "b", val(2, 2), 1, true}, {"m", "c", val(2, 3), 1, false}}})
	// a producer that reuses its buffer: single writes of a kilobyte and more through buffered pipes (every order of
	// "consumer takes the key" and "producer writes the value" is among the schedules)
	scripts = append(scripts,
		script{mtu: 1300, buffered: 4, scratch: true, bound: 1, msgs: []msg{{"m", "a", val(1500, 1), 1, true}, {"m", "b", val(1200, 2), 1, false}}},
		script{mtu: 1300, buffered: 4, scratch: true, bound: 1, msgs: []msg{{"m", "a", val(2600, 1), 2, false}, {"m", "a", val(100, 2), 1, false}}})
	if thorough {
		scripts = append(scripts, script{mtu: 28, buffered: 1, msgs: []msg{{"m", "k", val(20, 1), 3, false}, {"m", "l", val(20, 2), 1, false}, {"m", "l", val(1, 3), 1, true}}})
	}
	// the exact head-length boundary scripts of the sweep once more under the scheduler with NO preemption (bound 0:
	// run-until-block order, free choices still explored): the free-running sweep decides chunk boundaries by timing,
	// which a loaded machine changes; here the first entry and the start of the second always share a message
	for _, mtu := range []uint16{128, 300, 1300} {
		for _, klen := range []int{20, 21, 22, 23, 24} {
			name := strings.Repeat("k", klen)
			for _, vlen := range []int{1, 22, 23, 24, 25, 26, 254, 255, 256, 257} {
				if vlen+klen+12 > int(mtu) {
					continue
				}
				for _, buffered := range []int{0, 16} {
					scripts = append(scripts, script{mtu: mtu, buffered: buffered, bound: -1, msgs: []msg{{"m", name, val(vlen, 1), 1, false}, {"n", "z", val(2*int(mtu), 9), 1, false}}})
				}
			}
		}
	}
	return scripts
}

// schedulesShard explores this process's share of the schedules of every script (child process).
func schedulesShard(shard, n int, thorough bool) *schedshard.Report {
	rep := &schedshard.Report{}
	for si, s := range schedScripts(thorough) {
		bound := 2
		if thorough {
			bound = 3
		}
		if s.bound > 0 {
			bound = s.bound
			if thorough {
				bound++
			}
		}
		if s.bound < 0 {
			bound = 0
		}
		sc := schedshard.Scenario{Name: s.String(), Bound: bound, Outcomes: map[string]int{}}
		var commit func() // committed by visit: once per execution over all shards
		v0, t0 := len(rep.Violations), time.Now()
		budget := 6 * time.Minute
		if thorough {
			budget = 40 * time.Minute
		}
		explore.Stop = func() bool { return len(rep.Violations)-v0 >= 3 || time.Since(t0) > budget }
		st := explore.ExploreShard(bound, shard, n, func(c *explore.Ctx) {
			var res result
			vres := vsync.Run(c.Choose, 20000, func() {
				res = pipeline(s, vsync.Go, func(d *bool) { vsync.Pause() })
			})
			commit = func() {
				sc.Steps += int64(vres.Steps)
				extra := map[string]any{"choices": append([]int{}, c.Choices...), "preemptions": vres.Preempts, "script_index": si, "script": s.String(), "mode": "schedule"}
				rep.Evals++
				viol := func(key, what string) {
					rep.Violations = append(rep.Violations, schedshard.Violation{Key: key, What: what, Replay: extra})
				}
				switch {
				case vres.Deadlock:
					viol("deadlock", fmt.Sprintf("%s: deadlock: %v", s, vres.Blocked))
				case vres.Livelock:
					viol("livelock", fmt.Sprintf("%s: no termination within the step horizon", s))
				case len(vres.Panics) > 0:
					viol("panic:"+firstLine(vres.Panics[0]), fmt.Sprintf("%s: %s", s, vres.Panics[0]))
				default:
					judgeTo(s, res, "schedule", viol)
				}
				sc.Outcomes[describe(res.got)+fmt.Sprint(" deadlock=", vres.Deadlock, " panics=", len(vres.Panics), " werr=", res.writerErr != nil, " rerr=", res.roundErr != nil)]++
			}
		}, func(*explore.Ctx) { commit() })
		sc.Executions, sc.MaxDepth = st.Executions, st.MaxDepth
		if st.Stopped && len(rep.Violations)-v0 < 3 {
			rep.Capped = append(rep.Capped, fmt.Sprintf("scenario %q: shard %d stopped at its wall-clock budget after %d executions", sc.Name, shard, st.Executions))
		}
		rep.Diverged = append(rep.Diverged, st.Diverged...)
		rep.Scenarios = append(rep.Scenarios, sc)
	}
	return rep
}

// schedules fans the exploration out over 16 processes and merges what they report.
func schedules(thorough bool) {
	tier := "quick"
	if thorough {
		tier = "thorough"
	}
	rep, err := schedshard.Fanout(16, tier, 3*time.Hour)
	if err != nil {
		r.Fatal("schedule exploration incomplete: %v", err)
	}
	if len(rep.Diverged) > 0 {
		r.Fatal("schedule replay diverged: %s", rep.Diverged[0])
	}
	r.Evaluations.Add(rep.Evals)
	for _, v := range rep.Violations {
		r.Violation(v.Key, v.What, v.Replay)
	}
	for _, c := range rep.Capped {
		r.Capped(c)
	}
	for _, sc := range rep.Scenarios {
		r.States.Add(int64(sc.Executions))
		r.Transitions.Add(sc.Steps)
		r.Sample(8, map[string]any{"script": sc.Name, "preemption_bound": sc.Bound, "executions": sc.Executions, "max_choice_points": sc.MaxDepth, "distinct_outcomes": len(sc.Outcomes)})
		r.Add("schedule_executions", int64(sc.Executions))
		r.Distinct("sched|" + sc.Name)
		for o := range sc.Outcomes {
			r.Distinct("sched-outcome|" + sc.Name + "|" + o)
		}
	}
}

var runMu sync.Mutex

func firstLine(s string) string {
	if i := strings.Index(s, "\n"); i > 0 {
		s = s[:i]
	}
	if i := strings.Index(s, "): "); i > 0 {
		s = s[i+3:]
	}
	if len(s) > 60 {
		s = s[:60]
	}
	return s
}

func main() {
	if shard, n, tier, ok := schedshard.Child(); ok {
		schedulesShard(shard, n, tier == "thorough").Emit()
	}
	r = ev.Start("C15", "model_checking")
	bound := 2
	if !r.Quick() {
		bound = 3
	}
	r.Rule(fmt.Sprintf("(A0) the real ChunkReader.ReadChunk called with EVERY budget 1..700 (thorough 1..1400) for 8 (thorough 60) key lengths with more value bytes pending than fit: each returned chunk encodes within its budget, bytes handed out equal bytes written, a refusal only when key plus one value byte cannot fit. (A) size sweep on the real pipeline UnchunkWriter -> ChunkReader -> exchangeServiceInfoRound (re-exported, recording transport) -> ChunkWriter -> UnchunkReader: MTUs from 24 through 96 (quick: 16 values) and {128,255,256,257,300,320,1300,65535}, key lengths {1,2,5,12,23,24,25,40}, first-message sizes chosen so that the space left in the batch before the next key takes EVERY remainder 0..40, value lengths {1, mtu-1, mtu, mtu+1, 3*mtu}, values written in 1 or 3 writes, with and without yield, buffered and unbuffered pipes; every MTU 24..420 (thorough ..1400) with one value longer than two messages; remainders 250..300 before a second key at MTU 700 and 1300. (B) the same pipeline built from the current serviceinfo/chunk.go and to2.go rewritten onto the cooperative-scheduler shims: ALL interleavings of the producer thread and the batch loop with at most %d preemptions for %d small scripts (two of them with the consumer closing the writer while the producer is still writing) (every channel operation, select, mutex operation, pipe operation and goroutine start is a scheduling point; select picks are free choices); plus the sweep's exact head-length boundary scripts (first entry of exactly 23..26 / 254..257 octets, second value two messages long) under the scheduler without preemption, so that chunk boundaries do not depend on timing. Oracle: reassembled (key, bytes) sequence equals the written one (consecutive equal keys merged), no error seen by writer or batch loop, every DeviceServiceInfo message <= MTU and the chunks packed into it encode to no more than the budget the batch loop was given (MTU - 5), no deadlock, livelock or panic on any schedule. states = executions (schedules), transitions = scheduling steps. (A2) owner side: every sequence of up to 4 (thorough 5) service infos over two keys of one module x 4 value-size profiles x MTU {1300, 256} is sent by the real device pipeline and handed message by message to the REAL owner responder (TO2Server.Respond(68) with a recording owner module): it answers every message and the module receives exactly what was written, also when a key comes back after another key inside one message.", bound, 5))
	if r.Replay != "" {
		replay(r.Replay)
		return
	}
	t0 := time.Now()
	budgets(!r.Quick())
	r.Set("seconds_budgets", int64(time.Since(t0).Seconds()))
	t0 = time.Now()
	sweep(!r.Quick())
	r.Set("seconds_sweep", int64(time.Since(t0).Seconds()))
	ownerSide(!r.Quick())
	t0 = time.Now()
	schedules(!r.Quick())
	r.Set("seconds_schedules", int64(time.Since(t0).Seconds()))
	r.Traces.Add(r.States.Load())
	r.Assume("the rewriter maps each Go synchronisation operation to one shim operation with the same blocking behaviour; the repository's own serviceinfo and TO2 tests pass against the rewritten packages in pass-through mode (checked in setup)")
	r.Assume("data races on plain memory are not modelled by the cooperative scheduler (sequentially consistent interleavings only); a free-running -race pass is an auxiliary of C19")
	r.Finish()
}

// replay re-runs one recorded schedule without the explorer and prints the trace of scheduling steps.
func replay(path string) {
	b, err := os.ReadFile(path)
	if err != nil {
		r.Fatal("%v", err)
	}
	var f struct {
		Key    string `json:"key"`
		Replay struct {
			Choices []int  `json:"choices"`
			Index   int    `json:"script_index"`
			Script  string `json:"script"`
		} `json:"replay"`
	}
	if err := json.Unmarshal(b, &f); err != nil {
		r.Fatal("%v", err)
	}
	if f.Replay.Choices == nil {
		fmt.Println("this replay file describes a size-sweep case (free-running); script:", f.Replay.Script)
		os.Exit(0)
	}
	s := schedScripts(true)[f.Replay.Index]
	vsync.TraceOn = true
	var res result
	c := explore.Replay(f.Replay.Choices, func(c *explore.Ctx) {
		vres := vsync.Run(c.Choose, 20000, func() { res = pipeline(s, vsync.Go, func(d *bool) { vsync.Pause() }) })
		tr := vres.Trace
		if len(tr) > 80 {
			fmt.Printf("... %d earlier steps\n", len(tr)-80)
			tr = tr[len(tr)-80:]
		}
		for _, l := range tr {
			fmt.Println("  ", l)
		}
		fmt.Printf("script: %s\ndeadlock=%v livelock=%v panics=%v blocked=%v\n", s, vres.Deadlock, vres.Livelock, vres.Panics, vres.Blocked)
	})
	_ = c
	fmt.Printf("got: %s\nwant: %s\nwriterErr=%v roundErr=%v\n", describe(res.got), describe(reference(s)), res.writerErr, res.roundErr)
	os.Exit(0)
}
