package main

// Owner-side reassembly: what the device's pipeline put on the wire is handed, message by message, to the REAL owner
// responder (TO2Server.Respond(68) -> ownerServiceInfo -> ChunkWriter/UnchunkReader -> OwnerModule.HandleInfo), not
// to a pipe the harness builds itself. Scripts: every sequence of up to 4 (thorough 5) service infos over the keys
// {m:a, m:b} - so that a key comes back after another key inside one protocol message - with value-size profiles
// that put several infos into one message, chunk one of them over two messages, or both. What the owner module
// receives (consecutive deliveries of one key merged) must be what the device module wrote.

import (
	"bytes"
	"context"
	"fmt"
	"io"
	"time"

	fdo "github.com/fido-device-onboard/go-fdo"
	"github.com/fido-device-onboard/go-fdo/protocol"
	"github.com/fido-device-onboard/go-fdo/serviceinfo"
)

type osSession struct {
	fdo.TO2SessionState
}

func (osSession) Devmod(context.Context) (serviceinfo.Devmod, []string, bool, error) {
	return serviceinfo.Devmod{Os: "linux", Arch: "amd64", Version: "1", Device: "verif", FileSep: ";", Bin: "amd64"}, []string{"m"}, true, nil
}
func (osSession) MTU(context.Context) (uint16, error)         { return 1300, nil }
func (osSession) GUID(context.Context) (protocol.GUID, error) { return protocol.GUID{1}, nil }

type osVouchers struct {
	fdo.OwnerVoucherPersistentState
}

func (osVouchers) Voucher(context.Context, protocol.GUID) (*fdo.Voucher, error) {
	return &fdo.Voucher{}, nil
}

type osRecorder struct{ got []kv }

func (m *osRecorder) HandleInfo(_ context.Context, messageName string, messageBody io.Reader) error {
	b, err := io.ReadAll(messageBody)
	if err != nil {
		return err
	}
	k := "m:" + messageName
	if n := len(m.got); n > 0 && m.got[n-1].key == k {
		m.got[n-1].val = append(m.got[n-1].val, b...)
	} else {
		m.got = append(m.got, kv{k, b})
	}
	return nil
}
func (m *osRecorder) ProduceInfo(context.Context, *serviceinfo.Producer) (bool, bool, error) {
	return false, false, nil
}

type osModules struct{ mod *osRecorder }

func (o osModules) Module(context.Context) (string, serviceinfo.OwnerModule, error) {
	return "m", o.mod, nil
}
func (osModules) NextModule(context.Context) (bool, error) { return false, nil }
func (osModules) CleanupModules(context.Context)           {}

// ownerReassemble feeds raw DeviceServiceInfo messages to the real responder.
func ownerReassemble(raw [][]byte) (got []kv, err error, hung bool) {
	rec := &osRecorder{}
	srv := &fdo.TO2Server{Session: osSession{}, Modules: osModules{rec}, Vouchers: osVouchers{}}
	type ans struct {
		typ  uint8
		resp any
	}
	for i, m := range raw {
		done := make(chan ans, 1)
		go func() {
			t, resp := srv.Respond(context.Background(), 68, bytes.NewReader(m))
			done <- ans{t, resp}
		}()
		select {
		case a := <-done:
			if a.typ != 69 {
				return rec.got, fmt.Errorf("message %d answered with type %d: %v", i, a.typ, a.resp), false
			}
		case <-time.After(30 * time.Second):
			return nil, nil, true
		}
	}
	return rec.got, nil, false
}

func ownerSide(thorough bool) {
	maxLen := 4
	if thorough {
		maxLen = 5
	}
	type profile struct {
		name string
		size func(i int) int
	}
	profiles := []profile{
		{"all 3 octets", func(int) int { return 3 }},
		{"all 500 octets", func(int) int { return 500 }},
		{"second 1500 octets, others 3", func(i int) int {
			if i == 1 {
				return 1500
			}
			return 3
		}},
		{"first 1290 octets, others 10", func(i int) int {
			if i == 0 {
				return 1290
			}
			return 10
		}},
	}
	hangs := 0
	for n := 1; n <= maxLen; n++ {
		for code := 0; code < 1<<n; code++ {
			for _, pf := range profiles {
				for _, mtu := range []uint16{1300, 256} {
					if hangs >= 2 {
						r.Capped("owner-side layer stopped after two hangs of the owner responder (each is reported)")
						return
					}
					s := script{mtu: mtu}
					for i := 0; i < n; i++ {
						name := "a"
						if code>>i&1 == 1 {
							name = "b"
						}
						s.msgs = append(s.msgs, msg{mod: "m", name: name, val: val(pf.size(i), byte(i+1))})
					}
					done := make(chan result, 1)
					go func() {
						done <- pipeline(s, func(f func()) { go f() }, func(d *bool) { time.Sleep(50 * time.Microsecond) })
					}()
					var res result
					select {
					case res = <-done:
					case <-time.After(60 * time.Second):
						r.Violation("hang", fmt.Sprintf("%s: pipeline did not finish within 60 s", s), map[string]any{"script": s.String(), "mode": "owner-side"})
						continue
					}
					r.Evaluations.Add(1)
					repl := map[string]any{"script": s.String(), "mode": "owner-side", "profile": pf.name}
					if res.roundErr != nil || res.writerErr != nil {
						continue // the device side is judged by the sweep
					}
					got, err, hung := ownerReassemble(res.raw)
					want := reference(s)
					switch {
					case hung:
						hangs++
						r.Violation("owner-hangs", fmt.Sprintf("%s [owner-side, %s]: TO2Server.Respond(68) did not return within 30 s for one of the %d messages the device sent", s, pf.name, len(res.raw)), repl)
					case err != nil:
						r.Violation("owner-rejects", fmt.Sprintf("%s [owner-side, %s]: %v", s, pf.name, err), repl)
					case !same(got, want):
						r.Violation("owner-lost-or-altered", fmt.Sprintf("%s [owner-side, %s]: the owner module received %s, the device module wrote %s", s, pf.name, describe(got), describe(want)), repl)
					}
					r.Distinct(fmt.Sprintf("owner-side|%d|%d|%s|%d|%d", n, code, pf.name, mtu, len(res.raw)))
				}
			}
		}
	}
}
