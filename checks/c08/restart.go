package main

// Layer "restart": an authenticated device abandons a TO2 run part-way (power loss: nothing more is sent, the
// session stays open on the server) and starts over with the SAME HTTP transport, so that its new HelloDevice carries
// the token of the abandoned, still live session. The second run then leaves out steps the first run had performed:
// whatever the first run stored must not count for the second. Runs over the journaling memory store and over the real
// SQLite store (whose token service decides what a first message carrying a live token means).

import (
	"bytes"
	"context"
	"crypto/x509"
	"encoding/base64"
	"fmt"
	"io"
	"os"
	"path/filepath"
	"strings"

	fdo "github.com/fido-device-onboard/go-fdo"
	"github.com/fido-device-onboard/go-fdo/kex"
	"github.com/fido-device-onboard/go-fdo/protocol"
	"github.com/fido-device-onboard/go-fdo/serviceinfo"
	"github.com/fido-device-onboard/go-fdo/sqlite"

	"verif/internal/keys"
	"verif/internal/lab"
	"verif/internal/probe"
)

// powerLoss aborts the client before message `before` (for 68: before the n-th 68) without telling the server; the
// error message the client then tries to send is swallowed too.
type powerLoss struct {
	inner  fdo.Transport
	before uint8
	nth    int
	seen   int
	dead   bool
	log    []string
}

func (p *powerLoss) Send(ctx context.Context, msgType uint8, msg any, sess kex.Session) (uint8, io.ReadCloser, error) {
	if p.dead {
		return 0, nil, fmt.Errorf("verif: power lost")
	}
	if msgType == p.before {
		p.seen++
		if p.seen >= p.nth {
			p.dead = true
			p.log = append(p.log, fmt.Sprintf("%d:power-lost", msgType))
			return 0, nil, fmt.Errorf("verif: power lost")
		}
	}
	typ, rc, err := p.inner.Send(ctx, msgType, msg, sess)
	p.log = append(p.log, fmt.Sprintf("%d->%d", msgType, typ))
	return typ, rc, err
}

type noMods struct{}

func (noMods) Module(context.Context) (string, serviceinfo.OwnerModule, error) {
	return "", nil, fmt.Errorf("no module")
}
func (noMods) NextModule(context.Context) (bool, error) { return false, nil }
func (noMods) CleanupModules(context.Context)           {}

func restartClients(k keys.Kind) {
	ctx := context.Background()
	base := "/dev/shm"
	if _, err := os.Stat(base); err != nil {
		base = "/var/tmp"
	}
	dir, err := os.MkdirTemp(base, "verif-c08-")
	if err != nil {
		r.Fatal("%v", err)
	}
	defer os.RemoveAll(dir)
	n := 0
	type stop struct {
		before uint8
		nth    int
	}
	for _, store := range []string{"memory", "sqlite"} {
		for _, st := range []stop{{66, 1}, {68, 1}, {68, 2}, {70, 1}} {
			for _, mode := range []string{"skip-66", "skip-service-info", "skip-66-and-service-info", "honest"} {
				n++
				// one server for every role over the chosen store
				var srv *lab.Server
				var voucherGone func(protocol.GUID) bool
				var vouchers func() int
				switch store {
				case "memory":
					srv = lab.NewMemServer("all", "owner1")
					voucherGone = func(g protocol.GUID) bool { _, ok := srv.Mem.VoucherBytes(g); return !ok }
					vouchers = func() int { return len(srv.Mem.AllVouchers()) }
				case "sqlite":
					db, err := sqlite.Open(filepath.Join(dir, fmt.Sprintf("c08-%d.sqlite", n)), "")
					if err != nil {
						r.Fatal("sqlite: %v", err)
					}
					defer db.Close()
					for _, kk := range keys.Kinds {
						key := keys.Get(kk.Alg, "owner1")
						chain := []*x509.Certificate{keys.SelfSigned(kk.Alg+"-owner1", key)}
						_ = db.AddOwnerKey(kk.Type, key, chain)
						_ = db.AddManufacturerKey(kk.Type, key, chain)
					}
					srv = lab.NewServer("sql", "owner1", db, noMods{})
					voucherGone = func(g protocol.GUID) bool { _, err := db.Voucher(ctx, g); return err != nil }
					vouchers = func() int {
						var c int
						_ = db.DB().QueryRow("SELECT COUNT(*) FROM vouchers").Scan(&c)
						return c
					}
				}
				dev := lab.NewDevice(k, protocol.X509KeyEnc, "device")
				wire := lab.NewWire(srv)
				if err := dev.DI(ctx, wire.Transport()); err != nil {
					r.Fatal("restart layer: DI over %s: %v", store, err)
				}
				ov, err := srv.State.RemoveVoucher(ctx, dev.Cred.GUID)
				if err != nil {
					r.Fatal("restart layer: voucher after DI: %v", err)
				}
				xv, err := lab.Extend(ov, keys.Get(k.Alg, "owner1"), keys.Get(k.Alg, "owner1"), k)
				if err != nil {
					r.Fatal("restart layer: extend: %v", err)
				}
				if err := srv.State.AddVoucher(ctx, xv); err != nil {
					r.Fatal("restart layer: add voucher: %v", err)
				}
				guid := dev.Cred.GUID
				ht := wire.Transport() // ONE transport, one token jar, for both runs
				cfg := dev.TO2Config(lab.DefaultSuite(k), kex.A128GcmCipher)
				// run 1: abandoned
				pl := &powerLoss{inner: ht, before: st.before, nth: st.nth}
				var err1 error
				if p := probe.Call(func() { _, err1 = fdo.TO2(ctx, pl, nil, cfg) }); p != nil {
					r.Violation(p.Key(), fmt.Sprintf("restart layer: run 1 panics: %s in %s", p.Value, p.Frame), nil)
					continue
				}
				if !pl.dead {
					continue // this run has no such message (e.g. no second 68): nothing to restart from
				}
				// run 2: same transport (HelloDevice presents the live token), leaving steps out
				d := &deviant{inner: ht, mode: mode}
				var err2 error
				var cred2 *fdo.DeviceCredential
				if p := probe.Call(func() { cred2, err2 = fdo.TO2(ctx, d, nil, cfg) }); p != nil {
					r.Violation(p.Key(), fmt.Sprintf("restart layer: run 2 panics: %s in %s", p.Value, p.Frame), nil)
					continue
				}
				r.Evaluations.Add(1)
				r.States.Add(1)
				r.Transitions.Add(int64(len(pl.log) + len(d.log)))
				what := fmt.Sprintf("%s over the %s store: run 1 %v (abandoned: %v), run 2 in mode %s with the same transport %v, result %v", k.Name, store, pl.log, err1, mode, d.log, err2)
				repl := map[string]any{"layer": "restart", "store": store, "abandoned_before": st.before, "nth": st.nth, "mode": mode}
				replaced := voucherGone(guid) || vouchers() != 1
				switch mode {
				case "honest":
					if err2 != nil || cred2 == nil || !replaced {
						r.Violation("restart:honest-second-run-fails", what+fmt.Sprintf(" (credential=%v, voucher replaced=%v): a device that starts over honestly must be onboarded", cred2 != nil, replaced), repl)
					}
				default:
					if replaced {
						r.Violation("effect-without-prerequisite:ReplaceVoucher:restart", what+": the voucher was replaced although the second run skipped the service info phase (steps of the abandoned run were counted for it)", repl)
					}
					if err2 == nil {
						r.Violation("restart:skipping-run-succeeds", what+": the run that skipped steps completed without error", repl)
					}
				}
				r.Distinct(fmt.Sprintf("restart|%s|%d.%d|%s|err=%v|replaced=%v", store, st.before, st.nth, mode, err2 != nil, replaced))
				r.Sample(12, map[string]any{"layer": "restart", "store": store, "run1": pl.log, "run2": d.log, "mode": mode, "voucher_replaced": replaced})
			}
		}
	}
}

// sqliteTokens: forged session tokens against the real SQLite token service. An honest client runs DI (and TO0) up to
// its last message; in flight the token of that message is replaced by a damaged form that still NAMES the live
// session (its first 16 octets) but does not carry its MAC. The request must be refused and cause no effect.
func sqliteTokens(k keys.Kind) {
	ctx := context.Background()
	base := "/dev/shm"
	if _, err := os.Stat(base); err != nil {
		base = "/var/tmp"
	}
	dir, err := os.MkdirTemp(base, "verif-c08t-")
	if err != nil {
		r.Fatal("%v", err)
	}
	defer os.RemoveAll(dir)
	type damage struct {
		name string
		f    func(raw, other []byte) []byte
	}
	damages := []damage{
		{"honest (control)", func(raw, _ []byte) []byte { return raw }},
		{"mac-last-bit-flipped", func(raw, _ []byte) []byte { o := bytes.Clone(raw); o[len(o)-1] ^= 1; return o }},
		{"mac-first-bit-flipped", func(raw, _ []byte) []byte { o := bytes.Clone(raw); o[16] ^= 0x80; return o }},
		{"mac-zeroed", func(raw, _ []byte) []byte { return append(bytes.Clone(raw[:16]), make([]byte, len(raw)-16)...) }},
		{"mac-of-another-session", func(raw, other []byte) []byte { return append(bytes.Clone(raw[:16]), other[16:]...) }},
		{"mac-truncated-by-one", func(raw, _ []byte) []byte { return bytes.Clone(raw[:len(raw)-1]) }},
		{"mac-extended-by-one", func(raw, _ []byte) []byte { return append(bytes.Clone(raw), 0) }},
		{"id-only", func(raw, _ []byte) []byte { return bytes.Clone(raw[:16]) }},
	}
	for di, dm := range damages {
		for _, proto := range []string{"DI", "TO0"} {
			db, err := sqlite.Open(filepath.Join(dir, fmt.Sprintf("tok-%d-%s.sqlite", di, proto)), "")
			if err != nil {
				r.Fatal("sqlite: %v", err)
			}
			for _, kk := range keys.Kinds {
				key := keys.Get(kk.Alg, "owner1")
				chain := []*x509.Certificate{keys.SelfSigned(kk.Alg+"-owner1", key)}
				_ = db.AddOwnerKey(kk.Type, key, chain)
				_ = db.AddManufacturerKey(kk.Type, key, chain)
			}
			srv := lab.NewServer("sql", "owner1", db, noMods{})
			// another live session of the same protocol (its MAC is valid - for ITS id)
			otherTok, _ := db.NewToken(ctx, map[string]protocol.Protocol{"DI": protocol.DIProtocol, "TO0": protocol.TO0Protocol}[proto])
			otherRaw, _ := base64.RawURLEncoding.DecodeString(otherTok)
			wire := lab.NewWire(srv)
			last := map[string]int{"DI": 12, "TO0": 22}[proto]
			applied := false
			wire.Pre = func(x *lab.Exchange) {
				if x.MsgType != last {
					return
				}
				tok := strings.TrimPrefix(x.ReqHeader.Get("Authorization"), "Bearer ")
				raw, err := base64.RawURLEncoding.DecodeString(tok)
				if err != nil || len(raw) <= 16 || len(otherRaw) != len(raw) {
					return
				}
				x.ReqHeader.Set("Authorization", "Bearer "+base64.RawURLEncoding.EncodeToString(dm.f(raw, otherRaw)))
				applied = true
			}
			dev := lab.NewDevice(k, protocol.X509KeyEnc, "device")
			var runErr error
			effect := false
			switch proto {
			case "DI":
				runErr = dev.DI(ctx, wire.Transport())
				var c int
				_ = db.DB().QueryRow("SELECT COUNT(*) FROM vouchers").Scan(&c)
				effect = c > 0
			case "TO0":
				// a voucher to register: DI through a clean wire, extend to the owner key
				if err := dev.DI(ctx, lab.NewWire(srv).Transport()); err != nil {
					r.Fatal("token layer: DI: %v", err)
				}
				ov, err := db.RemoveVoucher(ctx, dev.Cred.GUID)
				if err != nil {
					r.Fatal("token layer: %v", err)
				}
				xv, err := lab.Extend(ov, keys.Get(k.Alg, "owner1"), keys.Get(k.Alg, "owner1"), k)
				if err != nil {
					r.Fatal("token layer: %v", err)
				}
				if err := db.AddVoucher(ctx, xv); err != nil {
					r.Fatal("token layer: %v", err)
				}
				c0 := &fdo.TO0Client{Vouchers: db, OwnerKeys: db, TTL: 3600}
				_, runErr = c0.RegisterBlob(ctx, wire.Transport(), dev.Cred.GUID, lab.DefaultAddrs())
				_, _, berr := db.RVBlob(ctx, dev.Cred.GUID)
				effect = berr == nil
			}
			_ = db.Close()
			if !applied {
				r.Violation("harness:token-layer", fmt.Sprintf("%s/%s: the token of message %d could not be rewritten", proto, dm.name, last), nil)
				continue
			}
			r.Evaluations.Add(1)
			r.States.Add(1)
			what := fmt.Sprintf("%s over the SQLite store, message %d sent with its session token in the form %q: client result %v, effect=%v", proto, last, dm.name, runErr, effect)
			repl := map[string]any{"layer": "sqlite-tokens", "proto": proto, "damage": dm.name}
			if di == 0 {
				if runErr != nil || !effect {
					r.Violation("honest-history-fails:"+proto+":sqlite", what, repl)
				}
			} else {
				if effect {
					r.Violation("effect-with-forged-token:"+dm.name, what+": the effect happened under a token the store never issued", repl)
				}
				if runErr == nil {
					r.Violation("accepted-with-forged-token:"+dm.name, what+": the request was accepted", repl)
				}
			}
			r.Distinct(fmt.Sprintf("sqlite-tokens|%s|%s|err=%v|effect=%v", proto, dm.name, runErr != nil, effect))
		}
	}
}

// hangUps: the client goes away (its request context is cancelled) while the server is still processing the FINAL
// message of DI or TO0, after the effect was stored. However the request ends, the session must be over: no session
// row left, and the final message sent again with the same token is refused and stores nothing more.
func hangUps(k keys.Kind) {
	base := "/dev/shm"
	if _, err := os.Stat(base); err != nil {
		base = "/var/tmp"
	}
	dir, err := os.MkdirTemp(base, "verif-c08h-")
	if err != nil {
		r.Fatal("%v", err)
	}
	defer os.RemoveAll(dir)
	for _, proto := range []string{"DI", "TO0"} {
		bg := context.Background()
		db, err := sqlite.Open(filepath.Join(dir, "hang-"+proto+".sqlite"), "")
		if err != nil {
			r.Fatal("sqlite: %v", err)
		}
		for _, kk := range keys.Kinds {
			key := keys.Get(kk.Alg, "owner1")
			chain := []*x509.Certificate{keys.SelfSigned(kk.Alg+"-owner1", key)}
			_ = db.AddOwnerKey(kk.Type, key, chain)
			_ = db.AddManufacturerKey(kk.Type, key, chain)
		}
		srv := lab.NewServer("sql", "owner1", db, noMods{})
		ctx, cancel := context.WithCancel(bg)
		wire := lab.NewWire(srv)
		last := map[string]int{"DI": 12, "TO0": 22}[proto]
		var lastBody []byte
		var lastTok string
		wire.Pre = func(x *lab.Exchange) {
			if x.MsgType == last {
				lastBody, lastTok = bytes.Clone(x.ReqBody), x.ReqHeader.Get("Authorization")
			}
		}
		dev := lab.NewDevice(k, protocol.X509KeyEnc, "device")
		count := func(table string) int {
			var c int
			_ = db.DB().QueryRow("SELECT COUNT(*) FROM " + table).Scan(&c)
			return c
		}
		effectTable := "vouchers"
		switch proto {
		case "DI":
			srv.DI.AfterVoucherPersist = func(context.Context, fdo.Voucher) error { cancel(); return nil }
			_ = dev.DI(ctx, wire.Transport())
		case "TO0":
			if err := dev.DI(bg, lab.NewWire(srv).Transport()); err != nil {
				r.Fatal("hang-up layer: DI: %v", err)
			}
			ov, err := db.RemoveVoucher(bg, dev.Cred.GUID)
			if err != nil {
				r.Fatal("hang-up layer: %v", err)
			}
			xv, err := lab.Extend(ov, keys.Get(k.Alg, "owner1"), keys.Get(k.Alg, "owner1"), k)
			if err != nil {
				r.Fatal("hang-up layer: %v", err)
			}
			if err := db.AddVoucher(bg, xv); err != nil {
				r.Fatal("hang-up layer: %v", err)
			}
			srv.TO0.AcceptVoucher = func(_ context.Context, _ fdo.Voucher, ttl uint32) (uint32, error) { cancel(); return ttl, nil }
			c0 := &fdo.TO0Client{Vouchers: db, OwnerKeys: db, TTL: 3600}
			_, _ = c0.RegisterBlob(ctx, wire.Transport(), dev.Cred.GUID, lab.DefaultAddrs())
			effectTable = "rv_blobs"
		}
		cancel()
		r.Evaluations.Add(1)
		r.States.Add(1)
		repl := map[string]any{"layer": "hang-up", "proto": proto}
		effects := count(effectTable)
		if lastTok == "" || lastBody == nil {
			r.Violation("harness:hang-up-layer", proto+": the final message was not seen", repl)
			_ = db.Close()
			continue
		}
		if n := count("sessions"); n != 0 {
			r.Violation("session-state-survives:client-hang-up", fmt.Sprintf("%s over the SQLite store: the client hung up while its final message %d was being processed (effect stored: %d row(s)); %d session row(s) remain", proto, last, effects, n), repl)
		}
		x := lab.NewWire(srv).Send(last, lastTok, lastBody)
		if x.RespType != 255 {
			r.Violation("dead-token-accepted:client-hang-up", fmt.Sprintf("%s over the SQLite store: final message %d sent again with the token of the finished run was answered with %d", proto, last, x.RespType), repl)
		}
		r.Distinct(fmt.Sprintf("hang-up|%s|sessions=%d|again=%d", proto, count("sessions"), x.RespType))
		_ = db.Close()
	}
}
