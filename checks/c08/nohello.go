package main

// Layer "without hello": the second message of TO0 (OwnerSign, 22) and of TO1 (ProveToRV, 32) is sent, correctly
// signed by the genuine owner / device, under every kind of token that has NO nonce issued by a Hello of that
// protocol: none, a token freshly issued for that protocol, live tokens of the other protocols, the token of a
// finished session and of an errored session. The signed nonce is the all-zero nonce, the nonce of an earlier
// (finished) session, or all 0xff. The servers' only binding of the second message to a first one is the nonce
// their Hello stored in the session, so none of these requests may be answered with 23 / 33 or store / release
// anything. Runs over the journaling memory store and the real SQLite store (whose answers to "nonce of a session
// that has none" differ: invalid session, not found).

import (
	"bytes"
	"context"
	"crypto/x509"
	"fmt"
	"io"
	"os"
	"path/filepath"

	fdo "github.com/fido-device-onboard/go-fdo"
	"github.com/fido-device-onboard/go-fdo/cbor"
	"github.com/fido-device-onboard/go-fdo/kex"
	"github.com/fido-device-onboard/go-fdo/protocol"
	"github.com/fido-device-onboard/go-fdo/sqlite"

	"verif/internal/keys"
	"verif/internal/lab"
	rc "verif/internal/refcbor"
)

// scripted is a transport that answers the first message of a protocol itself (with a nonce of the harness's
// choosing) and captures the second message the REAL client then produces.
type scripted struct {
	answer   map[uint8][]byte // request type -> body of the response (type+1)
	captured map[uint8][]byte
}

func (s *scripted) Send(_ context.Context, msgType uint8, msg any, _ kex.Session) (uint8, io.ReadCloser, error) {
	b, err := cbor.Marshal(msg)
	if err != nil {
		return 0, nil, err
	}
	if s.captured == nil {
		s.captured = map[uint8][]byte{}
	}
	s.captured[msgType] = b
	if a, ok := s.answer[msgType]; ok {
		return msgType + 1, io.NopCloser(bytes.NewReader(a)), nil
	}
	return 0, nil, fmt.Errorf("captured")
}

func withoutHello(k keys.Kind) {
	bg := context.Background()
	base := "/dev/shm"
	if _, err := os.Stat(base); err != nil {
		base = "/var/tmp"
	}
	dir, err := os.MkdirTemp(base, "verif-c08n-")
	if err != nil {
		r.Fatal("%v", err)
	}
	defer os.RemoveAll(dir)
	for _, store := range []string{"memory", "sqlite"} {
		var srv *lab.Server
		var st lab.State
		blobStored := func(g protocol.GUID) bool { _, _, err := st.RVBlob(bg, g); return err == nil }
		switch store {
		case "memory":
			srv = lab.NewMemServer("all", "owner1")
			st = srv.State
		case "sqlite":
			db, err := sqlite.Open(filepath.Join(dir, "nohello.sqlite"), "")
			if err != nil {
				r.Fatal("sqlite: %v", err)
			}
			defer db.Close()
			for _, kk := range keys.Kinds {
				key := keys.Get(kk.Alg, "owner1")
				chain := []*x509.Certificate{keys.SelfSigned(kk.Alg+"-owner1", key)}
				_ = db.AddOwnerKey(kk.Type, key, chain)
				_ = db.AddManufacturerKey(kk.Type, key, chain)
			}
			srv = lab.NewServer("sql", "owner1", db, noMods{})
			st = db
		}
		// two devices: A is the one the forged requests are about, B has honest sessions whose tokens are borrowed
		devs := []*lab.Device{lab.NewDevice(k, protocol.X509KeyEnc, "device"), lab.NewDevice(k, protocol.X509KeyEnc, "device2")}
		for _, d := range devs {
			if err := d.DI(bg, lab.NewWire(srv).Transport()); err != nil {
				r.Fatal("without-hello layer: DI: %v", err)
			}
			ov, err := st.RemoveVoucher(bg, d.Cred.GUID)
			if err != nil {
				r.Fatal("without-hello layer: %v", err)
			}
			xv, err := lab.Extend(ov, keys.Get(k.Alg, "owner1"), keys.Get(k.Alg, "owner1"), k)
			if err != nil {
				r.Fatal("without-hello layer: %v", err)
			}
			if err := st.AddVoucher(bg, xv); err != nil {
				r.Fatal("without-hello layer: %v", err)
			}
		}
		A, B := devs[0], devs[1]
		to0 := &fdo.TO0Client{Vouchers: st, OwnerKeys: st, TTL: 3600}
		// tokens
		tokens := map[string]string{"none": ""}
		tokOf := func(x *lab.Exchange) string {
			if t := x.RespHeader.Get("Authorization"); t != "" {
				return t
			}
			return x.ReqHeader.Get("Authorization")
		}
		// B's honest TO0: finished TO0 session, and the nonce it used ("stale")
		var stale0 []byte
		{
			w := lab.NewWire(srv)
			w.Pre = func(x *lab.Exchange) {
				if x.MsgType == 22 {
					tokens["finished-TO0"] = x.ReqHeader.Get("Authorization")
				}
			}
			w.Post = func(x *lab.Exchange) {
				if x.MsgType == 20 {
					if it, _, err := rc.Parse(x.RespBody); err == nil && it.Kind == rc.Array && len(it.Items) == 1 {
						stale0 = it.Items[0].B
					}
				}
			}
			if _, err := to0.RegisterBlob(bg, w.Transport(), B.Cred.GUID, lab.DefaultAddrs()); err != nil {
				r.Violation("honest-history-fails:TO0:"+store, fmt.Sprintf("without-hello layer: honest TO0 of the second device fails: %v", err), nil)
				return
			}
		}
		w := lab.NewWire(srv)
		tokens["errored-TO0"] = func() string {
			x := w.Send(20, "", []byte{0x80})
			t := tokOf(x)
			w.Send(22, t, []byte{0x80}) // garbage -> error answer, session over
			return t
		}()
		tokens["live-DI"] = tokOf(w.Send(10, "", crafted(10, A.Cred.GUID, nil)[0]))
		tokens["live-TO1"] = tokOf(w.Send(30, "", rc.Encode(rc.A(rc.Bs(B.Cred.GUID[:]), rc.A(rc.N(6), rc.Bs(nil))))))
		tokens["live-TO2"] = tokOf(w.Send(60, "", crafted(60, A.Cred.GUID, nil)[0]))
		var stale1 []byte
		{
			// B's honest TO1: finished TO1 session
			w1 := lab.NewWire(srv)
			w1.Pre = func(x *lab.Exchange) {
				if x.MsgType == 32 {
					tokens["finished-TO1"] = x.ReqHeader.Get("Authorization")
				}
			}
			w1.Post = func(x *lab.Exchange) {
				if x.MsgType == 30 {
					if it, _, err := rc.Parse(x.RespBody); err == nil && it.Kind == rc.Array && len(it.Items) == 2 {
						stale1 = it.Items[0].B
					}
				}
			}
			if _, err := B.TO1(bg, w1.Transport()); err != nil {
				r.Violation("honest-history-fails:TO1:"+store, fmt.Sprintf("without-hello layer: honest TO1 of the second device fails: %v", err), nil)
				return
			}
		}
		for proto, p := range map[string]protocol.Protocol{"fresh-TO0": protocol.TO0Protocol, "fresh-TO1": protocol.TO1Protocol} {
			if t, err := srv.Handler.Tokens.NewToken(bg, p); err == nil {
				tokens[proto] = "Bearer " + t
			}
		}
		if len(tokens["live-TO1"]) == 0 || len(tokens["finished-TO0"]) == 0 || len(tokens["errored-TO0"]) == 0 || len(stale0) != 16 || len(stale1) != 16 {
			r.Violation("harness:without-hello", fmt.Sprintf("%s: tokens %v / nonces could not be collected", store, len(tokens)), nil)
			return
		}
		nonces := map[string][]byte{"all-zero": make([]byte, 16), "of-a-finished-session": nil, "all-ff": bytes.Repeat([]byte{0xff}, 16)}
		tokNames := []string{"none", "fresh-TO0", "fresh-TO1", "live-DI", "live-TO1", "live-TO2", "finished-TO0", "finished-TO1", "errored-TO0"}
		for _, nn := range []string{"all-zero", "of-a-finished-session", "all-ff"} {
			// --- TO0.OwnerSign for device A, really signed by A's owner, naming this nonce ---
			n0 := nonces[nn]
			if n0 == nil {
				n0 = stale0
			}
			s0 := &scripted{answer: map[uint8][]byte{20: rc.Encode(rc.A(rc.Bs(n0)))}}
			_, _ = to0.RegisterBlob(bg, s0, A.Cred.GUID, lab.DefaultAddrs())
			body22 := s0.captured[22]
			// --- TO1.ProveToRV of device B (which HAS a registered blob), really signed by B, naming this nonce ---
			n1 := nonces[nn]
			if n1 == nil {
				n1 = stale1
			}
			s1 := &scripted{answer: map[uint8][]byte{30: rc.Encode(rc.A(rc.Bs(n1), rc.A(rc.N(6), rc.Bs(nil))))}}
			_, _ = B.TO1(bg, s1)
			body32 := s1.captured[32]
			if body22 == nil || body32 == nil {
				r.Violation("harness:without-hello", fmt.Sprintf("%s: the genuine clients did not produce 22/32 for nonce %s", store, nn), nil)
				return
			}
			for _, tn := range tokNames {
				tok, ok := tokens[tn]
				if !ok {
					continue
				}
				for _, m := range []struct {
					msg  int
					body []byte
				}{{22, body22}, {32, body32}} {
					x := lab.NewWire(srv).Send(m.msg, tok, m.body)
					r.Evaluations.Add(1)
					r.States.Add(1)
					acc := accepted(x)
					effect := m.msg == 22 && blobStored(A.Cred.GUID)
					what := fmt.Sprintf("%s store: genuine-signed message %d naming the nonce %s, sent under token %q with no Hello of that protocol behind it: answered %d/%d, effect=%v", store, m.msg, nn, tn, x.Status, x.RespType, effect)
					repl := map[string]any{"layer": "without-hello", "store": store, "msg": m.msg, "nonce": nn, "token": tn}
					if acc {
						r.Violation(fmt.Sprintf("accepted-without-hello:%d:%s", m.msg, tn), what, repl)
					}
					if effect {
						r.Violation(fmt.Sprintf("effect-without-prerequisite:SetRVBlob:no-hello:%s", tn), what, repl)
					}
					r.Distinct(fmt.Sprintf("without-hello|%s|%d|%s|%s|%d", store, m.msg, nn, tn, x.RespType))
				}
			}
		}
		// control: the same machinery with a Hello behind it is accepted (the oracle is not vacuous)
		{
			wc := lab.NewWire(srv)
			if _, err := to0.RegisterBlob(bg, wc.Transport(), A.Cred.GUID, lab.DefaultAddrs()); err != nil || !blobStored(A.Cred.GUID) {
				r.Violation("honest-history-fails:TO0:"+store, fmt.Sprintf("without-hello layer control: honest TO0 of the first device fails: %v", err), nil)
			}
			if _, err := A.TO1(bg, lab.NewWire(srv).Transport()); err != nil {
				r.Violation("honest-history-fails:TO1:"+store, fmt.Sprintf("without-hello layer control: honest TO1 of the first device fails: %v", err), nil)
			}
			r.Evaluations.Add(2)
		}
	}
}
