package main

// The history exploration of main.go on the REAL SQLite store: the same honest runs, the same intrusion menu and the
// same invariants, with the effect journal kept by a thin wrapper around *sqlite.DB (AddVoucher, ReplaceVoucher and
// SetRVBlob are recorded with the token of the request that caused them and the exchange being served). The SQLite
// store answers differently from the memory store where sessions are concerned (cascade deletes at the end of a
// session, "not found" rather than "invalid session" for an authentic token whose rows are gone, tokens that carry
// a MAC), which is exactly where session binding can go wrong.

import (
	"context"
	"crypto/x509"
	"encoding/base64"
	"os"
	"path/filepath"
	"sync"
	"time"

	fdo "github.com/fido-device-onboard/go-fdo"
	"github.com/fido-device-onboard/go-fdo/cose"
	"github.com/fido-device-onboard/go-fdo/protocol"
	"github.com/fido-device-onboard/go-fdo/sqlite"

	"verif/internal/keys"
	"verif/internal/lab"
)

type sqlJournal struct {
	*sqlite.DB
	mu    sync.Mutex
	stamp func() int
	j     []lab.Effect
}

func (s *sqlJournal) note(ctx context.Context, kind string, guid protocol.GUID) {
	tok, _ := s.DB.TokenFromContext(ctx)
	s.mu.Lock()
	at := -1
	if s.stamp != nil {
		at = s.stamp()
	}
	s.j = append(s.j, lab.Effect{Seq: len(s.j), At: at, Kind: kind, Token: tok, GUID: guid})
	s.mu.Unlock()
}

func (s *sqlJournal) AddVoucher(ctx context.Context, ov *fdo.Voucher) error {
	err := s.DB.AddVoucher(ctx, ov)
	if err == nil {
		s.note(ctx, "AddVoucher", ov.Header.Val.GUID)
	}
	return err
}

func (s *sqlJournal) ReplaceVoucher(ctx context.Context, g protocol.GUID, ov *fdo.Voucher) error {
	err := s.DB.ReplaceVoucher(ctx, g, ov)
	if err == nil {
		s.note(ctx, "ReplaceVoucher", ov.Header.Val.GUID)
	}
	return err
}

func (s *sqlJournal) SetRVBlob(ctx context.Context, ov *fdo.Voucher, to1d *cose.Sign1[protocol.To1d, []byte], exp time.Time) error {
	err := s.DB.SetRVBlob(ctx, ov, to1d, exp)
	if err == nil {
		s.note(ctx, "SetRVBlob", ov.Header.Val.GUID)
	}
	return err
}

// live reports whether a session row exists for the token's session id.
func (s *sqlJournal) live(tok string) bool {
	raw, err := base64.RawURLEncoding.DecodeString(tok)
	if err != nil || len(raw) < 16 {
		return false
	}
	var c int
	_ = s.DB.DB().QueryRow("SELECT COUNT(*) FROM sessions WHERE id = ?", raw[:16]).Scan(&c)
	return c > 0
}

var sqlDirOnce sync.Once
var sqlDir string

// newSQLServer opens a fresh database (removed by the returned function) holding owner1's keys of kind k.
func newSQLServer(k keys.Kind) (*lab.Server, *sqlJournal, func()) {
	sqlDirOnce.Do(func() {
		base := "/dev/shm"
		if _, err := os.Stat(base); err != nil {
			base = "/var/tmp"
		}
		d, err := os.MkdirTemp(base, "verif-c08s-")
		if err != nil {
			r.Fatal("%v", err)
		}
		sqlDir = d
	})
	f, err := os.CreateTemp(sqlDir, "h-*.sqlite")
	if err != nil {
		r.Fatal("%v", err)
	}
	name := f.Name()
	_ = f.Close()
	_ = os.Remove(name)
	db, err := sqlite.Open(name, "")
	if err != nil {
		r.Fatal("sqlite: %v", err)
	}
	key := keys.Get(k.Alg, "owner1")
	chain := []*x509.Certificate{keys.SelfSigned(k.Alg+"-owner1", key)}
	_ = db.AddOwnerKey(k.Type, key, chain)
	_ = db.AddManufacturerKey(k.Type, key, chain)
	sj := &sqlJournal{DB: db}
	srv := lab.NewServer("all-sql", "owner1", sj, noMods{})
	return srv, sj, func() {
		_ = db.Close()
		for _, p := range []string{name, name + "-wal", name + "-shm", name + "-journal"} {
			_ = os.Remove(p)
		}
	}
}

func cleanupSQLDir() {
	if sqlDir != "" {
		_ = os.RemoveAll(filepath.Clean(sqlDir))
	}
}
