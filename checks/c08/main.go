// C08 — server effects happen only through in-order, session-bound message sequences.
//
// Deviation-bounded exploration of request histories on the real http.Handler + responders + store: honest
// principals run DI, TO0, TO1 and TO2 through one server; before every honest request the explorer may inject one
// adversarial request from a menu (message template x token choice). Invariants are evaluated on every history.
package main

import (
	"bytes"
	"context"
	"encoding/hex"
	"fmt"
	"io"
	"strings"
	"sync"

	fdo "github.com/fido-device-onboard/go-fdo"
	"github.com/fido-device-onboard/go-fdo/cbor"
	"github.com/fido-device-onboard/go-fdo/kex"
	"github.com/fido-device-onboard/go-fdo/protocol"
	"github.com/fido-device-onboard/go-fdo/serviceinfo"

	"verif/internal/ev"
	"verif/internal/explore"
	"verif/internal/keys"
	"verif/internal/lab"
	"verif/internal/probe"
	rc "verif/internal/refcbor"
)

var r *ev.Run

// donor: genuine requests of every type from a complete honest run (of another device) on another server, used
// as replay material.
var donor = map[int][]byte{}

type intrusion struct {
	name   string
	msg    int
	body   []byte
	token  string
	tokCls string // none own other-same-proto other-proto dead damaged:*
}

type run struct {
	srv     *lab.Server
	wire    *lab.Wire
	rec     *lab.Recorder
	genuine map[int][]byte    // last genuine request body by type, this run
	tokens  map[string]string // named tokens: "B60" (another TO2 session), "DI-open", "dead"
	intr    []intrusion
	intrIdx []int // wire index of each injected request
	modTok  map[string]bool
	journal func() []lab.Effect
	live    func(tok string) bool
	store   string
}

func tokenOf(x *lab.Exchange) string {
	if t := x.ReqHeader.Get("Authorization"); t != "" {
		return t
	}
	return ""
}

// sessionToken: the token a request belongs to: the one it carried, or for protocol-start messages the one the
// server assigned in the response.
func sessionToken(x *lab.Exchange) string {
	switch x.MsgType {
	case 10, 20, 30, 60:
		return x.RespHeader.Get("Authorization")
	}
	return tokenOf(x)
}

func protoOf(msg int) string {
	switch {
	case msg >= 10 && msg <= 13:
		return "DI"
	case msg >= 20 && msg <= 23:
		return "TO0"
	case msg >= 30 && msg <= 33:
		return "TO1"
	case msg >= 60 && msg <= 71:
		return "TO2"
	}
	return "?"
}

func crafted(msg int, guid protocol.GUID, pdNonce []byte) [][]byte {
	switch msg {
	case 10:
		return [][]byte{rc.Encode(rc.A(rc.Null()))}
	case 12:
		return [][]byte{rc.Encode(rc.A(rc.A(rc.U(5), rc.Bs(make([]byte, 32)))))}
	case 20:
		return [][]byte{rc.Encode(rc.A())}
	case 30:
		return [][]byte{rc.Encode(rc.A(rc.Bs(guid[:]), rc.A(rc.N(6), rc.Bs(nil))))}
	case 60:
		var n [16]byte
		return [][]byte{rc.Encode(rc.A(rc.U(65535), rc.Bs(guid[:]), rc.Bs(n[:]), rc.T("ECDH256"), rc.U(1), rc.A(rc.N(6), rc.Bs(nil))))}
	case 62:
		return [][]byte{rc.Encode(rc.A(rc.U(0)))}
	case 66:
		return [][]byte{rc.Encode(rc.A(rc.A(rc.U(5), rc.Bs(make([]byte, 32))), rc.U(1300)))}
	case 68:
		return [][]byte{rc.Encode(rc.A(rc.Bool(false), rc.A()))}
	case 70:
		if len(pdNonce) == 16 {
			return [][]byte{rc.Encode(rc.A(rc.Bs(pdNonce)))} // Done with the (public) ProveDevice nonce
		}
		return [][]byte{rc.Encode(rc.A(rc.Bs(make([]byte, 16))))}
	case 255:
		var out [][]byte
		for _, prev := range []uint64{10, 21, 31, 61, 69, 0, 99} {
			out = append(out, rc.Encode(rc.A(rc.U(500), rc.U(prev), rc.T("x"), rc.U(1), rc.Null())))
		}
		return out
	}
	return nil
}

var msgTypes = []int{10, 12, 20, 22, 30, 32, 60, 62, 64, 66, 68, 70, 255, 61, 13, 99}

// menu of adversarial requests available before an honest request.
func (rn *run) menu(next *lab.Exchange, guid protocol.GUID, full bool) []intrusion {
	own := tokenOf(next)
	var pdNonce []byte
	for _, x := range rn.wire.Log {
		if x.MsgType == 60 && x.RespType == 61 {
			if it, _, err := rc.Parse(x.RespBody); err == nil && it.Kind == rc.Tag {
				arr := it.Items[0]
				if arr.Kind == rc.Array && len(arr.Items) == 4 && arr.Items[1].Kind == rc.Map {
					for i := 0; i+1 < len(arr.Items[1].Items); i += 2 {
						if k := arr.Items[1].Items[i]; k.Kind == rc.Uint && k.U == 256 {
							pdNonce = arr.Items[1].Items[i+1].B
						}
					}
				}
			}
		}
	}
	type tk struct{ cls, val string }
	toks := []tk{{"none", ""}, {"own", own}, {"other-same-proto", rn.tokens["B-"+protoOf(next.MsgType)]}, {"other-proto", rn.tokens["other-"+protoOf(next.MsgType)]}, {"dead", rn.tokens["dead"]}}
	if own != "" {
		raw := strings.TrimPrefix(own, "Bearer ")
		flip := []byte(raw)
		if len(flip) > 0 {
			if flip[len(flip)-1] == 'A' {
				flip[len(flip)-1] = 'B'
			} else {
				flip[len(flip)-1] = 'A'
			}
		}
		toks = append(toks, tk{"damaged:no-bearer-prefix", raw}, tk{"damaged:last-char", "Bearer " + string(flip)}, tk{"damaged:truncated", "Bearer " + raw[:len(raw)/3]}, tk{"damaged:not-base64", "Bearer ***"}, tk{"damaged:empty-bearer", "Bearer "})
	}
	var out []intrusion
	for _, mt := range msgTypes {
		var bodies [][]byte
		var names []string
		if b, ok := rn.genuine[mt]; ok {
			bodies, names = append(bodies, b), append(names, "replay-of-this-run")
		} else if b, ok := donor[mt]; ok && full {
			bodies, names = append(bodies, b), append(names, "genuine-of-another-device")
		}
		for i, b := range crafted(mt, guid, pdNonce) {
			bodies, names = append(bodies, b), append(names, fmt.Sprintf("crafted%d", i))
		}
		if len(bodies) == 0 {
			bodies, names = [][]byte{{0x80}}, []string{"empty-array"}
		}
		for bi, b := range bodies {
			for _, t := range toks {
				if t.cls != "none" && t.cls != "own" && !strings.HasPrefix(t.cls, "damaged") && t.val == "" {
					continue
				}
				if t.cls == "own" && t.val == "" {
					continue
				}
				if !full && strings.HasPrefix(t.cls, "damaged") && bi > 0 {
					continue
				}
				out = append(out, intrusion{name: fmt.Sprintf("%d/%s/%s", mt, names[bi], t.cls), msg: mt, body: b, token: t.val, tokCls: t.cls})
			}
		}
	}
	return out
}

// history runs the four protocols honestly on one server with the explorer choosing intrusions.
func history(c *explore.Ctx, k keys.Kind, full bool, store string) (rn *run, honestErr map[string]error) {
	ctx := context.Background()
	rn = &run{rec: &lab.Recorder{}, genuine: map[int][]byte{}, tokens: map[string]string{}, modTok: map[string]bool{}, store: store}
	var srv *lab.Server
	var wire *lab.Wire
	if store == "sqlite" {
		s, sj, done := newSQLServer(k)
		defer done()
		srv = s
		wire = lab.NewWire(srv)
		sj.stamp = func() int { return wire.Serving }
		rn.journal = func() []lab.Effect { return sj.j }
		// session rows are looked up before the database is closed
		liveCache := map[string]bool{}
		rn.live = func(tok string) bool { return liveCache[tok] }
		defer func() {
			for _, x := range wire.Log {
				for _, t := range []string{x.ReqHeader.Get("Authorization"), x.RespHeader.Get("Authorization")} {
					if t = strings.TrimPrefix(t, "Bearer "); t != "" {
						liveCache[t] = sj.live(t)
					}
				}
			}
		}()
	} else {
		srv = lab.NewMemServer("all", "owner1")
		srv.Mem.OwnerModules = func(ctx context.Context, _ protocol.GUID, _ serviceinfo.Devmod, _ []string) []lab.NamedModule {
			tok, _ := srv.Mem.TokenFromContext(ctx)
			rn.modTok[tok] = true
			return []lab.NamedModule{{Name: "vmod", Mod: &lab.OwnerScript{Name: "vmod", Rec: rn.rec, Rounds: [][]lab.Msg{{{Name: "m", Body: []byte{1}}}}}}}
		}
		wire = lab.NewWire(srv)
		srv.Mem.Stamp = func() int { return wire.Serving }
		rn.journal = func() []lab.Effect { return srv.Mem.Journal }
		rn.live = srv.Mem.Live
	}
	rn.srv = srv
	rn.wire = wire
	honestErr = map[string]error{}
	dev := lab.NewDevice(k, protocol.X509KeyEnc, "device")
	var guid protocol.GUID
	// background sessions that stay half-open: another TO2 session is opened once the voucher exists
	inject := func(x *lab.Exchange) {
		m := rn.menu(x, guid, full)
		ch := c.Choose(1+len(m), 1)
		if ch == 0 {
			return
		}
		in := m[ch-1]
		rn.intr = append(rn.intr, in)
		rn.intrIdx = append(rn.intrIdx, len(wire.Log))
		if p := probe.Call(func() { wire.Send(in.msg, in.token, in.body) }); p != nil {
			r.Violation(p.Key(), fmt.Sprintf("handler panics on injected request %s: %s in %s", in.name, p.Value, p.Frame), map[string]any{"intrusion": in.name, "body": hex.EncodeToString(in.body), "token_class": in.tokCls})
		}
	}
	inHook := false
	wire.Pre = func(x *lab.Exchange) {
		if inHook {
			return
		}
		inHook = true
		inject(x)
		inHook = false
		rn.genuine[x.MsgType] = bytes.Clone(x.ReqBody)
	}
	// --- DI ---
	honestErr["DI"] = dev.DI(ctx, wire.Transport())
	if honestErr["DI"] == nil {
		guid = dev.Cred.GUID
		for _, x := range wire.Log {
			if x.MsgType == 12 && x.RespType == 13 {
				rn.tokens["dead"] = tokenOf(x) // a finished session's token
			}
		}
		if ov, err := srv.State.RemoveVoucher(ctx, guid); err == nil {
			if xv, err := lab.Extend(ov, keys.Get(k.Alg, "owner1"), keys.Get(k.Alg, "owner1"), k); err == nil {
				_ = srv.State.AddVoucher(ctx, xv)
			}
		}
	}
	// half-open sessions of every protocol, for "another session's token" and "another protocol's token"
	open := func(msg int, body []byte, name string) {
		x := wire.Send(msg, "", body)
		if t := x.RespHeader.Get("Authorization"); t != "" {
			rn.tokens[name] = t
		}
	}
	open(10, crafted(10, guid, nil)[0], "B-DI")
	open(20, crafted(20, guid, nil)[0], "B-TO0")
	rn.tokens["other-TO2"], rn.tokens["other-TO1"], rn.tokens["other-TO0"], rn.tokens["other-DI"] = rn.tokens["B-DI"], rn.tokens["B-DI"], rn.tokens["B-DI"], rn.tokens["B-TO0"]
	if honestErr["DI"] != nil {
		return
	}
	open(60, crafted(60, guid, nil)[0], "B-TO2")
	// --- TO0 ---
	c0 := &fdo.TO0Client{Vouchers: srv.State, OwnerKeys: srv.State, TTL: 3600}
	_, honestErr["TO0"] = c0.RegisterBlob(ctx, wire.Transport(), guid, lab.DefaultAddrs())
	open(30, crafted(30, guid, nil)[0], "B-TO1")
	// --- TO1 ---
	to1d, err := dev.TO1(ctx, wire.Transport())
	honestErr["TO1"] = err
	// --- TO2 ---
	cfg := dev.TO2Config(lab.DefaultSuite(k), kex.A128GcmCipher)
	cfg.DeviceModules = map[string]serviceinfo.DeviceModule{"vmod": &lab.DeviceRec{Name: "vmod", Rec: rn.rec}}
	if p := probe.Call(func() { _, honestErr["TO2"] = fdo.TO2(ctx, wire.Transport(), to1d, cfg) }); p != nil {
		honestErr["TO2"] = fmt.Errorf("panic: %s", p.Value)
		r.Violation(p.Key(), "device TO2 panics: "+p.Value+" in "+p.Frame, nil)
	}
	return
}

var prereq = map[string][]int{"AddVoucher": {10, 12}, "SetRVBlob": {20, 22}, "ReplaceVoucher": {60, 64, 66, 68, 70}, "module": {60, 64, 66, 68}}

func accepted(x *lab.Exchange) bool { return x.Status == 200 && x.RespType != 255 && x.RespType > 0 }

// judge evaluates the invariants on one finished history.
func judge(rn *run, honestErr map[string]error, k keys.Kind) {
	r.States.Add(1)
	r.Transitions.Add(int64(len(rn.wire.Log)))
	var names []string
	for _, in := range rn.intr {
		names = append(names, in.name)
	}
	desc := strings.Join(names, " + ")
	if rn.store == "sqlite" {
		desc = "sqlite store: " + desc
	}
	repl := map[string]any{"kind": k.Name, "intrusions": names, "store": rn.store}
	viol := func(key, format string, a ...any) {
		r.Violation(key, fmt.Sprintf("[%s] ", desc)+fmt.Sprintf(format, a...), repl)
	}
	log := rn.wire.ServedLog()
	posOf := map[int]int{}
	for i, x := range log {
		posOf[x.Idx] = i
	}
	at := func(idx int) int {
		if p, ok := posOf[idx]; ok {
			return p
		}
		return -1
	}
	// (1) every effect has a witness: under its token, the prerequisite messages were accepted in order, the last one being the exchange that caused it
	for _, ef := range rn.journal() {
		kind := ef.Kind
		if kind != "AddVoucher" && kind != "SetRVBlob" && kind != "ReplaceVoucher" {
			continue
		}
		if ef.Token == "" {
			continue // out-of-band hand-over by the harness
		}
		need := prereq[kind]
		pos := 0
		efAt := at(ef.At)
		for i, x := range log {
			if i > efAt {
				break
			}
			tk := strings.TrimPrefix(sessionToken(x), "Bearer ")
			if tk == ef.Token && pos < len(need) && x.MsgType == need[pos] && (accepted(x) || i == efAt) {
				pos++
			}
		}
		if pos < len(need) || efAt < 0 || log[efAt].MsgType != need[len(need)-1] {
			viol("effect-without-witness:"+kind, "%s happened while serving exchange %d (type %d) in a session whose accepted messages do not contain %v in order", kind, efAt, typeAt(log, efAt), need)
		}
	}
	for tok := range rn.modTok {
		need := prereq["module"]
		pos := 0
		for _, x := range log {
			if strings.TrimPrefix(sessionToken(x), "Bearer ") == tok && pos < len(need) && x.MsgType == need[pos] && accepted(x) {
				pos++
			}
		}
		if pos < len(need)-1 { // the module list is built while serving the first 68 that completes devmod
			viol("effect-without-witness:module", "an owner module was started in a session whose accepted messages do not contain %v", need[:len(need)-1])
		}
	}
	// (2) requests that carry no / foreign-protocol / dead / damaged token have no effect and do not disturb the honest sessions
	ownUsed := false
	for i, in := range rn.intr {
		if at(rn.intrIdx[i]) < 0 {
			continue
		}
		x := log[at(rn.intrIdx[i])]
		if in.tokCls == "own" || in.tokCls == "other-same-proto" {
			ownUsed = ownUsed || in.tokCls == "own"
			continue
		}
		start := in.msg == 10 || in.msg == 20 || in.msg == 30 || in.msg == 60
		if in.tokCls == "none" && start {
			continue // legitimately opens a new session
		}
		if strings.HasPrefix(in.tokCls, "damaged") && start {
			continue // protocol-start messages ignore the token they carry and open a new session
		}
		if (in.tokCls == "dead" || in.tokCls == "other-proto") && start {
			continue
		}
		if accepted(x) && x.RespType != 0 {
			viol("accepted-with-"+in.tokCls+"-token", "request type %d with a %s token was answered with message %d instead of an error", in.msg, in.tokCls, x.RespType)
		}
		for _, ef := range rn.journal() {
			if ef.At == rn.intrIdx[i] && (ef.Kind == "AddVoucher" || ef.Kind == "SetRVBlob" || ef.Kind == "ReplaceVoucher") {
				viol("effect-with-"+in.tokCls+"-token", "request type %d with a %s token caused %s", in.msg, in.tokCls, ef.Kind)
			}
		}
	}
	if !ownUsed {
		for _, p := range []string{"DI", "TO0", "TO1", "TO2"} {
			if honestErr[p] != nil {
				viol("honest-session-disturbed:"+p, "the honest %s run failed (%v) although no injected request carried its token", p, honestErr[p])
			}
		}
		var adds, blobs, repls int
		for _, ef := range rn.journal() {
			if ef.Token == "" {
				continue
			}
			switch ef.Kind {
			case "AddVoucher":
				adds++
			case "SetRVBlob":
				blobs++
			case "ReplaceVoucher":
				repls++
			}
		}
		dis := 0
		for _, in := range rn.intr {
			if in.tokCls == "other-same-proto" || (in.tokCls == "none" && (in.msg == 10 || in.msg == 12)) {
				dis++
			}
		}
		if dis == 0 && (adds != 1 || blobs != 1 || repls != 1) && honestErr["TO2"] == nil {
			viol("effect-count", "expected exactly one AddVoucher, SetRVBlob and ReplaceVoucher from the honest runs, saw %d/%d/%d", adds, blobs, repls)
		}
	}
	// (3) after a protocol's final message, after any error answer, and after a client error message, the token is dead
	deadAt := map[string]int{}
	for i, x := range log {
		tk := sessionToken(x)
		if tk == "" {
			continue
		}
		if at, dead := deadAt[tk]; dead && i > at {
			if tokenOf(x) == tk && accepted(x) && x.RespType != 0 {
				viol("dead-token-accepted", "token of a session that ended at exchange %d (type %d -> %d) was accepted again for message %d -> %d", at, log[at].MsgType, log[at].RespType, x.MsgType, x.RespType)
			}
			continue
		}
		final := x.RespType == 13 || x.RespType == 23 || x.RespType == 33 || x.RespType == 71
		if final || x.RespType == 255 || x.Status == 500 || (x.MsgType == 255 && tokenOf(x) != "") {
			if _, seen := deadAt[tk]; !seen {
				deadAt[tk] = i
			}
		}
	}
	// store-level: no session state may remain for dead tokens
	for tk := range deadAt {
		if rn.live(strings.TrimPrefix(tk, "Bearer ")) {
			viol("session-state-survives", "session state of a token that finished or errored is still present in the store")
		}
	}
	oc := "ok"
	for _, p := range []string{"DI", "TO0", "TO1", "TO2"} {
		if honestErr[p] != nil {
			oc = p + "-failed"
			break
		}
	}
	r.Distinct(desc + "|" + oc)
}

func typeAt(log []*lab.Exchange, i int) int {
	if i < 0 || i >= len(log) {
		return -1
	}
	return log[i].MsgType
}

// ---------------- the authenticated client deviates from the message order (inside the tunnel) ----------------

// deviant wraps the real TO2 client's transport: the client holds the session keys, so what it sends is accepted by
// the tunnel; the deviation is in WHICH messages it sends.
type deviant struct {
	inner fdo.Transport
	mode  string
	n68   int
	log   []string
	sess  kex.Session
	last  map[uint8]any
}

func (d *deviant) Send(ctx context.Context, msgType uint8, msg any, sess kex.Session) (uint8, io.ReadCloser, error) {
	d.sess = sess
	if d.last == nil {
		d.last = map[uint8]any{}
	}
	d.last[msgType] = msg
	fab := func(typ uint8, v any) (uint8, io.ReadCloser, error) {
		b, _ := cbor.Marshal(v)
		d.log = append(d.log, fmt.Sprintf("%d:not-sent", msgType))
		return typ, io.NopCloser(bytes.NewReader(b)), nil
	}
	switch {
	case d.mode == "skip-66" && msgType == 66:
		return fab(67, fdo.XOwnerServiceInfoReady{})
	case d.mode == "skip-service-info" && msgType == 68:
		return fab(69, fdo.XOwnerServiceInfo{IsDone: true})
	case d.mode == "skip-66-and-service-info" && msgType == 66:
		return fab(67, fdo.XOwnerServiceInfoReady{})
	case d.mode == "skip-66-and-service-info" && msgType == 68:
		return fab(69, fdo.XOwnerServiceInfo{IsDone: true})
	case d.mode == "skip-modules" && msgType == 68 && d.n68 > 0:
		// devmod has been delivered and the owner's module has started; the client leaves before it finished
		return fab(69, fdo.XOwnerServiceInfo{IsDone: true})
	}
	typ, rc, err := d.inner.Send(ctx, msgType, msg, sess)
	d.log = append(d.log, fmt.Sprintf("%d->%d", msgType, typ))
	if err == nil && typ == 69 {
		b, _ := io.ReadAll(rc)
		_ = rc.Close()
		var o fdo.XOwnerServiceInfo
		if cbor.Unmarshal(b, &o) == nil && len(o.ServiceInfo) > 0 {
			d.n68++
		}
		rc = io.NopCloser(bytes.NewReader(b))
	}
	return typ, rc, err
}

// again sends one more message of the given type in the same session after the client has returned.
func (d *deviant) again(msgType uint8) (uint8, error) {
	msg, ok := d.last[msgType]
	if !ok || d.sess == nil {
		return 0, fmt.Errorf("nothing to resend")
	}
	typ, rc, err := d.inner.Send(context.Background(), msgType, msg, d.sess)
	if rc != nil {
		_, _ = io.Copy(io.Discard, rc)
		_ = rc.Close()
	}
	d.log = append(d.log, fmt.Sprintf("again %d->%d", msgType, typ))
	return typ, err
}

func deviantClients(k keys.Kind) {
	ctx := context.Background()
	for _, mode := range []string{"honest", "skip-66", "skip-service-info", "skip-66-and-service-info", "skip-modules", "done-twice", "info-after-done", "ready-after-done", "prove-after-done"} {
		for _, reuse := range []bool{false, true} {
			rec := &lab.Recorder{}
			w := lab.NewWorld(k, protocol.X509KeyEnc)
			if _, err := w.Manufacture(ctx, 1); err != nil {
				r.Fatal("manufacture: %v", err)
			}
			w.Owner.Reuse = reuse
			w.Owner.Mem.OwnerModules = func(context.Context, protocol.GUID, serviceinfo.Devmod, []string) []lab.NamedModule {
				return []lab.NamedModule{{Name: "vmod", Mod: &lab.OwnerScript{Name: "vmod", Rec: rec, Rounds: [][]lab.Msg{{{Name: "m", Body: []byte{1}}}}}}}
			}
			cfg := w.Dev.TO2Config(lab.DefaultSuite(k), kex.A128GcmCipher)
			cfg.AllowCredentialReuse = reuse
			cfg.DeviceModules = map[string]serviceinfo.DeviceModule{"vmod": &lab.DeviceRec{Name: "vmod", Rec: rec}}
			d := &deviant{inner: lab.NewWire(w.Owner).Transport(), mode: mode}
			var err error
			if p := probe.Call(func() { _, err = fdo.TO2(ctx, d, nil, cfg) }); p != nil {
				r.Violation(p.Key(), fmt.Sprintf("deviant client %s: panic %s in %s", mode, p.Value, p.Frame), map[string]any{"mode": mode})
				continue
			}
			replBefore, callsBefore := countRepl(w.Owner.Mem), rec.Count("owner", "")
			var againType uint8
			var againErr error
			switch mode {
			case "done-twice":
				againType, againErr = d.again(70)
			case "info-after-done":
				againType, againErr = d.again(68)
			case "ready-after-done":
				againType, againErr = d.again(66)
			case "prove-after-done":
				againType, againErr = d.again(64)
			}
			repl, calls := countRepl(w.Owner.Mem), rec.Count("owner", "")
			r.Evaluations.Add(1)
			r.States.Add(1)
			r.Transitions.Add(int64(len(d.log)))
			what := fmt.Sprintf("%s, authenticated TO2 client in mode %s (credential reuse %v), messages %v, client result %v", k.Name, mode, reuse, d.log, err)
			repl0 := map[string]any{"mode": mode, "reuse": reuse, "layer": "deviant-client"}
			switch mode {
			case "honest":
				if err != nil {
					r.Violation("honest-history-fails:TO2", what, repl0)
				}
				if want := map[bool]int{false: 1, true: 0}[reuse]; repl != want || calls == 0 {
					r.Violation("honest-effects-missing", fmt.Sprintf("%s: %d voucher replacements (want %d), %d owner module calls", what, repl, want, calls), repl0)
				}
			case "skip-66", "skip-service-info", "skip-66-and-service-info":
				if calls > 0 && mode != "skip-service-info" {
					r.Violation("effect-without-prerequisite:module", fmt.Sprintf("%s: the owner module was invoked %d times although DeviceServiceInfoReady (66) never arrived", what, calls), repl0)
				}
				if repl > 0 {
					r.Violation("effect-without-prerequisite:ReplaceVoucher", fmt.Sprintf("%s: the voucher was replaced although the service info phase was skipped", what), repl0)
				}
			case "skip-modules":
				if repl > 0 {
					r.Violation("effect-without-prerequisite:ReplaceVoucher:done-before-owner-modules-finished", fmt.Sprintf("%s: the voucher was replaced although the owner never reported IsDone (its module had not finished)", what), repl0)
				}
			default:
				if againErr == nil && againType != 255 {
					r.Violation("accepted-after-final-message", fmt.Sprintf("%s: a %d sent after Done2 was answered with %d", what, map[string]int{"done-twice": 70, "info-after-done": 68, "ready-after-done": 66, "prove-after-done": 64}[mode], againType), repl0)
				}
				if repl != replBefore || calls != callsBefore {
					r.Violation("effect-after-final-message", fmt.Sprintf("%s: after Done2 the extra message caused %d voucher replacements and %d module calls", what, repl-replBefore, calls-callsBefore), repl0)
				}
			}
			r.Distinct(fmt.Sprintf("deviant|%s|%v|err=%v|repl=%d|calls=%v", mode, reuse, err != nil, repl, calls > 0))
			r.Sample(8, map[string]any{"layer": "deviant-client", "mode": mode, "reuse": reuse, "messages": d.log, "voucher_replacements": repl, "owner_module_calls": calls})
		}
	}
}

func countRepl(m *lab.MemStore) int {
	n := 0
	for _, e := range m.Journal {
		if e.Kind == "ReplaceVoucher" {
			n++
		}
	}
	return n
}

func main() {
	r = ev.Start("C08", "model_checking")
	// donor material
	{
		w := lab.NewWorld(keys.KindByName("ec256"), protocol.X509KeyEnc)
		w.Dev = lab.NewDevice(keys.KindByName("ec256"), protocol.X509KeyEnc, "device2")
		log, _, err := w.HonestRun(context.Background(), 1, kex.ECDH256Suite, kex.A128GcmCipher)
		if err != nil {
			r.Fatal("donor run: %v", err)
		}
		for _, m := range log {
			if m.Dir == "req" {
				donor[m.Type] = m.Body
			}
		}
		for _, wr := range []*lab.Wire{w.WMfg, w.WRV, w.WOwner} {
			for _, x := range wr.Log {
				if x.MsgType > 64 {
					donor[x.MsgType] = x.ReqBody // protected form as it was on the wire
				}
			}
		}
	}
	kinds := []string{"ec256"}
	bound := 1
	if !r.Quick() {
		kinds = []string{"ec256", "rsa2048restr"}
	}
	r.Rule("a state is a request history on ONE server instance (real handler, all four responders, one journaling store); a transition is one real ServeHTTP call. Honest principals run DI, TO0, TO1, TO2 (with an owner module) in order; half-open sessions of every protocol exist besides them. Before EVERY honest request the explorer may inject one adversarial request from the menu {16 message types incl. response types and unknown types} x {replay of the genuine request of this run, genuine request of another device (thorough), crafted well-formed bodies such as Done with the public ProveDevice nonce, plaintext 66/68, SetHMAC, error messages naming each protocol / unknown previous types} x {no token, this session's, another session's of the same protocol, another protocol's, a finished session's, five damaged forms}. Deviation bound 1 is complete (thorough: bound 2 for the injection points of DI/TO0/TO1). Invariants on every history: every AddVoucher / SetRVBlob / ReplaceVoucher / module start has a witness (the prerequisite messages accepted in order under its token, the last being the exchange that caused it); requests with no / foreign-protocol / finished / damaged token are answered with an error, cause no effect and do not disturb the honest runs; after a final message, an error answer or a client error message the token is never accepted again and its session state is gone. states = histories, transitions = requests served. Additional layer: the AUTHENTICATED TO2 client itself (real client, real tunnel) deviates from the order: skips 66, skips the whole service info phase, skips both, or sends 70 / 68 / 66 / 64 once more after Done2, with and without credential reuse; no module invocation or voucher replacement may happen without its prerequisite messages, nothing is accepted after the final message. Restart layer: the authenticated client abandons a run before 66 / the first or second 68 / 70 (nothing more is sent, the session stays open) and starts over through the SAME HTTP transport, so that its HelloDevice presents the live token, then skips 66, the service info phase, both, or nothing; over the memory store and over the real SQLite store: steps of the abandoned run never count for the new one (no voucher replacement, the skipping run fails), an honest second run is onboarded. Token layer: on the real SQLite token service the last message of DI and of TO0 is sent with its own session id but a MAC that is bit-flipped, zeroed, borrowed from another live session, shortened, extended or absent: refused, no voucher / blob stored. Hang-up layer: the client's request context is cancelled while the server processes the final message of DI / TO0 (after the effect): no session row remains and the final message sent again under the same token is refused. Without-hello layer (memory and SQLite store): OwnerSign (22) and ProveToRV (32) produced by the REAL clients and signed by the genuine owner / device, naming the all-zero nonce, the nonce of an earlier finished session or all-0xff, are sent under {no token, a token freshly issued for TO0 / TO1, live DI / TO1 / TO2 session tokens, the tokens of a finished TO0 / TO1 session and of an errored TO0 session}: never answered with 23 / 33, no blob stored; control: with a Hello behind them both protocols complete.")
	type hcfg struct{ kind, store string }
	var hcfgs []hcfg
	for _, kn := range kinds {
		hcfgs = append(hcfgs, hcfg{kn, "memory"})
	}
	hcfgs = append(hcfgs, hcfg{kinds[0], "sqlite"})
	defer cleanupSQLDir()
	for _, hc := range hcfgs {
		kn := hc.kind
		k := keys.KindByName(kn)
		var mu sync.Mutex
		st := explore.ExploreParallel(bound, 16, func(c *explore.Ctx) {
			rn, herr := history(c, k, !r.Quick(), hc.store)
			r.Evaluations.Add(1)
			mu.Lock()
			if len(rn.intr) == 1 && len(rn.intr[0].name) > 0 {
				r.Sample(5, map[string]any{"injected": rn.intr[0].name, "before_honest_request_index": rn.intrIdx[0], "requests_served": len(rn.wire.Log)})
			}
			mu.Unlock()
			if len(rn.intr) == 0 {
				for _, p := range []string{"DI", "TO0", "TO1", "TO2"} {
					if herr[p] != nil {
						r.Violation("honest-history-fails:"+p, fmt.Sprintf("%s/%s: fault-free history: %s fails: %v", kn, hc.store, p, herr[p]), nil)
					}
				}
			}
			judge(rn, herr, k)
		}, nil)
		if len(st.Diverged) > 0 {
			r.Fatal("replay divergence: %s", st.Diverged[0])
		}
		r.Add("executions", int64(st.Executions))
		r.Add("injection_points", int64(st.MaxDepth))
	}
	for _, kn := range kinds {
		deviantClients(keys.KindByName(kn))
		restartClients(keys.KindByName(kn))
	}
	sqliteTokens(keys.KindByName(kinds[0]))
	hangUps(keys.KindByName(kinds[0]))
	for _, kn := range kinds {
		withoutHello(keys.KindByName(kn))
	}
	r.Traces.Add(r.States.Load())
	r.Assume("the history exploration uses the memory store with effect journal; the restart layer also runs on the real SQLite store (the store interface itself is explored by C18); the adversary's knowledge is what is public on the wire plus genuine traffic of another device")
	_ = cbor.Marshal
	r.Finish()
}
