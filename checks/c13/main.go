// C13 — COSE signatures and MACs verify exactly what was signed, with the right key.
//
// Exhaustive single-bit and structural tamper enumeration per algorithm on the real go-fdo/cose, checked
// against an independent reference verifier (refcbor + stdlib crypto).
package main

import (
	"bytes"
	"crypto"
	"crypto/ecdsa"
	"crypto/hmac"
	"crypto/rand"
	"crypto/rsa"
	"crypto/sha256"
	"crypto/sha512"
	"encoding/asn1"
	"encoding/hex"
	"fmt"
	"hash"
	"io"
	"math/big"
	"sync"

	"github.com/fido-device-onboard/go-fdo/cbor"
	"github.com/fido-device-onboard/go-fdo/cose"
	"github.com/fido-device-onboard/go-fdo/kex"

	"verif/internal/ev"
	"verif/internal/keys"
	"verif/internal/probe"
	rc "verif/internal/refcbor"
)

var r *ev.Run

type alg struct {
	name string
	id   int64
	key  crypto.Signer
	opts crypto.SignerOpts
	hash crypto.Hash
	pss  bool
	n    int // ECDSA coordinate size
}

func algs() []alg {
	pss := func(h crypto.Hash) crypto.SignerOpts {
		return &rsa.PSSOptions{SaltLength: rsa.PSSSaltLengthEqualsHash, Hash: h}
	}
	return []alg{
		{"ES256", -7, keys.Get("ec256", "owner1"), nil, crypto.SHA256, false, 32},
		{"ES384", -35, keys.Get("ec384", "owner1"), nil, crypto.SHA384, false, 48},
		{"RS256", -257, keys.Get("rsa2048", "owner1"), crypto.SHA256, crypto.SHA256, false, 0},
		{"RS384", -258, keys.Get("rsa3072", "owner1"), crypto.SHA384, crypto.SHA384, false, 0},
		{"PS256", -37, keys.Get("rsa2048", "owner1"), pss(crypto.SHA256), crypto.SHA256, true, 0},
		{"PS384", -38, keys.Get("rsa3072", "owner1"), pss(crypto.SHA384), crypto.SHA384, true, 0},
	}
}

var hashByAlg = map[int64]crypto.Hash{-7: crypto.SHA256, -35: crypto.SHA384, -36: crypto.SHA512, -257: crypto.SHA256, -258: crypto.SHA384, -259: crypto.SHA512, -37: crypto.SHA256, -38: crypto.SHA384, -39: crypto.SHA512}

// refVerify: independent COSE_Sign1 verification (RFC 8152 s4.4) of a tagged or untagged wire object.
func refVerify(wire []byte, pub crypto.PublicKey, detached []byte, aad []byte) bool {
	it, n, err := rc.Parse(wire)
	if err != nil || n != len(wire) {
		return false
	}
	if it.Kind == rc.Tag {
		if it.U != 18 {
			return false
		}
		it = it.Items[0]
	}
	if it.Kind != rc.Array || len(it.Items) != 4 || it.Items[0].Kind != rc.Bytes || it.Items[3].Kind != rc.Bytes {
		return false
	}
	prot := it.Items[0].B
	var algID int64
	found := false
	if len(prot) > 0 {
		pm, pn, err := rc.Parse(prot)
		if err != nil || pn != len(prot) || pm.Kind != rc.Map {
			return false
		}
		for i := 0; i+1 < len(pm.Items); i += 2 {
			if k := pm.Items[i]; k.Kind == rc.Uint && k.U == 1 {
				v := pm.Items[i+1]
				switch v.Kind {
				case rc.Uint:
					algID, found = int64(v.U), v.U < 1<<62
				case rc.Nint:
					algID, found = -int64(v.U)-1, v.U < 1<<62
				}
			}
		}
	}
	if !found {
		return false
	}
	h, ok := hashByAlg[algID]
	if !ok {
		return false
	}
	var payload []byte
	switch {
	case it.Items[2].Kind == rc.Bytes:
		payload = it.Items[2].B
	case detached != nil:
		payload = detached
	default:
		return false
	}
	tbs := rc.Encode(rc.A(rc.T("Signature1"), rc.Bs(prot), rc.Bs(aad), rc.Bs(payload)))
	hh := h.New()
	hh.Write(tbs)
	digest := hh.Sum(nil)
	sig := it.Items[3].B
	switch k := pub.(type) {
	case *ecdsa.PublicKey:
		if algID != -7 && algID != -35 && algID != -36 {
			return false
		}
		n := (k.Params().N.BitLen() + 7) / 8
		if len(sig) != 2*n {
			return false
		}
		return ecdsa.Verify(k, digest, new(big.Int).SetBytes(sig[:n]), new(big.Int).SetBytes(sig[n:]))
	case *rsa.PublicKey:
		switch algID {
		case -257, -258, -259:
			return rsa.VerifyPKCS1v15(k, h, digest, sig) == nil
		case -37, -38, -39:
			return rsa.VerifyPSS(k, h, digest, sig, &rsa.PSSOptions{SaltLength: rsa.PSSSaltLengthEqualsHash, Hash: h}) == nil
		}
	}
	return false
}

// libVerify decodes the wire form with the real library and calls Sign1.Verify.
func libVerify[P any](wire []byte, pub crypto.PublicKey, detached *P, aad []byte) (ok bool, err error, p *probe.Panic) {
	p = probe.Call(func() {
		var t cose.Sign1Tag[P, []byte]
		if err = cbor.Unmarshal(wire, &t); err != nil {
			return
		}
		ok, err = t.Verify(pub, detached, aad)
	})
	return
}

type inner struct {
	A int
	B []byte
	C []string
}

func hx(b []byte) string {
	if len(b) > 40 {
		return hex.EncodeToString(b[:40]) + "..."
	}
	return hex.EncodeToString(b)
}

// judge compares the library's verdict on a (possibly tampered) object with the reference and the one-sided rule.
func judge(a alg, class, what string, wire []byte, ok bool, err error, p *probe.Panic, ref bool, tampered bool) {
	r.Evaluations.Add(1)
	repl := map[string]any{"alg": a.name, "class": class, "what": what, "wire_hex": hex.EncodeToString(wire)}
	if p != nil {
		r.Violation(p.Key(), fmt.Sprintf("%s %s (%s): Verify panics: %s in %s", a.name, class, what, p.Value, p.Frame), repl)
		return
	}
	if tampered && ok && err == nil {
		r.Violation("accepts-tampered:"+a.name+":"+class, fmt.Sprintf("%s: Verify returned true for %s (%s); wire %s", a.name, class, what, hx(wire)), repl)
		return
	}
	if ok && !ref {
		r.Violation("accepts-unlike-reference:"+a.name+":"+class, fmt.Sprintf("%s: Verify true but the reference verifier rejects (%s: %s)", a.name, class, what), repl)
	}
	if !tampered && !(ok && err == nil) {
		r.Violation("rejects-genuine:"+a.name+":"+class, fmt.Sprintf("%s: genuine object does not verify (%s: %s): ok=%v err=%v", a.name, class, what, ok, err), repl)
	}
	if !tampered && !ref {
		r.Violation("reference-rejects-genuine:"+a.name+":"+class, fmt.Sprintf("%s: the reference verifier rejects the library's genuine object (%s: %s) - encoding differs from RFC 8152", a.name, class, what), repl)
	}
	r.Distinct(a.name + class + what)
}

func flipBit(b []byte, i int) []byte {
	o := bytes.Clone(b)
	o[i/8] ^= 1 << (i % 8)
	return o
}

// rebuild re-encodes a Sign1 tag from parts.
func rebuild(prot []byte, unprot *rc.Item, payload *rc.Item, sig []byte) []byte {
	return rc.Encode(rc.Tg(18, rc.A(rc.Bs(prot), unprot, payload, rc.Bs(sig))))
}

func signCase[P any](a alg, class string, payload P, aad []byte, detached bool, bitLimit int) {
	pub := a.key.Public()
	s1 := cose.Sign1[P, []byte]{Payload: cbor.NewByteWrap(payload)}
	var err error
	var dp *P
	if detached {
		s1.Payload = nil
		dp = &payload
	}
	if p := probe.Call(func() { err = s1.Sign(a.key, dp, aad, a.opts) }); p != nil || err != nil {
		r.Violation("sign-fails:"+a.name, fmt.Sprintf("%s %s: Sign fails: %v %v", a.name, class, err, p), nil)
		return
	}
	wire, err := cbor.Marshal(s1.Tag())
	if err != nil {
		r.Violation("sign-fails:"+a.name, fmt.Sprintf("%s %s: Marshal fails: %v", a.name, class, err), nil)
		return
	}
	var rawPayload []byte
	if pb, isBytes := any(payload).([]byte); isBytes {
		rawPayload = pb
	} else {
		rawPayload, _ = cbor.Marshal(payload)
	}
	var refDet []byte
	if detached {
		refDet = rawPayload
		if refDet == nil {
			refDet = []byte{}
		}
	}
	it, _, _ := rc.Parse(wire)
	arr := it.Items[0]
	prot, unprot, pl, sig := arr.Items[0].B, arr.Items[1], arr.Items[2], arr.Items[3].B
	if a.n > 0 && len(sig) != 2*a.n {
		r.Violation("sig-width:"+a.name, fmt.Sprintf("%s: signature is %d bytes, RFC 8152 fixed width is %d", a.name, len(sig), 2*a.n), nil)
	}
	// genuine
	ok, verr, p := libVerify[P](wire, pub, dp, aad)
	judge(a, class, "genuine", wire, ok, verr, p, refVerify(wire, pub, refDet, aad), false)
	try := func(what string, w []byte, d *P, rd []byte, ad []byte, key crypto.PublicKey) {
		ok, verr, p := libVerify[P](w, key, d, ad)
		judge(a, class, what, w, ok, verr, p, refVerify(w, key, rd, ad), true)
	}
	// every bit of the signature
	for i := 0; i < len(sig)*8; i++ {
		if bitLimit > 0 && i >= bitLimit && i < len(sig)*8-bitLimit {
			continue
		}
		try(fmt.Sprintf("sigbit%d", i), rebuild(prot, unprot, pl, flipBit(sig, i)), dp, refDet, aad, pub)
	}
	// every bit of the protected header
	for i := 0; i < len(prot)*8; i++ {
		try(fmt.Sprintf("protbit%d", i), rebuild(flipBit(prot, i), unprot, pl, sig), dp, refDet, aad, pub)
	}
	// every bit of the payload (short payloads) — attached: in the wire; detached: in the argument
	if len(rawPayload) <= 64 {
		for i := 0; i < len(rawPayload)*8; i++ {
			if detached {
				if pb, isBytes := any(payload).([]byte); isBytes {
					alt := any(flipBit(pb, i)).(P)
					try(fmt.Sprintf("paybit%d", i), wire, &alt, flipBit(rawPayload, i), aad, pub)
				}
			} else {
				w := rebuild(prot, unprot, rc.Bs(flipBit(pl.B, i)), sig)
				// value level: a flipped bit that the decoder maps to the same payload value (text/byte string
				// interchange of equal content) changes nothing that was signed; counted, not demanded to fail
				var t cose.Sign1Tag[P, []byte]
				if err := cbor.Unmarshal(w, &t); err == nil && t.Payload != nil {
					if re, err := cbor.Marshal(t.Payload.Val); err == nil {
						if _, isBytes := any(payload).([]byte); !isBytes && bytes.Equal(re, rawPayload) {
							r.Add("value_preserving_reencodings_skipped", 1)
							continue
						}
					}
				}
				try(fmt.Sprintf("paybit%d", i), w, nil, nil, aad, pub)
			}
		}
	}
	// a caller that hands Verify the payload it is about to rely on although the object still carries one: the
	// payload given is the one that must have been signed (equal: verifies; differing in any bit: does not)
	if pb, isBytes := any(payload).([]byte); isBytes && !detached && len(pb) <= 64 {
		same := any(bytes.Clone(pb)).(P)
		if pb == nil {
			same = any([]byte{}).(P)
		}
		ok, verr, p := libVerify[P](wire, pub, &same, aad)
		judge(a, class, "supplied-payload-equal", wire, ok, verr, p, refVerify(wire, pub, nil, aad), false)
		for i := 0; i < len(pb)*8; i++ {
			alt := any(flipBit(pb, i)).(P)
			try(fmt.Sprintf("supplied-paybit%d", i), wire, &alt, nil, aad, pub)
		}
		longer := any(append(bytes.Clone(pb), 0)).(P)
		try("supplied-payload-longer", wire, &longer, nil, aad, pub)
		if len(pb) > 0 {
			shorter := any(bytes.Clone(pb[:len(pb)-1])).(P)
			try("supplied-payload-shorter", wire, &shorter, nil, aad, pub)
		}
	}
	// every bit of the external data, and presence/absence
	for i := 0; i < len(aad)*8; i++ {
		try(fmt.Sprintf("aadbit%d", i), wire, dp, refDet, flipBit(aad, i), pub)
	}
	if len(aad) > 0 {
		try("aad-dropped", wire, dp, refDet, nil, pub)
	} else {
		try("aad-added", wire, dp, refDet, []byte{0}, pub)
	}
	// foreign keys: same type, other size, other type
	for _, fk := range [][2]string{{"ec256", "stranger"}, {"ec384", "stranger"}, {"rsa2048", "stranger"}, {"rsa3072", "stranger"}, {"ec256", "mfg"}, {"rsa2048", "mfg"}} {
		try("foreignkey:"+fk[0]+"-"+fk[1], wire, dp, refDet, aad, keys.Get(fk[0], fk[1]).Public())
	}
	// signature lengths
	n2 := len(sig)
	for _, l := range []int{0, 1, 2, 3, n2/2 - 1, n2 / 2, n2/2 + 1, n2 - 2, n2 - 1, n2 + 1, n2 + 2, 2 * n2} {
		if l < 0 {
			continue
		}
		var s []byte
		if l <= n2 {
			s = sig[:l]
		} else {
			s = append(bytes.Clone(sig), make([]byte, l-n2)...)
		}
		try(fmt.Sprintf("siglen%d", l), rebuild(prot, unprot, pl, s), dp, refDet, aad, pub)
		if l > n2 { // zero-padding in front of r and s (same integers, impossible length)
			pad := (l - n2 + 1) / 2
			s2 := append(append(append(make([]byte, pad), sig[:n2/2]...), make([]byte, pad)...), sig[n2/2:]...)
			try(fmt.Sprintf("sigpad%d", pad), rebuild(prot, unprot, pl, s2), dp, refDet, aad, pub)
		}
	}
	// algorithm identifiers
	for _, id := range []*rc.Item{rc.N(6), rc.N(34), rc.N(35), rc.N(256), rc.N(257), rc.N(258), rc.N(36), rc.N(37), rc.N(38), rc.U(0), rc.U(1), rc.N(0), rc.U(5), rc.U(999), rc.N(998), rc.U(1 << 40), rc.N(1<<63 - 1), rc.T("ES256"), rc.Bs([]byte{1}), rc.Null()} {
		if (id.Kind == rc.Nint && -int64(id.U)-1 == a.id) || (id.Kind == rc.Uint && int64(id.U) == a.id) {
			continue
		}
		try("alg<-"+id.String(), rebuild(rc.Encode(rc.M(rc.U(1), id)), unprot, pl, sig), dp, refDet, aad, pub)
	}
	try("alg-missing", rebuild(nil, unprot, pl, sig), dp, refDet, aad, pub)
	try("alg-in-unprotected-only", rebuild(nil, rc.M(rc.U(1), rc.Int(a.id)), pl, sig), dp, refDet, aad, pub)
	try("protected-extra-label", rebuild(rc.Encode(rc.M(rc.U(1), rc.Int(a.id), rc.U(4), rc.Bs([]byte{1}))), unprot, pl, sig), dp, refDet, aad, pub)
	// an entry of every value class slipped into the protected header under labels nobody uses: the protected bytes
	// differ from what was signed whatever the value means to the receiver
	for _, lbl := range []*rc.Item{rc.U(99), rc.N(98), rc.T("x")} {
		for vn, v := range map[string]*rc.Item{"null": rc.Null(), "false": rc.Bool(false), "zero": rc.U(0), "empty-bstr": rc.Bs(nil), "empty-tstr": rc.T(""), "empty-array": rc.A(), "empty-map": rc.M()} {
			try("protected-extra:"+lbl.String()+":"+vn, rebuild(rc.Encode(rc.M(rc.U(1), rc.Int(a.id), lbl, v)), unprot, pl, sig), dp, refDet, aad, pub)
		}
	}
	if !detached {
		try("payload-null", rebuild(prot, unprot, rc.Null(), sig), nil, nil, aad, pub)
	}
}

// scriptedSigner returns an ASN.1 signature with chosen (r, s): the RFC 8152 conversion of COSE (fixed-width r||s) is
// a function of (r, s) alone, so its width rule can be enumerated for every number of leading zero octets without
// waiting for a real signature that happens to have them (two leading zero octets: one signature in 32768).
type scriptedSigner struct {
	pub  *ecdsa.PublicKey
	r, s *big.Int
}

func (k scriptedSigner) Public() crypto.PublicKey { return k.pub }
func (k scriptedSigner) Sign(io.Reader, []byte, crypto.SignerOpts) ([]byte, error) {
	return asn1.Marshal(struct{ R, S *big.Int }{k.r, k.s})
}

// fixedWidth: for every pair (zr, zs) of leading-zero-octet counts 0..n of r and s, COSE's signature is exactly
// 2n octets: r and s each left-padded to n octets.
func fixedWidth(a alg) {
	pub, ok := a.key.Public().(*ecdsa.PublicKey)
	if !ok {
		return
	}
	n := a.n
	for zr := 0; zr <= n; zr++ {
		for zs := 0; zs <= n; zs++ {
			if (zr == n) != (zs == n) && zr != 0 && zs != 0 {
				continue
			}
			mk := func(z int, seed byte) *big.Int {
				b := make([]byte, n)
				for i := z; i < n; i++ {
					b[i] = seed + byte(i)
					if i == z && b[i] == 0 {
						b[i] = 1
					}
				}
				return new(big.Int).SetBytes(b)
			}
			rr, ss := mk(zr, 0x11), mk(zs, 0x31)
			r.Evaluations.Add(1)
			var sig []byte
			var err error
			p := probe.Call(func() { sig, err = cose.RFC8152Signer{Signer: scriptedSigner{pub, rr, ss}}.Sign(rand.Reader, make([]byte, 32), nil) })
			what := fmt.Sprintf("%s: r with %d and s with %d leading zero octets", a.name, zr, zs)
			repl := map[string]any{"alg": a.name, "class": "fixed-width", "r": rr.Text(16), "s": ss.Text(16)}
			switch {
			case p != nil:
				r.Violation(p.Key(), what+": RFC8152Signer.Sign panics: "+p.Value, repl)
			case err != nil:
				r.Violation("sig-width:"+a.name, what+": RFC8152Signer.Sign fails: "+err.Error(), repl)
			default:
				want := append(rr.FillBytes(make([]byte, n)), ss.FillBytes(make([]byte, n))...)
				if !bytes.Equal(sig, want) {
					r.Violation("sig-width:"+a.name, fmt.Sprintf("%s: COSE signature is %d octets %x, RFC 8152 fixed width gives %d octets %x", what, len(sig), sig, len(want), want), repl)
				}
			}
			r.Distinct(fmt.Sprintf("%s|fixed-width|%d|%d", a.name, zr, zs))
		}
	}
}

// leadingZeroSignatures: bounded witness search for ECDSA signatures whose r or s has leading zero bytes.
func leadingZeroSignatures(a alg, tries int) {
	found := 0
	for i := 0; i < tries && found < 4; i++ {
		payload := []byte(fmt.Sprintf("witness-%d", i))
		s1 := cose.Sign1[[]byte, []byte]{Payload: cbor.NewByteWrap(payload)}
		if err := s1.Sign(a.key, nil, nil, nil); err != nil {
			continue
		}
		sig := s1.Signature
		if len(sig) != 2*a.n {
			r.Violation("sig-width:"+a.name, fmt.Sprintf("%s: signature is %d bytes, RFC 8152 fixed width is %d", a.name, len(sig), 2*a.n), map[string]any{"sig": hex.EncodeToString(sig)})
			continue
		}
		if sig[0] != 0 && sig[a.n] != 0 {
			r.Evaluations.Add(1)
			continue
		}
		found++
		signCaseFromSigned(a, "leading-zero-rs", s1, payload)
	}
	r.Add("leading_zero_signature_witnesses_"+a.name, int64(found))
	if found == 0 {
		r.Capped(fmt.Sprintf("%s: no signature with a leading zero byte in r or s within %d tries", a.name, tries))
	}
}

func signCaseFromSigned(a alg, class string, s1 cose.Sign1[[]byte, []byte], payload []byte) {
	wire, _ := cbor.Marshal(s1.Tag())
	pub := a.key.Public()
	ok, verr, p := libVerify[[]byte](wire, pub, nil, nil)
	judge(a, class, "genuine", wire, ok, verr, p, refVerify(wire, pub, nil, nil), false)
	it, _, _ := rc.Parse(wire)
	arr := it.Items[0]
	prot, unprot, pl, sig := arr.Items[0].B, arr.Items[1], arr.Items[2], arr.Items[3].B
	for i := 0; i < len(sig)*8; i++ {
		w := rebuild(prot, unprot, pl, flipBit(sig, i))
		ok, verr, p := libVerify[[]byte](w, pub, nil, nil)
		judge(a, class, fmt.Sprintf("sigbit%d", i), w, ok, verr, p, refVerify(w, pub, nil, nil), true)
	}
	// strip the leading zero byte(s): impossible length
	for _, s := range [][]byte{sig[1:], append(bytes.Clone(sig[:a.n]), sig[a.n+1:]...)} {
		w := rebuild(prot, unprot, pl, s)
		ok, verr, p := libVerify[[]byte](w, pub, nil, nil)
		judge(a, class, fmt.Sprintf("stripped-len%d", len(s)), w, ok, verr, p, refVerify(w, pub, nil, nil), true)
	}
}

// ---- Mac0 ----

func refMac(h func() hash.Hash, key, prot, aad, payload []byte) []byte {
	m := hmac.New(h, key)
	m.Write(rc.Encode(rc.A(rc.T("MAC0"), rc.Bs(prot), rc.Bs(aad), rc.Bs(payload))))
	return m.Sum(nil)
}

// callerVerify mirrors how the library's own caller (kex.SessionCrypter.Decrypt) checks a Mac0: decode, recompute with
// the expected algorithm and key, compare with the received tag.
func callerVerify(wire []byte, algID cose.MacAlgorithm, key, aad []byte) (ok bool, p *probe.Panic) {
	p = probe.Call(func() {
		var t cose.Mac0Tag[[]byte, []byte]
		if err := cbor.Unmarshal(wire, &t); err != nil {
			return
		}
		got := t.Value
		if err := t.Mac0.Digest(algID, key, nil, aad); err != nil {
			return
		}
		ok = bytes.Equal(got, t.Value)
	})
	return
}

func macCases() {
	for _, m := range []struct {
		name string
		id   cose.MacAlgorithm
		h    func() hash.Hash
		klen int
	}{{"HMAC256", cose.HMac256, sha256.New, 16}, {"HMAC384", cose.HMac384, sha512.New384, 32}} {
		a := alg{name: m.name}
		key := bytes.Repeat([]byte{0x5a}, m.klen)
		for _, payload := range [][]byte{{}, {1}, bytes.Repeat([]byte{7}, 32)} {
			for _, aad := range [][]byte{nil, bytes.Repeat([]byte{9}, 16)} {
				class := fmt.Sprintf("mac-pay%d-aad%d", len(payload), len(aad))
				m0 := cose.Mac0[[]byte, []byte]{Payload: cbor.NewByteWrap(payload)}
				if err := m0.Digest(m.id, key, nil, aad); err != nil {
					r.Violation("mac-fails:"+m.name, err.Error(), nil)
					continue
				}
				wire, _ := cbor.Marshal(m0.Tag())
				it, _, _ := rc.Parse(wire)
				arr := it.Items[0]
				prot, unprot, pl, tag := arr.Items[0].B, arr.Items[1], arr.Items[2], arr.Items[3].B
				if want := refMac(m.h, key, prot, aad, payload); !bytes.Equal(want, tag) {
					r.Violation("mac-differs-from-reference:"+m.name, fmt.Sprintf("%s tag %x, RFC 8152 reference %x", m.name, tag, want), nil)
				}
				mk := func(prot []byte, pl *rc.Item, tag []byte) []byte {
					return rc.Encode(rc.Tg(17, rc.A(rc.Bs(prot), unprot, pl, rc.Bs(tag))))
				}
				check := func(what string, w, k, ad []byte, tampered bool) {
					r.Evaluations.Add(1)
					ok, p := callerVerify(w, m.id, k, ad)
					repl := map[string]any{"alg": m.name, "class": class, "what": what, "wire_hex": hex.EncodeToString(w)}
					switch {
					case p != nil:
						r.Violation(p.Key(), fmt.Sprintf("%s %s: Mac0 check panics: %s in %s", m.name, what, p.Value, p.Frame), repl)
					case tampered && ok:
						r.Violation("mac-accepts-tampered:"+m.name+":"+classOf(what), fmt.Sprintf("%s: recomputed tag equals the received tag although %s differs", m.name, what), repl)
					case !tampered && !ok:
						r.Violation("mac-rejects-genuine:"+m.name, fmt.Sprintf("%s: genuine Mac0 does not verify (%s)", m.name, class), repl)
					}
					r.Distinct(a.name + class + what)
				}
				check("genuine", wire, key, aad, false)
				for i := 0; i < len(tag)*8; i++ {
					check(fmt.Sprintf("tagbit%d", i), mk(prot, pl, flipBit(tag, i)), key, aad, true)
				}
				for i := 0; i < len(payload)*8; i++ {
					check(fmt.Sprintf("paybit%d", i), mk(prot, rc.Bs(flipBit(pl.B, i)), tag), key, aad, true)
				}
				for i := 0; i < len(aad)*8; i++ {
					check(fmt.Sprintf("aadbit%d", i), wire, key, flipBit(aad, i), true)
				}
				for i := 0; i < len(key)*8; i++ {
					check(fmt.Sprintf("keybit%d", i), wire, flipBit(key, i), aad, true)
				}
				for _, l := range []int{0, 1, len(tag) - 1, len(tag) + 1} {
					t := append(bytes.Clone(tag), 0)[:l]
					check(fmt.Sprintf("taglen%d", l), mk(prot, pl, t), key, aad, true)
				}
			}
		}
	}
}

func classOf(what string) string {
	for i, c := range what {
		if c >= '0' && c <= '9' {
			return what[:i]
		}
	}
	return what
}

// sessionMacCases drives the real caller: kex.SessionCrypter.Decrypt for the encrypt-then-MAC suites, flipping
// every bit of the Mac0 protected header.
func sessionMacCases() {
	for _, c := range []kex.CipherSuiteID{kex.CoseAes128CtrCipher, kex.CoseAes128CbcCipher, kex.CoseAes256CtrCipher, kex.CoseAes256CbcCipher} {
		suite := c.Suite()
		sc := kex.SessionCrypter{ID: c, Cipher: suite, SEK: bytes.Repeat([]byte{1}, int(suite.EncryptAlg.KeySize())), SVK: bytes.Repeat([]byte{2}, int(suite.MacAlg.KeySize()))}
		enc, err := sc.Encrypt(rand.Reader, []byte("hello world"))
		if err != nil {
			continue
		}
		wire, _ := cbor.Marshal(enc)
		plain, err := sc.Decrypt(rand.Reader, bytes.NewReader(wire))
		want, _ := cbor.Marshal([]byte("hello world"))
		if err != nil || !bytes.Equal(plain, want) {
			r.Violation("session-mac-genuine:"+c.String(), fmt.Sprintf("genuine message does not decrypt: %v", err), nil)
			continue
		}
		it, _, _ := rc.Parse(wire)
		arr := it.Items[0]
		prot := arr.Items[0].B
		for i := 0; i < len(prot)*8; i++ {
			r.Evaluations.Add(1)
			w := rc.Encode(rc.Tg(17, rc.A(rc.Bs(flipBit(prot, i)), arr.Items[1], arr.Items[2], arr.Items[3])))
			var out []byte
			var derr error
			if p := probe.Call(func() { out, derr = sc.Decrypt(rand.Reader, bytes.NewReader(w)) }); p != nil {
				r.Violation(p.Key(), fmt.Sprintf("%s: Decrypt panics on Mac0 protected header bit %d: %s", c, i, p.Value), map[string]any{"wire_hex": hex.EncodeToString(w)})
				continue
			}
			if derr == nil {
				r.Violation("mac0-protected-header-unauthenticated:"+c.String(), fmt.Sprintf("%s: SessionCrypter.Decrypt accepted a COSE_Mac0 whose protected header differs in bit %d (%x vs %x); output %x", c, i, flipBit(prot, i), prot, out), map[string]any{"wire_hex": hex.EncodeToString(w), "bit": i})
			}
		}
	}
}

func main() {
	r = ev.Start("C13", "exploration")
	r.Rule("for ES256, ES384, RS256, RS384, PS256, PS384: payload classes {empty, 1 byte, 32 bytes, nested CBOR struct, 4 KiB (thorough)} x external data {none, 16 bytes} x {attached, detached}; sign, encode, decode, verify with the real code and with an independent RFC 8152 verifier; then every single bit of signature, protected header, payload (<=64 bytes) and external data, 6 foreign keys, 12 signature lengths incl. zero-padded r/s, 20 other/unregistered/ill-typed algorithm ids, missing alg, alg only in the unprotected map, extra protected label, null payload; ECDSA leading-zero r/s witnesses by bounded search; Mac0 HMAC-256/384: every bit of tag, payload, external data and key and 4 tag lengths through the caller's recompute-and-compare (Mac0.Digest + compare, as kex.SessionCrypter does), and every bit of the Mac0 protected header through the real caller kex.SessionCrypter.Decrypt for the four encrypt-then-MAC suites. Payload bit flips that the decoder maps to the identical payload value are counted and not demanded to fail (value level). A case is one verification; distinct = distinct (alg,class,mutation). Reused receivers: for every ordered pair of 8 Sign1 objects per algorithm (genuine ones with {alg}, {alg, extra label} + unprotected label, another payload; the same signatures under protected headers with the label removed / emptied / added; null payload) and of 3 Mac0 objects per MAC algorithm, the second is decoded into the variable that already holds the first: the verdict must be the reference's verdict for the second message alone.")
	var wg sync.WaitGroup
	for _, a := range algs() {
		wg.Add(1)
		go func() {
			defer wg.Done()
			limit := 0
			if r.Quick() && a.n == 0 {
				limit = 256 // RSA signatures: first and last 256 bits in quick, all bits in thorough
			}
			aads := [][]byte{nil, bytes.Repeat([]byte{3}, 16)}
			for _, aad := range aads {
				for _, det := range []bool{false, true} {
					tag := fmt.Sprintf("aad%d-det%v", len(aad), det)
					signCase(a, "bytes0-"+tag, []byte{}, aad, det, limit)
					signCase(a, "bytes1-"+tag, []byte{0x42}, aad, det, limit)
					signCase(a, "bytes32-"+tag, bytes.Repeat([]byte{0xa5}, 32), aad, det, limit)
					signCase(a, "struct-"+tag, inner{A: -1, B: []byte{1, 2}, C: []string{"x", ""}}, aad, det, limit)
					if !r.Quick() {
						signCase(a, "bytes4096-"+tag, bytes.Repeat([]byte{0x11}, 4096), aad, det, limit)
					}
				}
			}
			reusedSign1(a)
			if a.n > 0 {
				tries := 3000
				if !r.Quick() {
					tries = 20000
				}
				leadingZeroSignatures(a, tries)
				fixedWidth(a)
			}
		}()
	}
	wg.Add(3)
	go func() { defer wg.Done(); reusedMac0() }()
	go func() { defer wg.Done(); macCases() }()
	go func() { defer wg.Done(); sessionMacCases() }()
	wg.Wait()
	r.Sample(3, map[string]any{"alg": "ES256", "class": "bytes32-aad16-detfalse", "mutation": "sigbit17"})
	r.Sample(3, map[string]any{"alg": "PS384", "class": "struct-aad0-dettrue", "mutation": "alg<--7"})
	r.Assume("stdlib ecdsa/rsa/hmac are trusted; the reference verifier implements RFC 8152 Sig_structure / MAC_structure over the protected header bytes as received")
	r.Finish()
}
