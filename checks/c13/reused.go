package main

// Reused receivers: a verifier that keeps one cose.Sign1 / cose.Mac0 variable and decodes message after message
// into it (a server loop, a pooled object) must get, for every message, the verdict a fresh variable gives: what was
// decoded before is not part of "what was signed". For every ordered pair (first, second) of a family of objects
// that share signatures but differ in protected / unprotected labels, payload and signature, `second` is decoded
// into the variable that already holds `first` and verified; the verdict must equal the reference's verdict for
// `second` alone (and the fresh-variable verdict).

import (
	"bytes"
	"crypto"
	"encoding/hex"
	"fmt"
	"hash"

	"github.com/fido-device-onboard/go-fdo/cbor"
	"github.com/fido-device-onboard/go-fdo/cose"

	"verif/internal/probe"
	rc "verif/internal/refcbor"
)

type reuseSample struct {
	name string
	wire []byte // untagged COSE_Sign1 / COSE_Mac0 array
}

func reusedSign1(a alg) {
	pub := a.key.Public()
	mk := func(prot cose.HeaderMap, unprot cose.HeaderMap, payload []byte) ([]byte, bool) {
		s1 := cose.Sign1[[]byte, []byte]{Header: cose.Header{Protected: prot, Unprotected: unprot}, Payload: cbor.NewByteWrap(payload)}
		if err := s1.Sign(a.key, nil, nil, a.opts); err != nil {
			r.Violation("sign-fails:"+a.name, fmt.Sprintf("%s reused-receiver family: %v", a.name, err), nil)
			return nil, false
		}
		w, err := cbor.Marshal(s1)
		return w, err == nil
	}
	parts := func(w []byte) (prot []byte, unprot, pl *rc.Item, sig []byte) {
		it, _, _ := rc.Parse(w)
		return it.Items[0].B, it.Items[1], it.Items[2], it.Items[3].B
	}
	build := func(prot []byte, unprot, pl *rc.Item, sig []byte) []byte {
		return rc.Encode(rc.A(rc.Bs(prot), unprot, pl, rc.Bs(sig)))
	}
	plain, ok1 := mk(nil, nil, []byte("payload-1"))
	extra, ok2 := mk(cose.HeaderMap{cose.Label{Int64: 300}: []byte("bound")}, cose.HeaderMap{cose.Label{Int64: 301}: int64(7)}, []byte("payload-1"))
	other, ok3 := mk(cose.HeaderMap{cose.Label{Int64: 300}: []byte("other")}, nil, []byte("payload-2"))
	if !ok1 || !ok2 || !ok3 {
		return
	}
	pp, pu, ppl, psig := parts(plain)
	ep, eu, epl, esig := parts(extra)
	_, _, _, _ = pu, ppl, eu, epl
	algOnly := pp // protected header of `plain`: {alg}
	samples := []reuseSample{
		{"genuine {alg}", plain},
		{"genuine {alg, 300} + unprotected 301", extra},
		{"genuine {alg, 300'} other payload", other},
		{"signature of {alg,300} under protected {alg}", build(algOnly, eu, epl, esig)},
		{"signature of {alg,300} under empty protected", build(nil, eu, epl, esig)},
		{"signature of {alg} under protected {alg,300}", build(ep, pu, ppl, psig)},
		{"signature of {alg} under empty protected", build(nil, pu, ppl, psig)},
		{"signature of {alg} with null payload", build(pp, pu, rc.Null(), psig)},
	}
	verdict := func(first, second []byte) (ok bool, err error, p *probe.Panic) {
		p = probe.Call(func() {
			var t cose.Sign1[[]byte, []byte]
			if first != nil {
				_ = cbor.Unmarshal(first, &t)
			}
			if err = cbor.Unmarshal(second, &t); err != nil {
				return
			}
			ok, err = t.Verify(pub, nil, nil)
		})
		return
	}
	for _, second := range samples {
		ref := refVerify(second.wire, pub, nil, nil)
		fresh, _, fp := verdict(nil, second.wire)
		if fp != nil {
			continue // panics on single messages are the subject of the main families
		}
		for _, first := range samples {
			r.Evaluations.Add(1)
			ok, err, p := verdict(first.wire, second.wire)
			repl := map[string]any{"alg": a.name, "class": "reused-receiver", "first_hex": hex.EncodeToString(first.wire), "second_hex": hex.EncodeToString(second.wire)}
			what := fmt.Sprintf("%s: %q decoded into the variable that held %q", a.name, second.name, first.name)
			switch {
			case p != nil:
				r.Violation(p.Key(), fmt.Sprintf("%s: panics: %s in %s", what, p.Value, p.Frame), repl)
			case ok && !ref:
				r.Violation("reused-receiver:accepts:"+a.name, fmt.Sprintf("%s: Verify returns true; the reference rejects the second message (fresh variable: %v)", what, fresh), repl)
			case !ok && ref && fresh:
				r.Violation("reused-receiver:rejects-genuine:"+a.name, fmt.Sprintf("%s: Verify returns false (%v); a fresh variable and the reference accept it", what, err), repl)
			}
			r.Distinct(fmt.Sprintf("reuse|%s|%s|%s|%v", a.name, first.name, second.name, ok))
		}
	}
}

func reusedMac0() {
	for _, m := range []struct {
		name string
		id   cose.MacAlgorithm
		h    func() hash.Hash
		klen int
	}{{"HMAC256", cose.HMac256, nil, 16}, {"HMAC384", cose.HMac384, nil, 32}} {
		key := bytes.Repeat([]byte{0x5a}, m.klen)
		mk := func(prot cose.HeaderMap, payload []byte) []byte {
			m0 := cose.Mac0[[]byte, []byte]{Header: cose.Header{Protected: prot}, Payload: cbor.NewByteWrap(payload)}
			if err := m0.Digest(m.id, key, nil, nil); err != nil {
				return nil
			}
			w, _ := cbor.Marshal(m0)
			return w
		}
		samples := []reuseSample{
			{"genuine {alg}", mk(nil, []byte("p1"))},
			{"genuine {alg, 300}", mk(cose.HeaderMap{cose.Label{Int64: 300}: []byte("bound")}, []byte("p1"))},
			{"genuine {alg, 300, 302}", mk(cose.HeaderMap{cose.Label{Int64: 300}: []byte("x"), cose.Label{Int64: 302}: int64(-1)}, []byte("p2"))},
		}
		verdict := func(first, second []byte) (ok bool, p *probe.Panic) {
			p = probe.Call(func() {
				var t cose.Mac0[[]byte, []byte]
				if first != nil {
					_ = cbor.Unmarshal(first, &t)
				}
				if err := cbor.Unmarshal(second, &t); err != nil {
					return
				}
				got := t.Value
				if err := t.Digest(m.id, key, nil, nil); err != nil {
					return
				}
				ok = bytes.Equal(got, t.Value)
			})
			return
		}
		for _, second := range samples {
			if second.wire == nil {
				r.Violation("mac-fails:"+m.name, "reused-receiver family: Digest fails", nil)
				continue
			}
			for _, first := range samples {
				r.Evaluations.Add(1)
				ok, p := verdict(first.wire, second.wire)
				repl := map[string]any{"alg": m.name, "class": "reused-receiver", "first_hex": hex.EncodeToString(first.wire), "second_hex": hex.EncodeToString(second.wire)}
				what := fmt.Sprintf("%s: %q decoded into the variable that held %q", m.name, second.name, first.name)
				if p != nil {
					r.Violation(p.Key(), fmt.Sprintf("%s: panics: %s in %s", what, p.Value, p.Frame), repl)
				} else if !ok {
					r.Violation("reused-receiver:mac-rejects-genuine:"+m.name, what+": the recomputed tag differs from the received tag of a genuine message", repl)
				}
				r.Distinct(fmt.Sprintf("reuse|%s|%s|%s|%v", m.name, first.name, second.name, ok))
			}
		}
	}
}

var _ crypto.Hash
