// C02 — the owner serves only a peer that proved the device key for this session.
//
// Deviation-bounded exploration of the adversarial TO2 client against the real http.Handler + TO2Server:
// one deviation per run on what the owner receives (mutated genuine messages, forged and replayed ProveDevice
// tokens, later messages without or with self-chosen protection), judged per session by an independent
// reference predicate on the bytes the owner received.
package main

import (
	"bytes"
	"context"
	"crypto"
	"crypto/rand"
	"crypto/rsa"
	"encoding/hex"
	"fmt"
	"strings"
	"sync"

	fdo "github.com/fido-device-onboard/go-fdo"
	"github.com/fido-device-onboard/go-fdo/cbor"
	"github.com/fido-device-onboard/go-fdo/cose"
	"github.com/fido-device-onboard/go-fdo/kex"
	"github.com/fido-device-onboard/go-fdo/protocol"
	"github.com/fido-device-onboard/go-fdo/serviceinfo"

	"verif/internal/cbormut"
	"verif/internal/ev"
	"verif/internal/keys"
	"verif/internal/lab"
	"verif/internal/probe"
	rc "verif/internal/refcbor"
	rv "verif/internal/refverify"
)

var r *ev.Run

type env struct {
	kind   keys.Kind
	suite  kex.Suite
	cipher kex.CipherSuiteID
	w      *lab.World
	ov     []byte
	dev2   *lab.Device
	ov2    []byte
}

func newEnv(k keys.Kind, suite kex.Suite, c kex.CipherSuiteID) (*env, error) {
	ctx := context.Background()
	w := lab.NewWorld(k, protocol.X509KeyEnc)
	if _, err := w.Manufacture(ctx, 1); err != nil {
		return nil, err
	}
	e := &env{kind: k, suite: suite, cipher: c, w: w}
	e.ov, _ = w.Owner.Mem.VoucherBytes(w.Dev.Cred.GUID)
	e.dev2 = lab.NewDevice(k, protocol.X509KeyEnc, "device2")
	if err := e.dev2.DI(ctx, w.WMfg.Transport()); err != nil {
		return nil, err
	}
	if _, err := lab.Transfer(ctx, w.Mfg, w.Owner, k, e.dev2.Cred.GUID); err != nil {
		return nil, err
	}
	e.ov2, _ = w.Owner.Mem.VoucherBytes(e.dev2.Cred.GUID)
	return e, nil
}

// owner builds a fresh owner instance holding both vouchers and one scripted module.
func (e *env) owner(rec *lab.Recorder) *lab.Server {
	ow := lab.NewMemServer("owner", "owner1")
	for _, b := range [][]byte{e.ov, e.ov2} {
		var ov fdo.Voucher
		_ = cbor.Unmarshal(b, &ov)
		_ = ow.State.AddVoucher(context.Background(), &ov)
	}
	ow.Mem.OwnerModules = func(context.Context, protocol.GUID, serviceinfo.Devmod, []string) []lab.NamedModule {
		return []lab.NamedModule{{Name: "vmod", Mod: &lab.OwnerScript{Name: "vmod", Rec: rec, Rounds: [][]lab.Msg{{{Name: "secret", Body: []byte{0x43, 's', 'e', 'c'}}}}}}}
	}
	return ow
}

func (e *env) devCfg(d *lab.Device, rec *lab.Recorder) fdo.TO2Config {
	cfg := d.TO2Config(e.suite, e.cipher)
	cfg.DeviceModules = map[string]serviceinfo.DeviceModule{"vmod": &lab.DeviceRec{Name: "vmod", Rec: rec}}
	return cfg
}

// session is what one token's session looked like from the owner's side.
type session struct {
	token  string
	reqs   []*lab.Exchange
	nonce  []byte // CUPHNonce the owner issued in 61
	guid   []byte // GUID named in the accepted 60
	served []int  // response types >= 65 (other than 255)
}

type result struct {
	sessions map[string]*session
	order    []string
	effects  []lab.Effect
	modCalls int
	wire     *lab.Wire
	ow       *lab.Server
}

// collect groups the wire log by session token (the token the server assigned or the one the request carried).
func collect(wire *lab.Wire, ow *lab.Server, rec *lab.Recorder, jl int) result {
	res := result{sessions: map[string]*session{}, wire: wire, ow: ow}
	for _, x := range wire.Log {
		tok := x.ReqHeader.Get("Authorization")
		if x.MsgType == 60 {
			tok = x.RespHeader.Get("Authorization")
		}
		if tok == "" {
			tok = fmt.Sprintf("(none#%d)", x.Idx)
		}
		s, ok := res.sessions[tok]
		if !ok {
			s = &session{token: tok}
			res.sessions[tok] = s
			res.order = append(res.order, tok)
		}
		s.reqs = append(s.reqs, x)
		if x.MsgType == 60 && x.RespType == 61 {
			if h, _, err := rc.Parse(x.ReqBody); err == nil && h.Kind == rc.Array && len(h.Items) == 6 {
				s.guid = h.Items[1].B
			}
			if it, _, err := rc.Parse(x.RespBody); err == nil {
				if s1, err := rv.ParseSign1(it, true); err == nil {
					if n := s1.UnprotectedGet(256); n != nil {
						s.nonce = n.B
						if k, w := fresh.Note("TO2.ProveOVHdr (nonce for ProveDevice)", n.B); k != "" {
							r.Violation(k, w, nil)
						}
					}
				}
			}
		}
		if x.RespType >= 65 && x.RespType != 255 {
			s.served = append(s.served, x.RespType)
		}
	}
	for _, ef := range ow.Mem.JournalSince(jl) {
		if ef.Kind == "ReplaceVoucher" {
			res.effects = append(res.effects, ef)
		}
	}
	res.modCalls = rec.Count("owner", "")
	return res
}

// refQ: did the owner receive, in this session, a ProveDevice token that proves the device key for it?
func (e *env) refQ(s *session) (bool, string) {
	if len(s.nonce) == 0 || len(s.guid) == 0 {
		return false, "no ProveOVHdr was issued in this session"
	}
	var ovb []byte
	switch {
	case bytes.Equal(s.guid, e.w.Dev.Cred.GUID[:]):
		ovb = e.ov
	case bytes.Equal(s.guid, e.dev2.Cred.GUID[:]):
		ovb = e.ov2
	default:
		return false, "session GUID names no voucher"
	}
	ovi, _, _ := rc.Parse(ovb)
	v, err := rv.ParseVoucher(ovi)
	if err != nil {
		return false, err.Error()
	}
	dk, err := v.DeviceKey()
	if err != nil {
		return false, err.Error()
	}
	why := "no ProveDevice in this session"
	for _, x := range s.reqs {
		if x.MsgType != 64 {
			continue
		}
		// value level: normalise through the codec
		var norm cose.Sign1Tag[cbor.RawBytes, []byte]
		if err := cbor.Unmarshal(x.ReqBody, &norm); err != nil || norm.Payload == nil {
			why = "ProveDevice not decodable"
			continue
		}
		var eat fdo.XEatoken
		if err := cbor.Unmarshal([]byte(norm.Payload.Val), &eat); err != nil {
			why = "EAT not decodable"
			continue
		}
		pb, _ := cbor.Marshal(eat)
		norm.Payload.Val = pb
		nb, _ := cbor.Marshal(norm)
		it, _, err := rc.Parse(nb)
		if err != nil {
			continue
		}
		s1, err := rv.ParseSign1(it, true)
		if err != nil || s1.Payload == nil {
			why = "ProveDevice is not a COSE_Sign1"
			continue
		}
		if !s1.Verify(dk, nil) {
			why = "ProveDevice is not signed with the voucher's device key"
			continue
		}
		nonce, ueid, fdoClaim, err := rv.EAT(s1.Payload)
		if err != nil {
			why = err.Error()
			continue
		}
		if !bytes.Equal(nonce, s.nonce) {
			why = "EAT nonce is not the one the owner issued in this session"
			continue
		}
		if !bytes.Equal(ueid, append([]byte{1}, s.guid...)) {
			why = "UEID does not name the session's GUID"
			continue
		}
		if fdoClaim == nil || fdoClaim.Kind != rc.Array || len(fdoClaim.Items) != 1 || fdoClaim.Items[0].Kind != rc.Bytes {
			why = "no key-exchange parameter in the token"
			continue
		}
		if n := s1.UnprotectedGet(-259); n == nil {
			why = "no SetupDevice nonce"
			continue
		}
		return true, ""
	}
	return false, why
}

var fresh lab.Fresh

func (e *env) judge(class, what string, res result, honestTok string) {
	r.Evaluations.Add(1)
	anyProved := false
	for _, tok := range res.order {
		s := res.sessions[tok]
		ok, why := e.refQ(s)
		anyProved = anyProved || ok
		if len(s.served) > 0 && strings.Contains(what, "genuine-64-of-another-session") {
			r.Violation("served-on-replayed-proof:"+class, fmt.Sprintf("%s %s/%s %s (%s): owner answered %v to a ProveDevice recorded in another session", e.kind.Name, e.suite, e.cipher, class, what, s.served), map[string]any{"class": class, "what": what})
		}
		if len(s.served) > 0 && !ok {
			var hx []string
			for _, x := range s.reqs {
				hx = append(hx, fmt.Sprintf("%d:%s->%d", x.MsgType, hex.EncodeToString(x.ReqBody), x.RespType))
			}
			r.Violation("served-without-proof:"+class, fmt.Sprintf("%s %s/%s %s (%s): owner answered %v in a session where the reference predicate fails: %s", e.kind.Name, e.suite, e.cipher, class, what, s.served, why),
				map[string]any{"kind": e.kind.Name, "suite": string(e.suite), "cipher": e.cipher.String(), "class": class, "what": what, "session": hx})
		}
		r.Distinct(fmt.Sprintf("%s|%s|%v|%v|%s", e.kind.Name, class, s.served, ok, why))
	}
	if (len(res.effects) > 0 || res.modCalls > 0) && !anyProved {
		r.Violation("effect-without-proof:"+class, fmt.Sprintf("%s %s (%s): %d voucher replacements and %d owner-module calls although no session proved the device key", e.kind.Name, class, what, len(res.effects), res.modCalls), map[string]any{"class": class, "what": what})
	}
}

// honest runs the real device against a fresh owner, optionally mutating one of its requests in flight.
func (e *env) deviceRun(mutType, mutIdx int, mut func([]byte) []byte) (result, *fdo.DeviceCredential, error, bool) {
	rec := &lab.Recorder{}
	ow := e.owner(rec)
	wire := lab.NewWire(ow)
	seen := map[int]int{}
	applied := false
	wire.Pre = func(x *lab.Exchange) {
		i := seen[x.MsgType]
		seen[x.MsgType]++
		if mut != nil && x.MsgType == mutType && i == mutIdx {
			if nb := mut(x.ReqBody); nb != nil && !bytes.Equal(nb, x.ReqBody) {
				x.ReqBody, applied = nb, true
			}
		}
	}
	jl := ow.Mem.JournalLen()
	var cred *fdo.DeviceCredential
	var err error
	if p := probe.Call(func() { cred, err = fdo.TO2(context.Background(), wire.Transport(), nil, e.devCfg(e.w.Dev, rec)) }); p != nil {
		r.Violation(p.Key(), "TO2 run panics: "+p.Value+" in "+p.Frame, nil)
		err = fmt.Errorf("panic")
	}
	return collect(wire, ow, rec, jl), cred, err, applied
}

// adversary drives raw messages.
type adv struct {
	e     *env
	ow    *lab.Server
	wire  *lab.Wire
	rec   *lab.Recorder
	jl    int
	token string
	xA    []byte
	nonce protocol.Nonce
	sess  kex.Session
}

func (e *env) newAdv() *adv {
	rec := &lab.Recorder{}
	ow := e.owner(rec)
	return &adv{e: e, ow: ow, wire: lab.NewWire(ow), rec: rec, jl: ow.Mem.JournalLen()}
}

func (a *adv) result() result { return collect(a.wire, a.ow, a.rec, a.jl) }

// hello sends a HelloDevice for guid (public information) and walks the entries.
func (a *adv) hello(guid protocol.GUID, walk bool) bool {
	var sigType int64
	switch a.e.kind.Name {
	case "ec256":
		sigType = -7
	case "ec384":
		sigType = -35
	case "rsa2048restr":
		sigType = -257
	case "rsapkcs3072":
		sigType = -258
	case "rsapss2048":
		sigType = -37
	default:
		sigType = -38
	}
	var n protocol.Nonce
	_, _ = rand.Read(n[:])
	hello := rc.Encode(rc.A(rc.U(65535), rc.Bs(guid[:]), rc.Bs(n[:]), rc.T(string(a.e.suite)), rc.Int(int64(a.e.cipher)), rc.A(rc.Int(sigType), rc.Bs(nil))))
	x := a.wire.Send(60, "", hello)
	if x.RespType != 61 {
		return false
	}
	a.token = x.RespHeader.Get("Authorization")
	var p cose.Sign1Tag[fdo.XOvhProof, []byte]
	if err := cbor.Unmarshal(x.RespBody, &p); err != nil || p.Payload == nil {
		return false
	}
	a.xA = p.Payload.Val.KeyExchangeA
	_, _ = p.Unprotected.Parse(cose.Label{Int64: 256}, &a.nonce)
	if walk {
		for i := 0; i < int(p.Payload.Val.NumOVEntries); i++ {
			a.wire.Send(62, a.token, rc.Encode(rc.A(rc.U(uint64(i)))))
		}
	}
	return true
}

// proveDeviceClaim is proveDevice with the nonce claim given as raw bytes of any length.
func (a *adv) proveDeviceClaim(key crypto.Signer, guid protocol.GUID, nonceClaim []byte) []byte {
	var pub *rsa.PublicKey
	if ok, isRSA := a.e.w.Owner.OwnerSigner(a.e.kind).Public().(*rsa.PublicKey); isRSA {
		pub = ok
	}
	a.sess = a.e.suite.New(bytes.Clone(a.xA), a.e.cipher)
	xB, err := a.sess.Parameter(rand.Reader, pub)
	if err != nil {
		return nil
	}
	eat := fdo.XNewEAT(guid, protocol.Nonce{}, struct{ KeyExchangeB []byte }{xB})
	eat[cose.Label{Int64: 10}] = nonceClaim
	tok := cose.Sign1[fdo.XEatoken, []byte]{Header: cose.Header{Unprotected: map[cose.Label]any{}}, Payload: cbor.NewByteWrap(eat)}
	var sn protocol.Nonce
	_, _ = rand.Read(sn[:])
	tok.Unprotected[cose.Label{Int64: -259}] = sn
	if err := tok.Sign(key, nil, nil, signOpts(key, a.e.kind.PSS)); err != nil {
		return nil
	}
	b, _ := cbor.Marshal(tok.Tag())
	return b
}

// proveDevice builds a structurally perfect ProveDevice signed with key (claims may be overridden).
func (a *adv) proveDevice(key crypto.Signer, guid protocol.GUID, nonce protocol.Nonce, withFdoClaim, withSetupNonce bool) []byte {
	var pub *rsa.PublicKey
	if ok, isRSA := a.e.w.Owner.OwnerSigner(a.e.kind).Public().(*rsa.PublicKey); isRSA {
		pub = ok
	}
	a.sess = a.e.suite.New(bytes.Clone(a.xA), a.e.cipher)
	xB, err := a.sess.Parameter(rand.Reader, pub)
	if err != nil {
		return nil
	}
	var claim any
	if withFdoClaim {
		claim = struct{ KeyExchangeB []byte }{xB}
	}
	tok := cose.Sign1[fdo.XEatoken, []byte]{Header: cose.Header{Unprotected: map[cose.Label]any{}}, Payload: cbor.NewByteWrap(fdo.XNewEAT(guid, nonce, claim))}
	if withSetupNonce {
		var sn protocol.Nonce
		_, _ = rand.Read(sn[:])
		tok.Unprotected[cose.Label{Int64: -259}] = sn
	}
	if err := tok.Sign(key, nil, nil, signOpts(key, a.e.kind.PSS)); err != nil {
		return nil
	}
	b, _ := cbor.Marshal(tok.Tag())
	return b
}

func (e *env) explore(thorough bool) {
	// non-vacuity: the honest device completes, and its session satisfies the reference predicate
	res, cred, err, _ := e.deviceRun(-1, 0, nil)
	r.Evaluations.Add(1)
	okAny := false
	for _, tok := range res.order {
		if ok, _ := e.refQ(res.sessions[tok]); ok && len(res.sessions[tok].served) >= 4 {
			okAny = true
		}
	}
	if err != nil || cred == nil || !okAny || len(res.effects) != 1 || res.modCalls == 0 {
		r.Violation("honest-fails", fmt.Sprintf("%s %s/%s: honest TO2: err=%v cred=%v reference-ok=%v replacements=%d owner-module calls=%d", e.kind.Name, e.suite, e.cipher, err, cred != nil, okAny, len(res.effects), res.modCalls), nil)
		return
	}
	e.judge("honest", "baseline", res, "")
	genuine := map[int][]byte{} // D's genuine requests of another session, by type (last of each)
	var genuineTok string
	for _, tok := range res.order {
		for _, x := range res.sessions[tok].reqs {
			genuine[x.MsgType] = x.ReqBody
			genuineTok = x.ReqHeader.Get("Authorization")
		}
	}
	_ = genuineTok
	// S1: every single-node alteration of the genuine 60 / 62 / 64 in the device's own live session
	opts := cbormut.Options{Leaf: true, ByteFlips: thorough, IntDomain: []int64{-7, -35, -257, -37, 10, 256, -259, 1, 3}}
	var wg sync.WaitGroup
	sem := make(chan struct{}, 3)
	for _, mt := range []int{60, 62, 64} {
		n := len(cbormut.Enumerate(genuine[mt], opts))
		r.Add(fmt.Sprintf("mutants_%d", mt), int64(n))
		for i := 0; i < n; i++ {
			wg.Add(1)
			sem <- struct{}{}
			go func() {
				defer wg.Done()
				defer func() { <-sem }()
				var m cbormut.Mutant
				res, _, _, applied := e.deviceRun(mt, 0, func(b []byte) []byte {
					ms := cbormut.Enumerate(b, opts)
					if i >= len(ms) {
						return nil
					}
					m = ms[i]
					return m.Get()
				})
				if applied {
					e.judge(fmt.Sprintf("leaf%d:%s", mt, m.Op), m.Path, res, "")
				}
			}()
		}
	}
	wg.Wait()
	// S2: a peer without the device's private key
	guid, guid2 := e.w.Dev.Cred.GUID, e.dev2.Cred.GUID
	type forger struct {
		name string
		key  crypto.Signer
	}
	forgers := []forger{{"stranger", keys.Get(e.kind.Alg, "stranger")}, {"owner-key", keys.Get(e.kind.Alg, "owner1")}, {"manufacturer-key", keys.Get(e.kind.Alg, "mfg")}, {"other-device-key", e.dev2.Key}}
	for _, alg := range []string{"ec256", "rsa2048"} {
		if alg != e.kind.Alg {
			forgers = append(forgers, forger{"stranger-" + alg, keys.Get(alg, "stranger")})
		}
	}
	for _, f := range forgers {
		a := e.newAdv()
		if a.hello(guid, true) {
			a.wire.Send(64, a.token, a.proveDevice(f.key, guid, a.nonce, true, true))
			e.judge("forged64", f.name, a.result(), "")
		}
	}
	// tokens validly signed by the device key but not a proof for this session
	type bad struct {
		name string
		mk   func(a *adv) []byte
	}
	var other protocol.Nonce
	_, _ = rand.Read(other[:])
	bads := []bad{
		{"device-key,wrong-nonce", func(a *adv) []byte { return a.proveDevice(e.w.Dev.Key, guid, other, true, true) }},
		{"device-key,UEID-of-other-device", func(a *adv) []byte { return a.proveDevice(e.w.Dev.Key, guid2, a.nonce, true, true) }},
		{"device-key,no-kex-claim (a TO1 token relayed by a rogue rendezvous server)", func(a *adv) []byte { return a.proveDevice(e.w.Dev.Key, guid, a.nonce, false, true) }},
		{"device-key,no-setup-nonce", func(a *adv) []byte { return a.proveDevice(e.w.Dev.Key, guid, a.nonce, true, false) }},
		{"genuine-64-of-another-session", func(a *adv) []byte { return genuine[64] }},
		{"recorded-signature-of-a-genuine-64-on-a-payload-rewritten-for-this-session", func(a *adv) []byte {
			// protected header and signature of the token this very process verified in the honest run; payload with
			// this session's nonce, the right UEID and the adversary's own key-exchange parameter
			mine := a.proveDevice(keys.Get(e.kind.Alg, "stranger"), guid, a.nonce, true, true)
			gi, _, err1 := rc.Parse(genuine[64])
			mi, _, err2 := rc.Parse(mine)
			if err1 != nil || err2 != nil || gi.Kind != rc.Tag || mi.Kind != rc.Tag || len(gi.Items[0].Items) != 4 || len(mi.Items[0].Items) != 4 {
				return nil
			}
			g, m := gi.Items[0], mi.Items[0]
			return rc.Encode(rc.Tg(18, rc.A(g.Items[0], m.Items[1], m.Items[2], g.Items[3])))
		}},
	}
	for _, b := range bads {
		a := e.newAdv()
		if a.hello(guid, true) {
			a.wire.Send(64, a.token, b.mk(a))
			e.judge("not-a-proof-for-this-session", b.name, a.result(), "")
		}
	}
	// the nonce claim as a byte string of another length: one octet short, one zero octet long, and - in a session
	// whose issued nonce happens to end in zero octets (found by opening sessions until one does, 1 in 256) - the issued
	// nonce with its trailing zero octets stripped, which a comparison after zero-padding would take for the nonce
	{
		reshape := func(name string, f func(n protocol.Nonce) []byte, wantZeroTail bool) {
			for try := 0; try < 4000; try++ {
				a := e.newAdv()
				if !a.hello(guid, false) {
					return
				}
				if wantZeroTail && a.nonce[15] != 0 {
					continue
				}
				r.Add("sessions_opened_in_search_of_a_nonce_ending_in_zero", int64(try))
				a.wire.Send(64, a.token, a.proveDeviceClaim(e.w.Dev.Key, guid, f(a.nonce)))
				e.judge("not-a-proof-for-this-session", name, a.result(), "")
				return
			}
			r.Capped("no session with a nonce ending in a zero octet within 4000 sessions")
		}
		reshape("device-key,nonce-claim-one-octet-short", func(n protocol.Nonce) []byte { return n[:15] }, false)
		reshape("device-key,nonce-claim-with-an-extra-zero-octet", func(n protocol.Nonce) []byte { return append(bytes.Clone(n[:]), 0) }, false)
		reshape("device-key,nonce-claim-empty", func(n protocol.Nonce) []byte { return []byte{} }, false)
		reshape("device-key,issued-nonce-ends-in-zero-and-claim-has-it-stripped", func(n protocol.Nonce) []byte { return bytes.TrimRight(n[:], "\x00") }, true)
	}
	// the other device's key and GUID in a session opened for this device's GUID, and vice versa
	{
		a := e.newAdv()
		if a.hello(guid, true) {
			a.wire.Send(64, a.token, a.proveDevice(e.dev2.Key, guid2, a.nonce, true, true))
			e.judge("other-device-proves-itself-in-this-session", "device2 key + device2 UEID in a session for device", a.result(), "")
		}
	}
	// later messages without a (valid) ProveDevice: after only 60, after 60+62s, after a failed 64; and a second 64 (replay in-session)
	for _, stage := range []string{"after-60", "after-60-62", "after-failed-64"} {
		for _, mt := range []int{66, 68, 70} {
			protections := []string{"plaintext", "genuine-ciphertext-of-another-session", "encrypt0-zero-key", "encrypt0-random-key", "empty"}
			for _, prot := range protections {
				a := e.newAdv()
				if !a.hello(guid, stage != "after-60") {
					continue
				}
				if stage == "after-failed-64" {
					a.wire.Send(64, a.token, a.proveDevice(keys.Get(e.kind.Alg, "stranger"), guid, a.nonce, true, true))
				}
				a.wire.Send(mt, a.token, e.laterBody(mt, prot, genuine))
				// and keep going: whatever came back, try the following message types too
				if mt == 66 {
					a.wire.Send(68, a.token, e.laterBody(68, prot, genuine))
					a.wire.Send(70, a.token, e.laterBody(70, prot, genuine))
				}
				e.judge("later-message:"+stage+":"+prot, fmt.Sprintf("%d", mt), a.result(), "")
			}
		}
	}
	// the same later messages against a deployment whose TO2 responder sits behind a middleware that forwards Respond
	// and HandleError only (an audit / metrics wrapper embedding the Responder interface): the handler then cannot
	// obtain the session's keys. Whatever it does instead (the unchanged handler aborts the request), it must not
	// hand plaintext 66/68/70 to the responder
	for _, stage := range []string{"after-60", "after-60-62"} {
		for _, mt := range []int{66, 68, 70} {
			for _, prot := range []string{"plaintext", "empty"} {
				a := e.newAdv()
				a.ow.Handler.TO2Responder = struct{ protocol.Responder }{a.ow.TO2}
				a.wire = lab.NewWire(a.ow)
				a.wire.RecoverPanics = true
				if !a.hello(guid, stage != "after-60") {
					r.Add("wrapped_responder_hello_refused", 1)
					continue
				}
				a.wire.Send(mt, a.token, e.laterBody(mt, prot, genuine))
				if mt == 66 {
					a.wire.Send(68, a.token, e.laterBody(68, prot, genuine))
					a.wire.Send(70, a.token, e.laterBody(70, prot, genuine))
				}
				e.judge("later-message:wrapped-responder:"+stage+":"+prot, fmt.Sprintf("%d", mt), a.result(), "")
			}
		}
	}
	// in-session replay of the genuine 64 by the device itself is allowed to fail but must not serve twice without proof: covered by leaf/judge
	{
		rec := &lab.Recorder{}
		ow := e.owner(rec)
		wire := lab.NewWire(ow)
		jl := ow.Mem.JournalLen()
		var first []byte
		wire.Post = func(x *lab.Exchange) {
			if x.MsgType == 64 && first == nil {
				first = x.ReqBody
				wire.Send(64, x.ReqHeader.Get("Authorization"), first) // replay inside the same session
			}
		}
		_, _ = fdo.TO2(context.Background(), wire.Transport(), nil, e.devCfg(e.w.Dev, rec))
		e.judge("replay-64-in-session", "genuine ProveDevice sent twice", collect(wire, ow, rec, jl), "")
	}
}

// laterBody builds a 66/68/70 body under the named protection.
func (e *env) laterBody(mt int, prot string, genuine map[int][]byte) []byte {
	var plain []byte
	switch mt {
	case 66:
		plain = rc.Encode(rc.A(rc.Null(), rc.U(1300)))
	case 68:
		plain = rc.Encode(rc.A(rc.Bool(false), rc.A(rc.A(rc.T("devmod:active"), rc.Bs([]byte{0xf5})))))
	default:
		plain = rc.Encode(rc.A(rc.Bs(make([]byte, 16))))
	}
	switch prot {
	case "plaintext":
		return plain
	case "genuine-ciphertext-of-another-session":
		return genuine[mt]
	case "empty":
		return nil
	}
	suite := e.cipher.Suite()
	key := make([]byte, suite.EncryptAlg.KeySize())
	svk := make([]byte, 0)
	if suite.MacAlg != 0 {
		svk = make([]byte, suite.MacAlg.KeySize())
	}
	if prot == "encrypt0-random-key" {
		_, _ = rand.Read(key)
		_, _ = rand.Read(svk)
	}
	sc := kex.SessionCrypter{ID: e.cipher, Cipher: suite, SEK: key, SVK: svk}
	enc, err := sc.Encrypt(rand.Reader, cbor.RawBytes(plain))
	if err != nil {
		return plain
	}
	b, _ := cbor.Marshal(enc)
	return b
}

func main() {
	r = ev.Start("C02", "fault_enumeration")
	type cfg struct {
		kind  string
		suite kex.Suite
		c     kex.CipherSuiteID
	}
	cfgs := []cfg{{"ec256", kex.ECDH256Suite, kex.A128GcmCipher}, {"rsa2048restr", kex.ASYMKEX2048Suite, kex.CoseAes128CtrCipher}}
	if !r.Quick() {
		cfgs = append(cfgs, cfg{"ec384", kex.ECDH384Suite, kex.A256GcmCipher}, cfg{"ec256", kex.ECDH256Suite, kex.CoseAes128CbcCipher}, cfg{"rsapss3072", kex.DHKEXid15Suite, kex.CoseAes256CtrCipher},
			cfg{"rsapkcs3072", kex.ASYMKEX3072Suite, kex.A192GcmCipher}, cfg{"rsapss2048", kex.DHKEXid14Suite, kex.CoseAes256CbcCipher}, cfg{"ec384", kex.ECDH384Suite, kex.CoseAes128CtrCipher})
	}
	r.Rule("per configuration: an honest TO2 (non-vacuity: completes, one voucher replacement, owner module ran), then one deviation per run against the real handler+TO2Server: every single-node alteration (thorough: plus every byte ^0x01) of the genuine HelloDevice, GetOVNextEntry and ProveDevice in the device's own live session; structurally perfect ProveDevice tokens signed by 5-6 foreign keys; tokens signed by the genuine device key but with a wrong nonce, another device's UEID, without the key-exchange claim (a relayed TO1 token), without SetupDevice nonce, with the nonce claim one octet short / one zero octet long / empty / equal to the issued nonce with trailing zero octets stripped (in a session found to have issued a nonce ending in zero), recorded in another session, or the recorded signature of a genuine token on a payload rewritten for this session; another device proving itself inside this device's session; messages 66/68/70 after {only 60, 60+62s, a failed 64} as plaintext, as ciphertext of another session, under an all-zero key, under a random key, empty; in-session replay of 64; plaintext / empty 66/68/70 against a deployment whose TO2 responder is wrapped by a middleware exposing Respond and HandleError only. Oracle per session token: any response 65/67/69/71 => reference predicate (a ProveDevice received in that session verifies under the voucher's device-certificate key, carries the nonce issued in that session, the UEID of the session's GUID, a key-exchange parameter and SetupDevice nonce); voucher replacement or owner-module call => some session satisfied it.")
	var wg sync.WaitGroup
	for _, c := range cfgs {
		wg.Add(1)
		go func() {
			defer wg.Done()
			e, err := newEnv(keys.KindByName(c.kind), c.suite, c.c)
			if err != nil {
				r.Violation("lab-setup:"+c.kind, err.Error(), nil)
				return
			}
			e.explore(!r.Quick())
		}()
	}
	wg.Wait()
	r.Sample(3, map[string]any{"class": "later-message:after-60:encrypt0-zero-key", "msg": 66})
	r.Sample(3, map[string]any{"class": "not-a-proof-for-this-session", "what": "device-key,no-kex-claim"})
	r.Assume("sessions are identified by the bearer token on the wire; reference verdict on codec-normalised received bytes; stdlib crypto trusted")
	r.Finish()
}
