package main

import (
	"crypto"
	"crypto/rsa"
)

func signOpts(key crypto.Signer, pss bool) crypto.SignerOpts {
	rk, ok := key.Public().(*rsa.PublicKey)
	if !ok {
		return nil
	}
	h := crypto.SHA256
	if rk.Size() == 384 {
		h = crypto.SHA384
	}
	if pss {
		return &rsa.PSSOptions{SaltLength: rsa.PSSSaltLengthEqualsHash, Hash: h}
	}
	return h
}
