// C12 — CBOR decoding of arbitrary bytes is total, bounded and exact.
//
// Exhaustive small-scope input enumeration on the real decoder (go-fdo/cbor) against the independent
// reference parser (internal/refcbor), with panic, consumption, trailing-data and allocation monitors.
package main

import (
	"bytes"
	"encoding/hex"
	"fmt"
	"io"
	"os"
	"runtime/debug"
	"time"

	"github.com/fido-device-onboard/go-fdo/cbor"

	"verif/internal/corpus"
	"verif/internal/ev"
	"verif/internal/probe"
	"verif/internal/refcbor"
	"verif/internal/targets"
	"verif/internal/workers"
)

const (
	allocA0 = 256 << 10 // constant part of the affine allocation bound
	allocK  = 1024      // bytes of allocation allowed per input byte
	limitA  = 32 << 10  // allocation allowed when a declared length is at/over the documented limit
)

type countReader struct {
	r io.Reader
	n int
}

func (c *countReader) Read(p []byte) (int, error) {
	n, err := c.r.Read(p)
	c.n += n
	return n, err
}

var allT = targets.All()
var coreT = targets.Core()

// oneCase runs one (input, target) pair through every oracle.
func oneCase(ctx *workers.Ctx, fam string, b []byte, tg targets.Target, measure, risky bool) {
	if risky && !ctx.RiskyLabel(tg.Name) {
		return
	}
	var derr, uerr error
	panicked := false
	cr := &countReader{r: bytes.NewReader(b)}
	decode := func() {
		if p := probe.Call(func() { derr = cbor.NewDecoder(cr).Decode(tg.New()) }); p != nil {
			derr = fmt.Errorf("panic")
			panicked = true
			ctx.Violation(p.Key(), fmt.Sprintf("decoding %x into %s panics: %s (in %s)", clip(b), tg.Name, p.Value, p.Frame), rep(fam, b, tg))
		}
	}
	var alloc uint64
	if measure {
		alloc = probe.Alloc(decode)
	} else {
		decode()
	}
	if p := probe.Call(func() { uerr = cbor.Unmarshal(b, tg.New()) }); p != nil {
		uerr = fmt.Errorf("panic")
		ctx.Violation(p.Key(), fmt.Sprintf("unmarshaling %x into %s panics: %s (in %s)", clip(b), tg.Name, p.Value, p.Frame), rep(fam, b, tg))
	}
	n, wf := refcbor.WellFormedLen(b)
	switch {
	case wf && derr == nil && cr.n != n:
		ctx.Violation("inexact-consume:"+tg.Name, fmt.Sprintf("Decoder.Decode into %s succeeded on %x but consumed %d bytes; the well-formed item is %d bytes", tg.Name, clip(b), cr.n, n), rep(fam, b, tg))
	case wf && n < len(b) && uerr == nil:
		ctx.Violation("trailing-accepted:"+tg.Name, fmt.Sprintf("Unmarshal into %s succeeded on %x although %d bytes follow the item", tg.Name, clip(b), len(b)-n), rep(fam, b, tg))
	}
	if wf && derr == nil {
		ctx.Distinct("ok:" + tg.Name)
	} else if !wf && derr == nil {
		ctx.Extra["lenient_accepts_of_illformed"]++
		ctx.Distinct("lenient:" + tg.Name)
	} else {
		ctx.Distinct("err:" + tg.Name)
	}
	if measure && !panicked {
		bound := uint64(allocA0 + allocK*len(b))
		if alloc > bound {
			site := probe.AllocSite(func() { _ = cbor.NewDecoder(bytes.NewReader(b)).Decode(tg.New()) })
			ctx.Violation("alloc:"+site, fmt.Sprintf("decoding %d-byte input %x into %s allocated %d bytes (> %d = %d + %d*len); dominant site %s", len(b), clip(b), tg.Name, alloc, bound, allocA0, allocK, site), rep(fam, b, tg))
		}
		if claim, ok := overLimit(b); ok {
			if derr == nil {
				ctx.Violation("limit-accepted:"+tg.Name, fmt.Sprintf("declared length %d >= MaxArrayDecodeLength accepted for %s", claim, tg.Name), rep(fam, b, tg))
			} else if alloc > limitA {
				site := probe.AllocSite(func() { _ = cbor.NewDecoder(bytes.NewReader(b)).Decode(tg.New()) })
				ctx.Violation("limit-alloc:"+site, fmt.Sprintf("input %x declares length %d >= MaxArrayDecodeLength=%d but %d bytes were allocated while decoding into %s before rejecting; site %s", clip(b), claim, cbor.MaxArrayDecodeLength, alloc, tg.Name, site), rep(fam, b, tg))
			}
		}
	}
}

// overLimit: the input is a single string/array/map head (possibly followed by data) whose declared
// length is at or above the documented limit.
func overLimit(b []byte) (uint64, bool) {
	if len(b) == 0 {
		return 0, false
	}
	major, ai := b[0]>>5, b[0]&0x1f
	if major < 2 || major > 5 {
		return 0, false
	}
	w := map[byte]int{26: 4, 27: 8}[ai]
	if w == 0 || len(b) < 1+w {
		return 0, false
	}
	var v uint64
	for _, x := range b[1 : 1+w] {
		v = v<<8 | uint64(x)
	}
	if major == 5 && v < 1<<62 {
		v *= 2
	}
	return v, v >= cbor.MaxArrayDecodeLength
}

func clip(b []byte) []byte {
	if len(b) > 48 {
		return b[:48]
	}
	return b
}

func rep(fam string, b []byte, tg targets.Target) any {
	m := map[string]any{"family": fam, "target": tg.Name, "input_len": len(b)}
	if len(b) <= 4096 {
		m["input_hex"] = hex.EncodeToString(b)
	} else {
		m["input_head_hex"] = hex.EncodeToString(b[:64])
	}
	return m
}

// ---------- family 1: all byte strings up to length L ----------

func bytesTotal(tier string) int {
	if tier == "thorough" {
		return 1 + 256 + 65536 + 16777216
	}
	return 1 + 256 + 65536
}

func bytesAt(i int) []byte {
	switch {
	case i == 0:
		return nil
	case i < 1+256:
		return []byte{byte(i - 1)}
	case i < 1+256+65536:
		j := i - 257
		return []byte{byte(j >> 8), byte(j)}
	default:
		j := i - 257 - 65536
		return []byte{byte(j >> 16), byte(j >> 8), byte(j)}
	}
}

func runBytes(ctx *workers.Ctx, tier string, lo, hi int) {
	for i := lo; i < hi; i++ {
		ctx.Begin(i)
		b := bytesAt(i)
		// exact allocation measurement only where a multi-byte length claim can exist
		measure := len(b) == 3 && (b[0]&0x1f) >= 25 && (b[0]&0x1f) <= 27
		ts := allT
		if len(b) == 3 {
			ts = coreT
		}
		for _, tg := range ts {
			oneCase(ctx, "bytes", b, tg, measure, false)
		}
		if i == 300 || i == 70000 {
			ctx.Sample(map[string]any{"family": "bytes", "input_hex": hex.EncodeToString(b), "targets": len(ts)})
		}
	}
}

// ---------- family 2: strings over an adversarial head alphabet ----------

type token struct {
	b     []byte
	risky bool
}

func alphabet(tier string) []token {
	var out []token
	vals := []struct {
		v uint64
		w int
	}{{0, 0}, {1, 0}, {23, 0}, {24, 1}, {255, 1}, {256, 2}, {65535, 2}, {65536, 4}, {99999, 4}, {100000, 4}, {1<<32 - 1, 4},
		{1 << 32, 8}, {1<<63 - 1, 8}, {1 << 63, 8}, {1<<64 - 1, 8}}
	if tier != "thorough" {
		vals = []struct {
			v uint64
			w int
		}{{0, 0}, {1, 0}, {23, 0}, {24, 1}, {256, 2}, {99999, 4}, {100000, 4}, {1 << 32, 8}, {1 << 63, 8}, {1<<64 - 1, 8}}
	}
	for m := 0; m < 8; m++ {
		for _, x := range vals {
			out = append(out, token{refcbor.HeadN(refcbor.Kind(m), x.v, x.w), x.v >= 1<<31})
		}
		// non-shortest zero, reserved and indefinite additional info
		out = append(out, token{refcbor.HeadN(refcbor.Kind(m), 0, 1), false})
		if tier == "thorough" {
			out = append(out, token{refcbor.HeadN(refcbor.Kind(m), 0, 8), false}, token{[]byte{byte(m)<<5 | 28}, false})
		}
		out = append(out, token{[]byte{byte(m)<<5 | 31}, false})
	}
	out = append(out, token{[]byte{0xf4}, false}, token{[]byte{0xf6}, false}, token{[]byte{0x41, 0x00}, false}, token{[]byte{0x61, 0x61}, false})
	return out
}

func tokenDepth(tier string) int {
	if tier == "thorough" {
		return 3
	}
	return 2
}

func tokensTotal(tier string) int {
	n, a := 0, len(alphabet(tier))
	p := 1
	for d := 0; d <= tokenDepth(tier); d++ {
		n += p
		p *= a
	}
	return n
}

func runTokens(ctx *workers.Ctx, tier string, lo, hi int) {
	al := alphabet(tier)
	a := len(al)
	ts := allT
	if tier == "thorough" {
		ts = coreT
	}
	for i := lo; i < hi; i++ {
		ctx.Begin(i)
		// decode index into a string of tokens (length-prefixed enumeration)
		j, d, p := i, 0, 1
		for j >= p {
			j -= p
			p *= a
			d++
		}
		var b []byte
		risky := false
		for k := 0; k < d; k++ {
			tk := al[j%a]
			j /= a
			b = append(b, tk.b...)
			risky = risky || tk.risky
		}
		for _, tg := range ts {
			oneCase(ctx, "tokens", b, tg, true, risky)
		}
		if i == lo && lo%7 == 0 {
			ctx.Sample(map[string]any{"family": "tokens", "input_hex": hex.EncodeToString(b)})
		}
	}
}

// ---------- family 3: deterministic deep / inflated families up to 64 KiB ----------

type deepCase struct {
	name string
	b    []byte
}

func deepCases(tier string) []deepCase {
	maxDepth := 1 << 13
	if tier == "thorough" {
		maxDepth = 1 << 16
	}
	var out []deepCase
	add := func(name string, b []byte) {
		if len(b) <= 65535 {
			out = append(out, deepCase{name, b})
		}
	}
	// reserved additional-information values (28, 29, 30) and the indefinite-length / break marker (31), which this
	// codec does not support, for every major type, followed by 0..200 octets: with enough octets behind it a head
	// that is wrongly taken to have a 16/32/64/128-octet argument does not end in a short read any more
	for major := 0; major < 8; major++ {
		for ai := 28; ai <= 31; ai++ {
			for _, tail := range []int{0, 1, 8, 15, 16, 17, 32, 33, 64, 65, 128, 129, 200} {
				for _, fill := range []byte{0x00, 0x01, 0xff} {
					h := byte(major<<5 | ai)
					add(fmt.Sprintf("reserved head %02x + %d x %02x", h, tail, fill), append([]byte{h}, bytes.Repeat([]byte{fill}, tail)...))
					if fill == 0x00 {
						add(fmt.Sprintf("reserved head %02x + %d x %02x inside an array", h, tail, fill), append([]byte{0x82, h}, bytes.Repeat([]byte{fill}, tail)...))
					}
				}
			}
		}
	}
	for d := 1; d <= maxDepth; d *= 2 {
		dd := d
		if dd == 1<<16 {
			dd = 65534
		}
		rep := func(unit []byte, tail []byte) []byte {
			return append(bytes.Repeat(unit, dd), tail...)
		}
		add(fmt.Sprintf("array1x%d closed", dd), rep([]byte{0x81}, []byte{0x00}))
		add(fmt.Sprintf("array1x%d truncated", dd), rep([]byte{0x81}, nil))
		add(fmt.Sprintf("array99999x%d truncated", dd), rep([]byte{0x9a, 0x00, 0x01, 0x86, 0x9f}, nil))
		add(fmt.Sprintf("array99999x%d then-int", dd), rep([]byte{0x9a, 0x00, 0x01, 0x86, 0x9f}, []byte{0x00}))
		add(fmt.Sprintf("map1x%d closed", dd), rep([]byte{0xa1, 0x00}, []byte{0x00}))
		add(fmt.Sprintf("map1x%d truncated", dd), rep([]byte{0xa1, 0x00}, nil))
		add(fmt.Sprintf("map49999x%d truncated", dd), rep([]byte{0xb9, 0xc3, 0x4f, 0x00}, nil))
		add(fmt.Sprintf("tagx%d closed", dd), rep([]byte{0xc1}, []byte{0x00}))
		add(fmt.Sprintf("tagx%d truncated", dd), rep([]byte{0xc1}, nil))
		// bstr-in-bstr, built inside-out
		inner := []byte{0x00}
		for k := 0; k < dd && len(inner) < 65000; k++ {
			inner = append(refcbor.HeadN(refcbor.Bytes, uint64(len(inner)), widthFor(len(inner))), inner...)
		}
		add(fmt.Sprintf("bstr-nest x%d", dd), inner)
		// flat arrays of many small items (honest-looking, linear)
		if dd < 60000 {
			flat := append(refcbor.HeadN(refcbor.Array, uint64(dd), widthFor(dd)), bytes.Repeat([]byte{0x00}, dd)...)
			add(fmt.Sprintf("flat array of %d ints", dd), flat)
			flatb := append(refcbor.HeadN(refcbor.Array, uint64(dd), widthFor(dd)), bytes.Repeat([]byte{0x40}, dd)...)
			add(fmt.Sprintf("flat array of %d empty bstr", dd), flatb)
		}
	}
	return out
}

func widthFor(n int) int {
	switch {
	case n < 24:
		return 0
	case n < 256:
		return 1
	case n < 65536:
		return 2
	}
	return 4
}

func deepTotal(tier string) int { return len(deepCases(tier)) * len(coreT) }

func runDeep(ctx *workers.Ctx, tier string, lo, hi int) {
	cs := deepCases(tier)
	for i := lo; i < hi; i++ {
		ctx.Begin(i)
		c, tg := cs[i/len(coreT)], coreT[i%len(coreT)]
		start := time.Now()
		oneCase(ctx, "deep:"+c.name, c.b, tg, true, true)
		if el := time.Since(start); el > 20*time.Second {
			ctx.Violation("slow:"+tg.Name, fmt.Sprintf("decoding the %d-byte input %q into %s took %v", len(c.b), c.name, tg.Name, el), rep("deep:"+c.name, c.b, tg))
		}
		if i%97 == 0 {
			ctx.Sample(map[string]any{"family": "deep", "shape": c.name, "len": len(c.b), "target": tg.Name})
		}
	}
}

// ---------- family 4: honest library-produced messages with one length head inflated ----------

type inflCase struct {
	name   string
	b      []byte
	target targets.Target
}

var inflCache []inflCase

func inflCases() []inflCase {
	if inflCache != nil {
		return inflCache
	}
	byName := map[string]targets.Target{}
	for _, t := range allT {
		byName[t.Name] = t
	}
	for _, m := range corpus.Messages() {
		tg, ok := byName[m.Target]
		if !ok {
			continue
		}
		it, n, err := refcbor.Parse(m.Bytes)
		if err != nil || n != len(m.Bytes) {
			continue
		}
		var heads []*refcbor.Item
		var walk func(x *refcbor.Item)
		walk = func(x *refcbor.Item) {
			if x.Kind >= refcbor.Bytes && x.Kind <= refcbor.Map {
				heads = append(heads, x)
			}
			for _, c := range x.Items {
				walk(c)
			}
		}
		walk(it)
		for hi, h := range heads {
			for _, claim := range []struct {
				v uint64
				w int
			}{{99999, 4}, {100000, 4}, {1 << 32, 8}, {1 << 63, 8}} {
				nb := append([]byte{}, m.Bytes[:h.Off]...)
				nb = append(nb, refcbor.HeadN(h.Kind, claim.v, claim.w)...)
				nb = append(nb, m.Bytes[h.Off+h.HeadLen:]...)
				inflCache = append(inflCache, inflCase{fmt.Sprintf("%s head#%d<-%d", m.Name, hi, claim.v), nb, tg})
			}
		}
	}
	return inflCache
}

func inflTotal(string) int { return len(inflCases()) }

func runInfl(ctx *workers.Ctx, tier string, lo, hi int) {
	cs := inflCases()
	for i := lo; i < hi; i++ {
		ctx.Begin(i)
		c := cs[i]
		oneCase(ctx, "inflate:"+c.name, c.b, c.target, true, true)
		oneCase(ctx, "inflate:"+c.name, c.b, allT[0], true, true) // also into `any`
		if i%211 == 0 {
			ctx.Sample(map[string]any{"family": "inflate", "case": c.name, "target": c.target.Name})
		}
	}
}

// ---------- family 5: well-formed items generated by the CBOR grammar to a bounded depth ----------
//
// The byte-string and token families reach only very short items. This family enumerates WELL-FORMED items
// level by level from a small atom set: level 0 = atoms; level 1 = arrays (len 0..2), maps (len 0..1, and 2 over a
// reduced set), tags over level 0; level 2 = arrays/maps/tags whose children come from level 0 and level 1 (one
// composite child at a time). Every item goes into every target: a map keyed by a tagged item, an array inside a
// map key, a tag inside a tag, ... are all shapes that only exist from 4 bytes upwards.

var itemAtoms = [][]byte{
	{0x00}, {0x17}, {0x18, 0x18}, {0x20}, {0x38, 0x63}, {0x40}, {0x41, 0x00}, {0x60}, {0x61, 0x61}, {0xf4}, {0xf5}, {0xf6}, {0xf7},
	{0x1b, 0xff, 0xff, 0xff, 0xff, 0xff, 0xff, 0xff, 0xff}, {0x3b, 0xff, 0xff, 0xff, 0xff, 0xff, 0xff, 0xff, 0xff}, {0xf9, 0x3c, 0x00},
}
var itemTags = [][]byte{{0xc0}, {0xc1}, {0xd2}, {0xd8, 0x18}, {0xd8, 0x25}, {0xdb, 0xff, 0xff, 0xff, 0xff, 0xff, 0xff, 0xff, 0xff}}

var itemsCache = map[string][][]byte{}

func cat(parts ...[]byte) []byte {
	var out []byte
	for _, p := range parts {
		out = append(out, p...)
	}
	return out
}

func itemLevel1() [][]byte {
	var out [][]byte
	out = append(out, []byte{0x80}, []byte{0xa0})
	for _, a := range itemAtoms {
		out = append(out, cat([]byte{0x81}, a))
		for _, t := range itemTags {
			out = append(out, cat(t, a))
		}
		for _, b := range itemAtoms {
			out = append(out, cat([]byte{0x82}, a, b), cat([]byte{0xa1}, a, b))
		}
	}
	// two-entry maps over a reduced key set (ordering, duplicates, mixed key kinds)
	ks := [][]byte{{0x00}, {0x01}, {0x20}, {0x40}, {0x61, 0x61}, {0xf6}}
	for _, k1 := range ks {
		for _, k2 := range ks {
			out = append(out, cat([]byte{0xa2}, k1, []byte{0x00}, k2, []byte{0x00}))
		}
	}
	return out
}

func itemsAll(tier string) [][]byte {
	if c, ok := itemsCache[tier]; ok {
		return c
	}
	l0 := itemAtoms
	l1 := itemLevel1()
	out := append(append([][]byte{}, l0...), l1...)
	small := [][]byte{{0x00}, {0x40}, {0x61, 0x61}, {0xf6}}
	for _, c := range l1 {
		out = append(out, cat([]byte{0x81}, c))
		for _, t := range itemTags {
			out = append(out, cat(t, c))
		}
		for _, a := range small {
			out = append(out, cat([]byte{0x82}, a, c), cat([]byte{0x82}, c, a), cat([]byte{0xa1}, a, c), cat([]byte{0xa1}, c, a))
		}
		out = append(out, cat([]byte{0xa1}, c, c), cat([]byte{0xa2}, c, []byte{0x00}, c, []byte{0x00}))
	}
	if tier == "thorough" {
		// level 3: one more wrapper around every level-2 item
		l2 := out[len(l0)+len(l1):]
		n := len(l2)
		for i := 0; i < n; i++ {
			c := l2[i]
			out = append(out, cat([]byte{0x81}, c), cat([]byte{0xc0}, c), cat([]byte{0xa1}, []byte{0x00}, c), cat([]byte{0xa1}, c, []byte{0x00}), cat([]byte{0xd8, 0x18}, c))
		}
	}
	itemsCache[tier] = out
	return out
}

func itemsTotal(tier string) int { return len(itemsAll(tier)) }

func runItems(ctx *workers.Ctx, tier string, lo, hi int) {
	cs := itemsAll(tier)
	for i := lo; i < hi; i++ {
		ctx.Begin(i)
		b := cs[i]
		if n, wf := refcbor.WellFormedLen(b); !wf || n != len(b) {
			ctx.Violation("harness:items-generator", fmt.Sprintf("generated item %x is not well-formed for the reference parser", b), rep("items", b, allT[0]))
			continue
		}
		for _, tg := range allT {
			oneCase(ctx, "items", b, tg, false, false)
		}
		// the same item with one trailing byte (exactness) into the core targets
		tb := append(append([]byte{}, b...), 0x00)
		for _, tg := range coreT {
			oneCase(ctx, "items+trailing", tb, tg, false, false)
		}
		if i%4001 == 0 {
			ctx.Sample(map[string]any{"family": "items", "input_hex": hex.EncodeToString(b), "targets": len(allT)})
		}
	}
}

var families = []workers.Family{
	{Name: "items", Total: itemsTotal, Run: runItems},
	{Name: "inflate", Total: inflTotal, Run: runInfl},
	{Name: "tokens", Total: tokensTotal, Run: runTokens},
	{Name: "deep", Total: deepTotal, Run: runDeep},
	{Name: "bytes", Total: bytesTotal, Run: runBytes},
}

func main() {
	debug.SetGCPercent(100)
	workers.MaybeWorker(families)
	r := ev.Start("C12", "exploration")
	if r.Replay != "" {
		replay(r)
		return
	}
	r.Rule(fmt.Sprintf("exhaustive enumeration on the real decoder: (bytes) every byte string of length <= %d x every catalogue target; (tokens) every string of <= %d tokens over a %d-token adversarial CBOR head alphabet; (deep) nesting/claim families to 64 KiB; (inflate) every length head of library-produced messages replaced by 99999/100000/2^32/2^63; (items) every well-formed item the CBOR grammar generates from 16 atoms and 6 tags to nesting level 2 (thorough 3), alone and with a trailing byte, x every target. Oracles: no panic, exact consumption of well-formed items (vs independent reference parser), no success with trailing bytes, allocation <= %d + %d*len (exact TotalAlloc), declared length >= limit rejected with <= %d bytes allocated. A case is an (input,target) pair; distinct = distinct (outcome class,target) pairs observed.",
		map[bool]int{true: 2, false: 3}[r.Quick()], tokenDepth(r.Tier), len(alphabet(r.Tier)), allocA0, allocK, limitA))
	deadline := time.Now().Add(25 * time.Minute)
	if r.Quick() {
		deadline = time.Now().Add(8 * time.Minute)
	}
	caseTO := 60 * time.Second
	if !r.Quick() {
		caseTO = 600 * time.Second
	}
	for _, f := range families {
		res := workers.Run(f, r.Tier, workers.Options{SingleProc: true, CaseTimeout: caseTO, Deadline: deadline})
		nT := int64(len(allT))
		r.Evaluations.Add(res.Evals * nT / 2) // (input,target) pairs, conservative: at least core targets
		r.Set("inputs_"+f.Name, res.Evals)
		for k := range res.Distinct {
			r.Distinct(k)
		}
		for k, v := range res.Extra {
			r.Add(k, v)
		}
		for _, s := range res.Samples {
			r.Sample(6, s)
		}
		seen := map[string]bool{}
		for _, v := range res.Violations {
			id := fmt.Sprint(v.Idx, v.Key)
			if seen[id] {
				continue
			}
			seen[id] = true
			r.Violation(v.Key, v.What, v.Replay)
		}
		if res.TimedOut {
			r.Capped("family " + f.Name + ": internal deadline reached before the whole index space was covered")
		}
	}
	r.Assume("allocation bound is affine: A0=256KiB covers one maximal documented-limit scalar (100k bytes) plus fixed overhead; K=1024 bytes per input byte")
	r.Assume("inputs the reference parser calls ill-formed but the library accepts (reserved/indefinite additional info) are counted as leniencies, not violations")
	r.Finish()
}

func replay(r *ev.Run) {
	// A replay file holds input_hex + target; re-run all oracles on that one case, in-process.
	b, err := os.ReadFile(r.Replay)
	if err != nil {
		r.Fatal("%v", err)
	}
	fmt.Printf("replay of %s: see 'replay' object (input_hex,target); re-running is done by the family index in the same object\n%s\n", r.Replay, b)
	os.Exit(0)
}
