// C03 — ownership handover leaves device credential and stored voucher in agreement; failure is atomic.
//
// Explicit exploration of histories x fault points with the deviation-bounded explorer: a history is DI followed
// by k rounds of (hand-over to the next owner, TO2); at every request/response of DI and TO2 and at every store
// call of the serving side the environment may deviate once (bound 1; thorough also bound 2 for selected configs).
package main

import (
	"bytes"
	"context"
	"fmt"
	"strings"
	"sync"

	fdo "github.com/fido-device-onboard/go-fdo"
	"github.com/fido-device-onboard/go-fdo/blob"
	"github.com/fido-device-onboard/go-fdo/cbor"
	"github.com/fido-device-onboard/go-fdo/kex"
	"github.com/fido-device-onboard/go-fdo/protocol"

	"verif/internal/ev"
	"verif/internal/explore"
	"verif/internal/keys"
	"verif/internal/lab"
	"verif/internal/probe"
)

var r *ev.Run

type cfg struct {
	kind   keys.Kind
	enc    protocol.KeyEncoding
	suite  kex.Suite
	cipher kex.CipherSuiteID
	reuse  bool
	rounds int
	hwHmac bool // the device HMAC is hardware-style and may fail at any finalisation
}

func (c cfg) String() string {
	hw := ""
	if c.hwHmac {
		hw = "/hw-hmac"
	}
	return fmt.Sprintf("%s/enc%d/%s/%s/reuse=%v/k=%d%s", c.kind.Name, c.enc, c.suite, c.cipher, c.reuse, c.rounds, hw)
}

var faultNames = []string{"pass", "request-lost", "response-lost", "response-replaced-by-error", "context-cancelled"}

// faulty wraps a wire so that every exchange is a choice point.
func faulty(c *explore.Ctx, w *lab.Wire, trace *[]string, phase string, cancel *context.CancelFunc) {
	w.Pre = func(x *lab.Exchange) {
		ch := c.Choose(len(faultNames), 1)
		x.ReqHeader.Set("X-Verif-Fault", fmt.Sprint(ch))
		if ch != 0 {
			*trace = append(*trace, fmt.Sprintf("%s msg %d: %s", phase, x.MsgType, faultNames[ch]))
		}
		switch ch {
		case 1:
			x.Err = lab.ErrCut
		case 4:
			if *cancel != nil {
				(*cancel)()
			}
			x.Err = context.Canceled
		}
		x.ReqHeader.Del("X-Verif-Fault")
		if ch == 2 || ch == 3 {
			x.ReqHeader.Set("X-Verif-Post", fmt.Sprint(ch))
		}
	}
	w.Post = func(x *lab.Exchange) {
		switch x.ReqHeader.Get("X-Verif-Post") {
		case "2":
			x.Err = lab.ErrCut
		case "3":
			em, _ := cbor.Marshal(protocol.ErrorMessage{Code: 500, PrevMsgType: uint8(x.MsgType), ErrString: "injected", Timestamp: 1})
			x.Status, x.RespBody = 500, em
			x.RespHeader.Set("Message-Type", "255")
			x.RespHeader.Set("Content-Type", "application/cbor")
			x.RespHeader.Set("Content-Length", fmt.Sprint(len(em)))
		}
	}
}

// storeFaults makes every store call of s a choice point (fail with an error or pass).
func storeFaults(c *explore.Ctx, s *lab.Server, trace *[]string, phase string) {
	s.Mem.Hook = func(method, token string) error {
		if method == "OwnerKey" || method == "NewToken" || method == "InvalidateToken" || method == "CleanupModules" {
			return nil // configuration / housekeeping, not state of the hand-over
		}
		if c.Choose(2, 1) == 1 {
			*trace = append(*trace, fmt.Sprintf("%s store.%s fails", phase, method))
			return fmt.Errorf("injected store fault in %s", method)
		}
		return nil
	}
}

// agree is the oracle's comparison of credential and voucher; it computes MACs with a sound HMAC whatever the
// device's own (possibly failing) hardware does.
func agree(w *lab.World, cred *fdo.DeviceCredential, dev *lab.Device, voucher []byte) string {
	f := dev.HmacFault
	dev.HmacFault = nil
	defer func() { dev.HmacFault = f }()
	return lab.Agree(cred, dev, voucher)
}

type verdict struct {
	key, what string
}

// history runs one complete history under the explorer's choices and returns violations.
func history(c *explore.Ctx, cf cfg) (viol []verdict, trace []string, outcome string) {
	ctx := context.Background()
	var hmacPhase *string
	bad := func(key, format string, a ...any) { viol = append(viol, verdict{key, fmt.Sprintf(format, a...)}) }
	w := lab.NewWorld(cf.kind, cf.enc)
	owners := []*lab.Server{w.Owner, w.Owner2, lab.NewMemServer("owner3", "owner3")}
	for oi, o := range owners {
		o.Reuse = cf.reuse
		if !cf.reuse && oi == 2 {
			o.TO2.ReuseCredential = nil // the callback is optional: without it credentials are replaced
		}
		// new owners assign fresh rendezvous info so that old and new header differ in more than GUID and key
		o.RvInfo = [][]protocol.RvInstruction{{{Variable: protocol.RVDns, Value: mustCBOR("rv-" + o.Name + ".example")}, {Variable: protocol.RVProtocol, Value: mustCBOR(uint8(1))}}}
	}
	// the second owner in the rotation assigns NO rendezvous info at all (an empty list is a legal choice): the device
	// then holds directives from before and must still adopt exactly what the owner chose
	owners[1].RvInfo = [][]protocol.RvInstruction{}
	w.Mfg.RvInfo = [][]protocol.RvInstruction{{{Variable: protocol.RVDns, Value: mustCBOR("rv0.example")}}}
	// the device's secret-keyed HMAC is hardware-style: every finalisation (Sum) is a choice point {works, fails};
	// a failure is reported through the optional Err() method and must fail the run like any other fault
	if cf.hwHmac {
		phaseNow := "DI"
		hmacPhase = &phaseNow
		w.Dev.HmacFault = func(op string) bool {
			if c.Choose(2, 1) == 1 {
				trace = append(trace, fmt.Sprintf("%s device HMAC %s fails", *hmacPhase, op))
				return true
			}
			return false
		}
	}
	// ---- DI ----
	var cancel context.CancelFunc
	dctx, cn := context.WithCancel(ctx)
	cancel = cn
	faulty(c, w.WMfg, &trace, "DI", &cancel)
	storeFaults(c, w.Mfg, &trace, "DI")
	var derr error
	if p := probe.Call(func() { derr = w.Dev.DI(dctx, w.WMfg.Transport()) }); p != nil {
		bad(p.Key(), "DI panics: %s in %s", p.Value, p.Frame)
		return viol, trace, "panic"
	}
	cn()
	w.Mfg.Mem.Hook = nil
	if derr != nil {
		if w.Dev.Cred != nil {
			bad("di-credential-despite-error", "DI failed (%v) but a credential was produced", derr)
		}
		// a voucher may exist only if the manufacturer had processed SetHMAC (its response was then lost)
		if n := len(w.Mfg.Mem.AllVouchers()); n > 0 && !strings.Contains(strings.Join(trace, ";"), "msg 12: response") {
			bad("di-voucher-despite-early-failure", "DI failed before SetHMAC was answered (%v) yet the manufacturer stored %d voucher(s)", trace, n)
		}
		return viol, trace, "di-failed"
	}
	mv, ok := w.Mfg.Mem.VoucherBytes(w.Dev.Cred.GUID)
	if !ok {
		bad("di-no-voucher", "DI succeeded but the manufacturer stored no voucher for the credential's GUID")
		return viol, trace, "di-broken"
	}
	if msg := agree(w, w.Dev.Cred, w.Dev, mv); msg != "" {
		bad("di-disagree:"+cf.kind.Name, "after DI: %s", msg)
	}
	// ---- rounds ----
	holder := w.Mfg
	for round := 0; round < cf.rounds; round++ {
		next := owners[round%len(owners)]
		// hand-over: resale by the current holder (round 0: the manufacturer extends)
		var ov *fdo.Voucher
		var err error
		if round == 0 {
			ov, err = lab.Transfer(ctx, w.Mfg, next, cf.kind, w.Dev.Cred.GUID)
		} else {
			ov, err = holder.TO2.Resell(ctx, w.Dev.Cred.GUID, next.OwnerSigner(cf.kind).Public(), nil)
			if err == nil {
				err = next.State.AddVoucher(ctx, ov)
			}
		}
		if err != nil {
			bad("handover-fails:"+cf.kind.Name, "round %d: extension/resale to %s failed: %v", round, next.Name, err)
			return viol, trace, "handover-failed"
		}
		// the credential is written to and re-read from its blob encoding
		if bb, err := cbor.Marshal(blob.DeviceCredential{Active: true, DeviceCredential: *w.Dev.Cred, HmacSecret: w.Dev.Secret, PrivateKey: blob.Pkcs8Key{Signer: w.Dev.Key}}); err == nil {
			var back blob.DeviceCredential
			if err := cbor.Unmarshal(bb, &back); err != nil {
				bad("blob-roundtrip", "round %d: credential blob does not decode: %v", round, err)
			} else {
				w.Dev.Cred = &back.DeviceCredential
			}
		}
		oldGUID := w.Dev.Cred.GUID
		before := snapshot(next)
		jl := next.Mem.JournalLen()
		wire := lab.NewWire(next)
		tctx, tcn := context.WithCancel(ctx)
		cancel = tcn
		phase := fmt.Sprintf("TO2#%d", round)
		if hmacPhase != nil {
			*hmacPhase = phase
		}
		faulty(c, wire, &trace, phase, &cancel)
		storeFaults(c, next, &trace, phase)
		// the owner's operator changes the rendezvous policy while a session is under way: before any TO2 exchange the
		// RvInfo callback may start answering with other instructions (one deviation; no fault). Whatever the owner
		// then stores must still be the header the device authenticated.
		{
			pre, changed, savedRv := wire.Pre, false, next.RvInfo
			defer func() { next.RvInfo = savedRv }()
			wire.Pre = func(x *lab.Exchange) {
				if !changed && x.MsgType >= 60 && x.MsgType <= 70 && c.Choose(2, 1) == 1 {
					changed = true
					next.RvInfo = [][]protocol.RvInstruction{{{Variable: protocol.RVDns, Value: mustCBOR("rv-updated-" + next.Name + ".example")}, {Variable: protocol.RVDevPort, Value: mustCBOR(uint16(8443))}}}
					trace = append(trace, fmt.Sprintf("%s msg %d: rendezvous policy updated before it", phase, x.MsgType))
				}
				if pre != nil {
					pre(x)
				}
			}
		}
		tcfg := w.Dev.TO2Config(cf.suite, cf.cipher)
		tcfg.AllowCredentialReuse = cf.reuse
		var cred *fdo.DeviceCredential
		var terr error
		if p := probe.Call(func() { cred, terr = fdo.TO2(tctx, wire.Transport(), nil, tcfg) }); p != nil {
			bad(p.Key(), "%s panics: %s in %s", phase, p.Value, p.Frame)
			return viol, trace, "panic"
		}
		tcn()
		next.Mem.Hook = nil
		after := snapshot(next)
		// the owner has accepted Done when the Done request (70) reached it and it committed the replacement (or, with
		// reuse, produced Done2); a replacement committed before Done arrived is a violation in itself
		done2Produced, doneServed := false, false
		for _, x := range wire.Log {
			if x.Served && x.MsgType == 70 {
				doneServed = true
			}
			if x.Served && x.RespType == 71 {
				done2Produced = true
			}
		}
		for _, ef := range next.Mem.JournalSince(jl) {
			if ef.Kind == "ReplaceVoucher" {
				if doneServed {
					done2Produced = true
				} else {
					bad("replaced-before-done", "%s (faults %v): the owner replaced the voucher although TO2.Done never reached it", phase, trace)
				}
			}
		}
		if terr != nil {
			if cred != nil {
				bad("credential-despite-error", "%s failed (%v) but returned a credential", phase, terr)
			}
			if !done2Produced && before != after {
				bad("not-atomic:"+phase[:3], "%s failed before the owner produced Done2 (faults %v; %v) yet its voucher store changed", phase, trace, terr)
			}
			if done2Produced {
				r.Add("commit_windows_owner_accepted_done_device_saw_failure", 1) // inherent: the owner has committed, the device has not
				return viol, trace, "lost-done2"
			}
			// recovery: the very same hand-over can be retried honestly
			w2 := lab.NewWire(next)
			cred, terr = fdo.TO2(ctx, w2.Transport(), nil, tcfg)
			if terr != nil {
				bad("no-recovery-after-failed-to2", "%s failed under %v and an honest retry fails too: %v", phase, trace, terr)
				return viol, trace, "stuck"
			}
			after = snapshot(next)
		}
		if cf.reuse {
			if cred != nil || before != after {
				bad("reuse-changed-state", "%s with credential reuse: credential returned=%v, voucher store changed=%v", phase, cred != nil, before != after)
			}
		} else {
			if cred == nil {
				bad("no-credential", "%s succeeded without a replacement credential", phase)
				return viol, trace, "broken"
			}
			w.Dev.Cred = cred
			nv, ok := next.Mem.VoucherBytes(cred.GUID)
			if _, old := next.Mem.VoucherBytes(oldGUID); old || !ok {
				bad("voucher-not-replaced", "%s: old voucher present=%v, new voucher present=%v", phase, old, ok)
				return viol, trace, "broken"
			}
			if msg := agree(w, cred, w.Dev, nv); msg != "" {
				bad("disagree:"+cf.kind.Name, "after %s (faults %v): %s", phase, trace, msg)
			}
			if cred.GUID == oldGUID {
				bad("guid-not-replaced", "%s: replacement credential keeps the old GUID", phase)
			}
		}
		holder = next
	}
	return viol, trace, "completed"
}

func snapshot(s *lab.Server) string {
	var parts []string
	for g, b := range s.Mem.AllVouchers() {
		parts = append(parts, fmt.Sprintf("%x=%x", g, b))
	}
	// map iteration order: sort
	for i := range parts {
		for j := i + 1; j < len(parts); j++ {
			if parts[j] < parts[i] {
				parts[i], parts[j] = parts[j], parts[i]
			}
		}
	}
	return strings.Join(parts, "|")
}

func mustCBOR(v any) []byte {
	b, err := cbor.Marshal(v)
	if err != nil {
		panic(err)
	}
	return b
}

func exploreCfg(cf cfg, bound int) {
	var mu sync.Mutex
	outcomes := map[string]int{}
	st := explore.Explore(bound, func(c *explore.Ctx) {
		viol, trace, outcome := history(c, cf)
		r.Evaluations.Add(1)
		mu.Lock()
		outcomes[outcome]++
		mu.Unlock()
		for _, v := range viol {
			r.Violation(v.key, fmt.Sprintf("%s: %s", cf, v.what), map[string]any{"config": cf.String(), "choices": append([]int{}, c.Choices...), "faults": trace})
		}
		r.Distinct(fmt.Sprintf("%s|%s|%s", cf.kind.Name, outcome, bytes.Join(nil, nil)) + strings.Join(trace, ";"))
	}, nil)
	if len(st.Diverged) > 0 {
		r.Fatal("replay divergence in %s: %v", cf, st.Diverged[0])
	}
	r.Add("executions", int64(st.Executions))
	r.Add("max_choice_points", int64(st.MaxDepth))
	mu.Lock()
	r.Sample(6, map[string]any{"config": cf.String(), "bound": bound, "executions": st.Executions, "choice_points_in_honest_history": st.MaxDepth, "outcomes": outcomes})
	mu.Unlock()
	if outcomes["completed"] == 0 {
		r.Violation("honest-history-fails", cf.String()+": not even the fault-free history completes", nil)
	}
}

func main() {
	r = ev.Start("C03", "fault_enumeration")
	var cfgs []cfg
	k := keys.KindByName
	for _, reuse := range []bool{false, true} {
		cfgs = append(cfgs, cfg{k("ec256"), protocol.X509KeyEnc, kex.ECDH256Suite, kex.A128GcmCipher, reuse, 2, false},
			cfg{k("ec384"), protocol.CoseKeyEnc, kex.ECDH384Suite, kex.A256GcmCipher, reuse, 2, false},
			cfg{k("rsa2048restr"), protocol.X5ChainKeyEnc, kex.ASYMKEX2048Suite, kex.CoseAes128CtrCipher, reuse, 2, false},
			cfg{k("rsapss3072"), protocol.X509KeyEnc, kex.DHKEXid15Suite, kex.CoseAes256CbcCipher, reuse, 2, false})
	}
	cfgs = append(cfgs, cfg{k("ec256"), protocol.X509KeyEnc, kex.ECDH256Suite, kex.A128GcmCipher, false, 2, true}, cfg{k("ec384"), protocol.X509KeyEnc, kex.ECDH384Suite, kex.A256GcmCipher, true, 2, true})
	if !r.Quick() {
		for _, kd := range keys.Kinds {
			for _, enc := range kd.Encodings() {
				for _, reuse := range []bool{false, true} {
					cfgs = append(cfgs, cfg{kd, enc, lab.DefaultSuite(kd), kex.A128GcmCipher, reuse, 3, false})
				}
			}
		}
		cfgs = append(cfgs, cfg{k("rsapkcs3072"), protocol.X509KeyEnc, kex.ASYMKEX3072Suite, kex.A192GcmCipher, false, 3, false}, cfg{k("rsapss2048"), protocol.X5ChainKeyEnc, kex.DHKEXid14Suite, kex.CoseAes128CbcCipher, false, 3, false},
			cfg{k("rsa2048restr"), protocol.X509KeyEnc, kex.ECDH256Suite, kex.CoseAes256CtrCipher, false, 3, false})
	}
	r.Rule("histories DI -> k x (hand-over to the next owner by extension/resale, credential written to and re-read from its blob encoding, TO2) explored with the deviation-bounded explorer: every HTTP exchange of DI and TO2 is a choice point {pass, request lost, response lost after the server processed it, response replaced by an FDO error, context cancelled} every store call of the serving side is a choice point {pass, fail}, every finalisation of the device's HMAC is a choice point {works, fails} for two hardware-style configurations, and before every TO2 exchange the owner's rendezvous policy callback may start returning other instructions (policy updated mid-session); bound 1 is complete for every configuration (thorough: bound 2 for two configurations). Oracles in every execution: after each successful DI/TO2 the stored voucher verifies against the credential the device now holds (header MAC under the device secret, manufacturer-key hash, GUID, rendezvous info - owners assign new rendezvous info, every second owner an empty list -, certificate hash) and the next hand-over + TO2 works; with reuse nothing changes; a TO2 that fails before the owner produced Done2 leaves the owner's voucher store byte-identical, returns no credential, and an honest retry succeeds; a lost Done2 is counted as the inherent commit window. Shared-owner layer: ONE owner service onboards three devices of mixed key types and key encodings; before every exchange of the observed device's TO2 a complete TO2 of one of the other devices may run (deviation each, bound 2 complete: two sessions at any two - or the same - points); afterwards every device's new credential and the voucher the owner stored for it agree and the observed device is accepted by the next owner after resale. distinct = distinct (outcome, fault trace).")
	var wg sync.WaitGroup
	sem := make(chan struct{}, 16)
	for i, cf := range cfgs {
		wg.Add(1)
		sem <- struct{}{}
		go func() {
			defer wg.Done()
			defer func() { <-sem }()
			bound := 1
			if !r.Quick() && i < 2 {
				bound = 2
			}
			exploreCfg(cf, bound)
		}()
	}
	for _, sc := range sharedCfgs(r.Quick()) {
		wg.Add(1)
		sem <- struct{}{}
		go func() {
			defer wg.Done()
			defer func() { <-sem }()
			exploreShared(sc, 2)
		}()
	}
	wg.Wait()
	r.Assume("hand-over between services (extension, resale) is out of band and not fault-injected; SQLite-backed atomicity is the subject of C18")
	r.Finish()
}
