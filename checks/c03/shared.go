package main

import (
	"context"
	"fmt"
	"strings"
	"sync"

	fdo "github.com/fido-device-onboard/go-fdo"
	"github.com/fido-device-onboard/go-fdo/kex"
	"github.com/fido-device-onboard/go-fdo/protocol"

	"verif/internal/ev"
	"verif/internal/explore"
	"verif/internal/keys"
	"verif/internal/lab"
	"verif/internal/probe"
)

var _ = ev.Start

// One owner service onboards devices of several key types and key encodings. While the observed device's TO2 is
// under way, complete TO2 sessions of the other devices may run between any two of its exchanges (a deviation each;
// bound 2 is complete: one session before a point and another one before a later - or the same - point). Whatever
// ran in between, the observed device's new credential and the voucher the owner stored for it must agree, and so
// must those of the devices that ran in between.
type sharedCfg struct {
	victim keys.Kind
	venc   protocol.KeyEncoding
	others []keys.Kind
	oencs  []protocol.KeyEncoding
}

func (s sharedCfg) String() string {
	var o []string
	for i := range s.others {
		o = append(o, fmt.Sprintf("%s/enc%d", s.others[i].Name, s.oencs[i]))
	}
	return fmt.Sprintf("shared-owner observed=%s/enc%d others=%s", s.victim.Name, s.venc, strings.Join(o, ","))
}

func sharedHistory(c *explore.Ctx, sc sharedCfg) (viol []verdict, trace []string, outcome string) {
	ctx := context.Background()
	bad := func(key, format string, a ...any) { viol = append(viol, verdict{key, fmt.Sprintf(format, a...)}) }
	w := lab.NewWorld(sc.victim, sc.venc)
	w.Owner.Reuse = false
	w.Owner.RvInfo = [][]protocol.RvInstruction{{{Variable: protocol.RVDns, Value: mustCBOR("rv-shared.example")}}}
	w.Mfg.RvInfo = [][]protocol.RvInstruction{{{Variable: protocol.RVDns, Value: mustCBOR("rv0.example")}}}
	roles := []string{"device2", "stranger"}
	devs := []*lab.Device{w.Dev}
	for i, k := range sc.others {
		devs = append(devs, lab.NewDevice(k, sc.oencs[i], roles[i%len(roles)]))
	}
	for _, d := range devs {
		if err := d.DI(ctx, lab.NewWire(w.Mfg).Transport()); err != nil {
			bad("shared:di-fails", "DI of %s/enc%d: %v", d.Kind.Name, d.Enc, err)
			return viol, trace, "di-failed"
		}
		if _, err := lab.Transfer(ctx, w.Mfg, w.Owner, d.Kind, d.Cred.GUID); err != nil {
			bad("shared:handover-fails", "extension of %s/enc%d to the owner: %v", d.Kind.Name, d.Enc, err)
			return viol, trace, "handover-failed"
		}
	}
	onboard := func(d *lab.Device, wire *lab.Wire, label string) bool {
		old := d.Cred.GUID
		var cred *fdo.DeviceCredential
		var err error
		if p := probe.Call(func() {
			cred, err = fdo.TO2(ctx, wire.Transport(), nil, d.TO2Config(lab.DefaultSuite(d.Kind), kex.A128GcmCipher))
		}); p != nil {
			bad(p.Key(), "%s panics: %s in %s", label, p.Value, p.Frame)
			return false
		}
		if err != nil || cred == nil {
			bad("shared:to2-fails:"+d.Kind.Name, "%s (sessions in between: %v): TO2 fails: %v", label, trace, err)
			return false
		}
		d.Cred = cred
		nv, ok := w.Owner.Mem.VoucherBytes(cred.GUID)
		if _, o := w.Owner.Mem.VoucherBytes(old); o || !ok {
			bad("shared:voucher-not-replaced", "%s: old voucher present=%v, new voucher present=%v", label, o, ok)
			return false
		}
		if msg := agree(w, cred, d, nv); msg != "" {
			bad("shared:disagree:"+d.Kind.Name, "%s (sessions in between: %v): %s", label, trace, msg)
		}
		return true
	}
	wire := lab.NewWire(w.Owner)
	ran := map[*lab.Device]bool{}
	wire.Pre = func(x *lab.Exchange) {
		for n := 0; n < 2; n++ {
			ch := c.Choose(len(devs), 1)
			if ch == 0 {
				return
			}
			d := devs[ch]
			if ran[d] {
				return // a replacement voucher has no entries: the same owner cannot onboard that device again
			}
			ran[d] = true
			trace = append(trace, fmt.Sprintf("before msg %d: complete TO2 of %s/enc%d", x.MsgType, d.Kind.Name, d.Enc))
			if !onboard(d, lab.NewWire(w.Owner), fmt.Sprintf("in-between TO2 of %s/enc%d", d.Kind.Name, d.Enc)) {
				return
			}
		}
	}
	if !onboard(w.Dev, wire, fmt.Sprintf("observed TO2 of %s/enc%d", w.Dev.Kind.Name, w.Dev.Enc)) {
		return viol, trace, "failed"
	}
	// the observed device is handed on to the second owner and must be accepted there with what it now holds
	ov, err := w.Owner.TO2.Resell(ctx, w.Dev.Cred.GUID, w.Owner2.OwnerSigner(sc.victim).Public(), nil)
	if err == nil {
		err = w.Owner2.State.AddVoucher(ctx, ov)
	}
	if err != nil {
		bad("shared:resale-fails", "resale of the observed device (sessions in between: %v): %v", trace, err)
		return viol, trace, "resale-failed"
	}
	if _, err := fdo.TO2(ctx, lab.NewWire(w.Owner2).Transport(), nil, w.Dev.TO2Config(lab.DefaultSuite(w.Dev.Kind), kex.A128GcmCipher)); err != nil {
		bad("shared:next-onboarding-fails", "after sessions in between %v the observed device cannot be onboarded by the next owner: %v", trace, err)
	}
	return viol, trace, "completed"
}

func exploreShared(sc sharedCfg, bound int) {
	var mu sync.Mutex
	outcomes := map[string]int{}
	st := explore.Explore(bound, func(c *explore.Ctx) {
		viol, trace, outcome := sharedHistory(c, sc)
		r.Evaluations.Add(1)
		mu.Lock()
		outcomes[outcome]++
		mu.Unlock()
		for _, v := range viol {
			r.Violation(v.key, fmt.Sprintf("%s: %s", sc, v.what), map[string]any{"config": sc.String(), "choices": append([]int{}, c.Choices...), "sessions": trace})
		}
		r.Distinct(sc.String() + "|" + outcome + "|" + strings.Join(trace, ";"))
	}, nil)
	if len(st.Diverged) > 0 {
		r.Fatal("replay divergence in %s: %v", sc, st.Diverged[0])
	}
	r.Add("shared_owner_executions", int64(st.Executions))
	mu.Lock()
	r.Sample(4, map[string]any{"config": sc.String(), "bound": bound, "executions": st.Executions, "choice_points": st.MaxDepth, "outcomes": outcomes})
	mu.Unlock()
	if outcomes["completed"] == 0 {
		r.Violation("shared:honest-history-fails", sc.String()+": not even the history without sessions in between completes", nil)
	}
}

func sharedCfgs(quick bool) []sharedCfg {
	k := keys.KindByName
	x509, x5, cs := protocol.X509KeyEnc, protocol.X5ChainKeyEnc, protocol.CoseKeyEnc
	out := []sharedCfg{
		{k("ec256"), x5, []keys.Kind{k("ec256"), k("ec384")}, []protocol.KeyEncoding{x509, x509}},
		{k("ec256"), x509, []keys.Kind{k("ec256"), k("rsa2048restr")}, []protocol.KeyEncoding{cs, x509}},
		{k("ec384"), cs, []keys.Kind{k("ec384"), k("ec256")}, []protocol.KeyEncoding{x5, x5}},
	}
	if !quick {
		out = append(out,
			sharedCfg{k("rsa2048restr"), x5, []keys.Kind{k("rsa2048restr"), k("ec384")}, []protocol.KeyEncoding{x509, cs}},
			sharedCfg{k("ec384"), x509, []keys.Kind{k("ec384"), k("ec384")}, []protocol.KeyEncoding{x5, cs}},
			sharedCfg{k("ec256"), cs, []keys.Kind{k("ec256"), k("ec256")}, []protocol.KeyEncoding{x5, x509}},
		)
	}
	return out
}
