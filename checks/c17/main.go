// C17: FSIM file transfers deliver identical files or nothing.
//
// Every case is one complete TO2 run of the real client against the real owner responders (in-process, real
// HTTP transport and handler) with the real fdo.download / fdo.upload / fdo.wget modules on both sides. A
// wrapper at the fdo.Transport seam (inside the encrypted tunnel) records every service-info KV and can
// rewrite one of them. Cases are enumerated, never sampled:
//
//	honest   sizes x chunk sizes x MTUs x contents
//	faults   for a transfer, EVERY in-flight KV of kind data / sha-384 / length x a fixed operator set
//	wget     in-process HTTP server behaviours (truncated body, wrong status, body error, wrong content)
//
// Oracle: honest -> TO2 succeeds and the destination holds exactly the announced bytes under the announced name;
// fault -> no file at the destination and no success report (done >= 0) from the receiver.
package main

import (
	"bytes"
	"context"
	"crypto/sha512"
	"encoding/json"
	"errors"
	"fmt"
	"io"
	"io/fs"
	"net/http"
	"net/url"
	"os"
	"path/filepath"
	"strings"
	"sync"
	"sync/atomic"
	"testing/fstest"
	"time"

	fdo "github.com/fido-device-onboard/go-fdo"
	"github.com/fido-device-onboard/go-fdo/cbor"
	"github.com/fido-device-onboard/go-fdo/fsim"
	"github.com/fido-device-onboard/go-fdo/kex"
	"github.com/fido-device-onboard/go-fdo/protocol"
	"github.com/fido-device-onboard/go-fdo/serviceinfo"

	"verif/internal/ev"
	"verif/internal/keys"
	"verif/internal/lab"
)

var r *ev.Run

// ---------------- case description ----------------

type fault struct {
	Index int    // index of the KV (in order of appearance at the seam, both directions) to rewrite; -1 none
	Op    string // operator name
}

type tcase struct {
	Kind    string // download upload wget
	Size    int
	Chunk   int    // download: DownloadContents.ChunkSize
	RecvMTU uint16 // device receive MTU (owner send budget); 0 default
	SendMTU uint16 // device send MTU; 0 not announced
	Content int    // content generator
	Must    bool   // download: MustDownload
	Fault   fault
	HTTP    string // wget: server behaviour
	NoSum   bool   // wget: no checksum announced
	// Reads: how the file the sender reads from answers Read calls (upload: the device's fs.File; download: the
	// owner's Contents; wget: the HTTP body): "" full reads; "half" every read returns half of what was asked;
	// "first1" the first read returns one byte; "second-1" the second read returns one byte less than asked;
	// "eof-with-data" the last bytes arrive together with io.EOF (all legal for an io.Reader)
	Reads string
	// CopyRename: the device module's optional Rename callback is a move that copies by path and then removes the
	// source (the cross-filesystem case the option exists for) instead of os.Rename
	CopyRename bool
}

// copyRename moves a file the way it has to be moved across file systems.
func copyRename(oldpath, newpath string) error {
	b, err := os.ReadFile(oldpath)
	if err != nil {
		return err
	}
	if err := os.WriteFile(newpath, b, 0o644); err != nil {
		return err
	}
	return os.Remove(oldpath)
}

// shortReader answers Read calls according to a pattern; it never invents or drops bytes.
type shortReader struct {
	data    []byte
	pos     int64
	calls   int
	pattern string
}

func (s *shortReader) Read(p []byte) (int, error) {
	if s.pos >= int64(len(s.data)) {
		return 0, io.EOF
	}
	want := len(p)
	if rest := len(s.data) - int(s.pos); want > rest {
		want = rest
	}
	n := want
	switch s.pattern {
	case "half":
		n = (want + 1) / 2
	case "first1":
		if s.calls == 0 {
			n = 1
		}
	case "second-1":
		if s.calls == 1 && want > 1 {
			n = want - 1
		}
	}
	s.calls++
	if n > want {
		n = want
	}
	if n < 1 && want > 0 {
		n = 1
	}
	copy(p, s.data[s.pos:s.pos+int64(n)])
	s.pos += int64(n)
	if s.pattern == "eof-with-data" && s.pos == int64(len(s.data)) {
		return n, io.EOF
	}
	return n, nil
}

func (s *shortReader) Seek(off int64, whence int) (int64, error) {
	switch whence {
	case io.SeekStart:
		s.pos = off
	case io.SeekCurrent:
		s.pos += off
	case io.SeekEnd:
		s.pos = int64(len(s.data)) + off
	}
	return s.pos, nil
}
func (s *shortReader) Close() error { return nil }

// shortFS serves one file through a shortReader.
type shortFS struct {
	name    string
	data    []byte
	pattern string
}

type shortFile struct {
	*shortReader
	info fs.FileInfo
}

func (f shortFile) Stat() (fs.FileInfo, error) { return f.info, nil }

func (s shortFS) Open(name string) (fs.File, error) {
	m := fstest.MapFS{s.name: &fstest.MapFile{Data: s.data}}
	f, err := m.Open(name)
	if err != nil {
		return nil, err
	}
	info, err := f.Stat()
	_ = f.Close()
	if err != nil {
		return nil, err
	}
	return shortFile{&shortReader{data: s.data, pattern: s.pattern}, info}, nil
}

func (c tcase) String() string { b, _ := json.Marshal(c); return string(b) }

func content(kind, n int) []byte {
	b := make([]byte, n)
	switch kind {
	case 0: // xorshift
		x := uint32(2463534242) + uint32(n)
		for i := range b {
			x ^= x << 13
			x ^= x >> 17
			x ^= x << 5
			b[i] = byte(x)
		}
	case 1: // bytes that look like CBOR heads and breaks
		pat := []byte{0x58, 0xff, 0x59, 0x00, 0x40, 0x5f, 0xff, 0x82, 0x18, 0x1b, 0xf6}
		for i := range b {
			b[i] = pat[i%len(pat)]
		}
	case 2:
		// all zero
	}
	return b
}

// ---------------- the seam ----------------

type obs struct {
	Dir string // "dev" (device -> owner) or "own"
	Key string
	Val []byte
}

type seam struct {
	inner  fdo.Transport
	f      fault
	n      int
	log    []obs
	idle   int
	cutoff int
	// idleSince: a module may legitimately be busy in real time (fdo.wget downloads in the background while empty
	// messages go back and forth); the cut-off therefore needs both many idle rounds AND real time without progress
	idleSince time.Time
	hit       bool
	detail    string
}

const idleWall = 4 * time.Second

var errIdle = errors.New("verif: idle cutoff: neither side sent service info for too many rounds")

func (s *seam) apply(dir string, kvs []*serviceinfo.KV) {
	for _, kv := range kvs {
		if s.n == s.f.Index {
			before := bytes.Clone(kv.Val)
			kv.Val = mutate(s.f.Op, kv.Val)
			s.hit = true
			s.detail = fmt.Sprintf("%s %s: %x -> %x", dir, kv.Key, head(before), head(kv.Val))
		}
		s.log = append(s.log, obs{dir, kv.Key, bytes.Clone(kv.Val)})
		s.n++
	}
}

func head(b []byte) []byte {
	if len(b) > 12 {
		return b[:12]
	}
	return b
}

func (s *seam) Send(ctx context.Context, msgType uint8, msg any, sess kex.Session) (uint8, io.ReadCloser, error) {
	devEmpty := true
	if msgType == 68 {
		b, err := cbor.Marshal(msg)
		if err != nil {
			return 0, nil, err
		}
		var d fdo.XDeviceServiceInfo
		if err := cbor.Unmarshal(b, &d); err != nil {
			return 0, nil, err
		}
		devEmpty = len(d.ServiceInfo) == 0
		s.apply("dev", d.ServiceInfo)
		msg = d
	}
	typ, rc, err := s.inner.Send(ctx, msgType, msg, sess)
	if err != nil || typ != 69 {
		return typ, rc, err
	}
	b, rerr := io.ReadAll(rc)
	_ = rc.Close()
	if rerr != nil {
		return typ, nil, rerr
	}
	var o fdo.XOwnerServiceInfo
	if err := cbor.Unmarshal(b, &o); err != nil {
		return typ, io.NopCloser(bytes.NewReader(b)), nil
	}
	if devEmpty && len(o.ServiceInfo) == 0 && !o.IsDone {
		if s.idle == 0 {
			s.idleSince = time.Now()
		}
		s.idle++
		if s.idle > s.cutoff {
			if time.Since(s.idleSince) > idleWall {
				return 0, nil, errIdle
			}
			time.Sleep(10 * time.Millisecond) // do not spin while a module works in the background
		}
	} else {
		s.idle = 0
	}
	s.apply("own", o.ServiceInfo)
	nb, err := cbor.Marshal(o)
	if err != nil {
		return 0, nil, err
	}
	return typ, io.NopCloser(bytes.NewReader(nb)), nil
}

// mutation operators on the raw CBOR value of a KV
var dataOps = []string{"flip-first", "flip-mid", "flip-last", "drop-last", "append-zero", "payload-first", "payload-last", "shorter-header", "longer-header", "empty"}

// An empty or null digest is indistinguishable from "no digest announced" (the digest is optional in fdo.download and
// fdo.wget), so removing it is not a mismatch and is not in the operator set.
var shaOps = []string{"flip-first", "flip-last", "payload-first", "payload-last", "drop-last", "short-47", "longer-header"}
var lenOps = []string{"plus1", "minus1", "zero", "double", "huge", "half", "negative"}

func mutate(op string, v []byte) []byte {
	b := bytes.Clone(v)
	payloadOff := func() int { // offset of the first payload byte of a CBOR byte string
		if len(b) == 0 {
			return 0
		}
		switch b[0] & 0x1f {
		case 24:
			return 2
		case 25:
			return 3
		case 26:
			return 5
		}
		return 1
	}
	switch op {
	case "flip-first":
		if len(b) > 0 {
			b[0] ^= 0x01
		}
	case "flip-mid":
		if len(b) > 0 {
			b[len(b)/2] ^= 0x40
		}
	case "flip-last":
		if len(b) > 0 {
			b[len(b)-1] ^= 0x80
		}
	case "payload-first":
		if o := payloadOff(); o < len(b) {
			b[o] ^= 0x01
		}
	case "payload-last":
		if len(b) > payloadOff() {
			b[len(b)-1] ^= 0x01
		}
	case "drop-last":
		if len(b) > 0 {
			b = b[:len(b)-1]
		}
	case "append-zero":
		b = append(b, 0)
	case "shorter-header", "longer-header":
		// re-encode the byte string with one payload byte less / one more
		var p []byte
		if cbor.Unmarshal(b, &p) == nil {
			if op == "shorter-header" && len(p) > 0 {
				p = p[:len(p)-1]
			} else if op == "longer-header" {
				p = append(p, 0x5a)
			}
			b, _ = cbor.Marshal(p)
		}
	case "empty":
		b = nil
	case "empty-bstr":
		b = []byte{0x40}
	case "short-47":
		var p []byte
		if cbor.Unmarshal(b, &p) == nil && len(p) > 1 {
			b, _ = cbor.Marshal(p[:len(p)-1])
		}
	case "null":
		b = []byte{0xf6}
	case "plus1", "minus1", "zero", "double", "huge", "half", "negative":
		var n int64
		if cbor.Unmarshal(b, &n) == nil {
			switch op {
			case "plus1":
				n++
			case "minus1":
				n--
			case "zero":
				n = 0
			case "double":
				n *= 2
			case "huge":
				n = 1 << 40
			case "half":
				n /= 2
			case "negative":
				n = -n
			}
			b, _ = cbor.Marshal(n)
		}
	}
	return b
}

// ---------------- one run ----------------

type world struct {
	w    *lab.World
	ctx  context.Context
	root string
	seq  int
}

func newWorld() *world {
	ctx := context.Background()
	w := lab.NewWorld(keys.Kinds[0], protocol.X509KeyEnc)
	if _, err := w.Manufacture(ctx, 1); err != nil {
		r.Fatal("manufacture: %v", err)
	}
	w.Owner.Reuse = true
	w.Owner.Handler.MaxContentLength = 1 << 18
	base := "/dev/shm"
	if _, err := os.Stat(base); err != nil {
		base = ""
	}
	root, err := os.MkdirTemp(base, "verif-c17-")
	if err != nil {
		r.Fatal("scratch: %v", err)
	}
	return &world{w: w, ctx: ctx, root: root}
}

type outcome struct {
	err      error
	log      []obs
	dest     map[string][]byte // files at the destination
	leftover int               // temp files left behind
	hit      bool
	detail   string
	data     []byte
	idleCut  bool
}

type memRT struct {
	data     []byte
	behave   string
	requests int
}

type errReader struct {
	data []byte
	off  int
}

func (e *errReader) Read(p []byte) (int, error) {
	if e.off >= len(e.data) {
		return 0, fmt.Errorf("connection reset by peer")
	}
	n := copy(p, e.data[e.off:])
	e.off += n
	return n, nil
}
func (e *errReader) Close() error { return nil }

// RoundTrip serves the wget URL in-process.
func (m *memRT) RoundTrip(req *http.Request) (*http.Response, error) {
	m.requests++
	resp := &http.Response{StatusCode: 200, Status: "200 OK", Proto: "HTTP/1.1", ProtoMajor: 1, ProtoMinor: 1, Header: http.Header{}, Request: req}
	body := m.data
	behave := m.behave
	// "<fault>-once": only the first request meets the fault, every later one is served correctly (a client that
	// retries must end with the identical file or with nothing)
	if b, once := strings.CutSuffix(behave, "-once"); once {
		behave = "ok"
		if m.requests == 1 {
			behave = b
		}
	}
	switch behave {
	case "ok":
	case "404":
		resp.StatusCode, resp.Status = 404, "404 Not Found"
	case "500":
		resp.StatusCode, resp.Status = 500, "500 Internal Server Error"
	case "refuse":
		return nil, fmt.Errorf("connection refused")
	case "reset-mid":
		resp.Body, resp.ContentLength = &errReader{data: body[:len(body)/2]}, int64(len(body))
		return resp, nil
	case "reset-end":
		resp.Body, resp.ContentLength = &errReader{data: body}, int64(len(body))+1
		return resp, nil
	case "flip":
		body = bytes.Clone(body)
		body[len(body)/2] ^= 1
	case "shorter":
		body = body[:len(body)-1]
	case "longer":
		body = append(bytes.Clone(body), 0)
	case "other":
		body = content(1, len(body))
		if bytes.Equal(body, m.data) {
			body[0] ^= 1
		}
	}
	resp.Body, resp.ContentLength = io.NopCloser(bytes.NewReader(body)), int64(len(body))
	return resp, nil
}

const fileName = "payload.bin"

func (wd *world) run(c tcase) outcome {
	wd.seq++
	dir := filepath.Join(wd.root, fmt.Sprintf("case%d", wd.seq))
	dest, tmp, src := filepath.Join(dir, "dest"), filepath.Join(dir, "tmp"), filepath.Join(dir, "src")
	for _, d := range []string{dest, tmp, src} {
		if err := os.MkdirAll(d, 0o755); err != nil {
			r.Fatal("%v", err)
		}
	}
	defer os.RemoveAll(dir)
	data := content(c.Content, c.Size)
	out := outcome{data: data}
	w := wd.w
	createTemp := func() (*os.File, error) { return os.CreateTemp(tmp, "t_*") }
	cfg := w.Dev.TO2Config(kex.ECDH256Suite, kex.A128GcmCipher)
	cfg.AllowCredentialReuse = true
	cfg.MaxServiceInfoSizeReceive = c.RecvMTU
	if c.SendMTU != 0 {
		mtu := c.SendMTU
		w.Owner.TO2.MaxDeviceServiceInfoSize = func(context.Context, fdo.Voucher) (uint16, error) { return mtu, nil }
	} else {
		w.Owner.TO2.MaxDeviceServiceInfoSize = nil
	}
	var owner serviceinfo.OwnerModule
	var modName string
	switch c.Kind {
	case "download":
		modName = "fdo.download"
		if c.Reads != "" {
			owner = &fsim.DownloadContents[*shortReader]{Name: fileName, Contents: &shortReader{data: data, pattern: c.Reads}, MustDownload: c.Must, ChunkSize: c.Chunk}
		} else {
			owner = &fsim.DownloadContents[*bytes.Reader]{Name: fileName, Contents: bytes.NewReader(data), MustDownload: c.Must, ChunkSize: c.Chunk}
		}
		dl := &fsim.Download{CreateTemp: createTemp, NameToPath: func(n string) string { return filepath.Join(dest, filepath.Base(n)) }}
		if c.CopyRename {
			dl.Rename = copyRename
		}
		cfg.DeviceModules = map[string]serviceinfo.DeviceModule{modName: dl}
	case "upload":
		modName = "fdo.upload"
		owner = &fsim.UploadRequest{Dir: dest, Name: fileName, CreateTemp: createTemp}
		var ufs fs.FS = fstest.MapFS{fileName: &fstest.MapFile{Data: data}}
		if c.Reads != "" {
			ufs = shortFS{fileName, data, c.Reads}
		}
		cfg.DeviceModules = map[string]serviceinfo.DeviceModule{modName: &fsim.Upload{FS: ufs}}
	case "wget":
		modName = "fdo.wget"
		sum := sha512.Sum384(data)
		u, _ := url.Parse("http://files.verif.example/" + fileName)
		cmd := &fsim.WgetCommand{Name: fileName, URL: u, Length: int64(len(data)), Checksum: sum[:]}
		if c.NoSum {
			cmd.Checksum = nil
		}
		owner = cmd
		wg := &fsim.Wget{
			CreateTemp: createTemp, NameToPath: func(n string) string { return filepath.Join(dest, filepath.Base(n)) },
			Client: &http.Client{Transport: &memRT{data: data, behave: c.HTTP}}, Timeout: time.Minute}
		if c.CopyRename {
			wg.Rename = copyRename
		}
		cfg.DeviceModules = map[string]serviceinfo.DeviceModule{modName: wg}
	}
	w.Owner.Mem.OwnerModules = func(context.Context, protocol.GUID, serviceinfo.Devmod, []string) []lab.NamedModule {
		return []lab.NamedModule{{Name: modName, Mod: owner}}
	}
	ht := lab.NewWire(w.Owner).Transport()
	ht.MaxContentLength = 1 << 18
	sm := &seam{inner: ht, f: c.Fault, cutoff: 40}
	_, out.err = fdo.TO2(wd.ctx, sm, nil, cfg)
	out.log, out.hit, out.detail = sm.log, sm.hit, sm.detail
	out.idleCut = errors.Is(out.err, errIdle)
	out.dest = map[string][]byte{}
	if ents, err := os.ReadDir(dest); err == nil {
		for _, e := range ents {
			b, _ := os.ReadFile(filepath.Join(dest, e.Name()))
			out.dest[e.Name()] = b
		}
	}
	if ents, err := os.ReadDir(tmp); err == nil {
		out.leftover = len(ents)
	}
	return out
}

// ---------------- oracle ----------------

type viol struct{ key, what string }

// successReports lists what the receiver told its peer.
func reports(c tcase, o outcome) (success, failure bool) {
	for _, x := range o.log {
		switch {
		case c.Kind != "upload" && x.Dir == "dev" && strings.HasSuffix(x.Key, ":done"):
			var n int64
			if cbor.Unmarshal(x.Val, &n) == nil && n >= 0 {
				success = true
			} else {
				failure = true
			}
		case c.Kind == "wget" && x.Dir == "dev" && strings.HasSuffix(x.Key, ":error"):
			failure = true
		}
	}
	if c.Kind == "upload" {
		// the receiver is the owner module: it reports by finishing (TO2 succeeds) or failing the session
		success, failure = o.err == nil, o.err != nil
	}
	return
}

var eofWithDataGivenUp, smallMTUGivenUp atomic.Int64

func judge(c tcase, o outcome) []viol {
	var vs []viol
	add := func(k, f string, a ...any) { vs = append(vs, viol{k, fmt.Sprintf(f, a...)}) }
	honest := c.Fault.Index < 0 && (c.Kind != "wget" || c.HTTP == "ok")
	if c.Fault.Index >= 0 && !o.hit {
		return nil // the fault site was never reached on this run (the transfer ended earlier); nothing to judge
	}
	success, failure := reports(c, o)
	if honest {
		if o.err != nil && c.RecvMTU != 0 && c.RecvMTU < 1300 {
			// below the default MTU a module may not be able to get its messages through at all: "nothing" is accepted
			if len(o.dest) > 0 {
				add("file-after-failed-small-mtu-transfer", "receive MTU %d: TO2 failed (%v) yet %d file(s) appeared", c.RecvMTU, o.err, len(o.dest))
			}
			smallMTUGivenUp.Add(1)
			return vs
		}
		if o.err != nil && c.Reads == "eof-with-data" {
			// a source that hands out its last bytes together with io.EOF: the sender may give up (the library treats
			// any error from Read as fatal). "Identical or nothing": giving up is accepted, a file is not.
			if len(o.dest) > 0 {
				add("file-after-sender-gave-up", "the sender failed on a read that returned data together with io.EOF, yet %d file(s) appeared at the destination", len(o.dest))
			}
			eofWithDataGivenUp.Add(1)
			return vs
		}
		if o.err != nil {
			add("honest-transfer-fails:"+classify(o.err), "TO2 fails: %v", o.err)
			return vs
		}
		got, ok := o.dest[fileName]
		switch {
		case !ok:
			add("honest-file-missing", "TO2 succeeded but %q is not at the destination (files there: %d)", fileName, len(o.dest))
		case !bytes.Equal(got, o.data):
			add("honest-file-differs", "%q holds %d bytes, sent %d, first difference at %d", fileName, len(got), len(o.data), firstDiff(got, o.data))
		}
		if len(o.dest) > 1 {
			add("extra-files", "%d files at the destination", len(o.dest))
		}
		if !success {
			add("honest-no-success-report", "the receiver never reported success")
		}
		return vs
	}
	if c.Kind == "wget" && strings.HasSuffix(c.HTTP, "-once") {
		// the fault hits the first request only: a receiver that gives up ends with nothing, one that retries must
		// end with the identical file; anything else at the destination is a violation
		got, ok := o.dest[fileName]
		switch {
		case ok && !bytes.Equal(got, o.data):
			add("file-differs-after-interrupted-transfer", "http %s: %q appeared with %d bytes (source %d), first difference at %d, success reported=%v", c.HTTP, fileName, len(got), len(o.data), firstDiff(got, o.data), success)
		case !ok && len(o.dest) > 0:
			add("file-despite-mismatch", "http %s: %d unexpected files at the destination", c.HTTP, len(o.dest))
		case !ok && success:
			add("success-without-file", "http %s: the receiver reported success but no file is at the destination", c.HTTP)
		}
		return vs
	}
	// a fault: the bytes the receiver got, the digest or the length differ from what was announced
	if got, ok := o.dest[fileName]; ok {
		if bytes.Equal(got, o.data) && valuePreserving(c) {
			return vs
		}
		add("file-despite-mismatch", "fault %s (%s): %q appeared at the destination with %d bytes (equal to the source: %v)", c.Fault.Op, o.detail, fileName, len(got), bytes.Equal(got, o.data))
	}
	if len(o.dest) > 0 {
		if _, ok := o.dest[fileName]; !ok {
			add("file-despite-mismatch", "fault %s: %d unexpected files at the destination", c.Fault.Op, len(o.dest))
		}
	}
	if success && !valuePreserving(c) {
		add("success-despite-mismatch", "fault %s (%s): the receiver reported success", c.Fault.Op, o.detail)
	}
	_ = failure
	return vs
}

// valuePreserving: operators that may leave the decoded value unchanged are judged by what arrives, not by the
// byte change (none of the operators in use is value preserving; kept for clarity).
func valuePreserving(c tcase) bool { return false }

func firstDiff(a, b []byte) int {
	for i := 0; i < len(a) && i < len(b); i++ {
		if a[i] != b[i] {
			return i
		}
	}
	return min(len(a), len(b))
}

func classify(err error) string {
	m := err.Error()
	for _, k := range []string{"not enough buffer space", "unexpected EOF", "MTU too small", "does not fit", "idle cutoff", "exceeding the MTU"} {
		if strings.Contains(m, k) {
			return k
		}
	}
	if len(m) > 60 {
		m = m[len(m)-60:]
	}
	return m
}

// ---------------- enumeration ----------------

func cases(thorough bool) []tcase {
	var out []tcase
	none := fault{Index: -1}
	type pair struct{ recv, send uint16 }
	pairs := []pair{{0, 0}, {1300, 1300}, {1301, 1302}, {4096, 2048}, {65535, 65535}}
	if thorough {
		pairs = append(pairs, pair{1303, 1300}, pair{1400, 1500}, pair{2048, 4096}, pair{32768, 1300}, pair{1300, 32768})
	}
	// download: sizes around multiples of the effective chunk
	chunks := []int{0, -1, 1, 2, 7, 100, 1013, 1014, 1015, 1268, 5000, 65535}
	for _, p := range pairs {
		recv := int(p.recv)
		if recv == 0 {
			recv = 1300
		}
		for _, ch := range chunks {
			eff := ch
			switch {
			case ch == 0:
				eff = 1014
			case ch < 0:
				eff = 65535
			}
			// what fits beside the data key in one message bounds the chunk
			eff = min(eff, recv-30)
			var sizes []int
			for _, k := range []int{1, 2, 3} {
				for d := -2; d <= 2; d++ {
					sizes = append(sizes, k*eff+d)
				}
			}
			sizes = append(sizes, 1, 2, 3, recv-1, recv, recv+1, 3*recv+5)
			if thorough {
				// every size up to three chunks for small chunks, and a dense band around each multiple otherwise
				if eff <= 100 {
					for sz := 1; sz <= 3*eff+3; sz++ {
						sizes = append(sizes, sz)
					}
				} else {
					for _, k := range []int{1, 2, 3, 4} {
						for d := -12; d <= 12; d++ {
							sizes = append(sizes, k*eff+d)
						}
					}
				}
			}
			seen := map[int]bool{}
			for _, sz := range sizes {
				if sz < 1 || seen[sz] || sz/max(eff, 1) > 60 {
					continue
				}
				seen[sz] = true
				for cont := 0; cont < 3; cont++ {
					if !thorough && cont != sz%3 && p.recv != 1300 {
						continue
					}
					out = append(out, tcase{Kind: "download", Size: sz, Chunk: ch, RecvMTU: p.recv, SendMTU: p.send, Content: cont, Must: sz%2 == 0, Fault: none})
				}
			}
		}
		// upload: sizes around multiples of the fixed 1014-byte chunk and of what fits in a message
		send := int(p.send)
		if send == 0 {
			send = 1300
		}
		seen := map[int]bool{}
		for _, base := range []int{1014, send, send - 5} {
			for _, k := range []int{1, 2, 3} {
				for d := -3; d <= 3; d++ {
					seen[k*base+d] = true
				}
			}
		}
		for _, sz := range []int{1, 2, 3, 10, 100, 1000, 5000} {
			seen[sz] = true
		}
		if thorough {
			for _, base := range []int{1014, send, send - 5, send - 21} {
				for _, k := range []int{1, 2, 3, 4, 5} {
					for d := -25; d <= 25; d++ {
						seen[k*base+d] = true
					}
				}
			}
			for sz := 1; sz <= 64; sz++ {
				seen[sz] = true
			}
		}
		for sz := range seen {
			out = append(out, tcase{Kind: "upload", Size: sz, RecvMTU: p.recv, SendMTU: p.send, Content: sz % 3, Fault: none})
		}
	}
	// senders whose source answers Read calls short (legal for any io.Reader / fs.File): the file must still arrive
	// identical, or nothing
	for _, pat := range []string{"half", "first1", "second-1", "eof-with-data"} {
		for _, sz := range []int{1, 2, 5, 1013, 1014, 1015, 2027, 2028, 2029, 3100} {
			out = append(out, tcase{Kind: "upload", Size: sz, Content: sz % 3, Fault: none, Reads: pat})
			for _, ch := range []int{0, 7, 1268} {
				if ch == 7 && sz > 300 {
					continue
				}
				out = append(out, tcase{Kind: "download", Size: sz, Chunk: ch, Content: sz % 3, Must: sz%2 == 0, Fault: none, Reads: pat})
			}
		}
	}
	// wget at receive MTUs far below the default: the owner's command (active, sha-384, name, url) may then take several
	// rounds to arrive; honest transfers arrive identical or fail, corrupted ones never leave a file
	for _, mtu := range []uint16{64, 72, 80, 88, 96, 104, 112, 120, 128, 160, 256, 512} {
		for _, b := range []string{"ok", "flip", "other", "shorter"} {
			out = append(out, tcase{Kind: "wget", Size: 100, Content: 1, HTTP: b, RecvMTU: mtu, SendMTU: 1300, Fault: none})
		}
	}
	// the device module's Rename option set to a copying move
	for _, sz := range []int{1, 100, 1014, 5000, 32767, 32768, 32769, 70000} {
		for _, ch := range []int{0, 7, 1268} {
			if ch == 7 && sz > 300 {
				continue
			}
			out = append(out, tcase{Kind: "download", Size: sz, Chunk: ch, Content: sz % 3, Must: sz%2 == 0, Fault: none, CopyRename: true})
		}
	}
	// wget: sizes and server behaviours
	for _, sz := range []int{1, 2, 100, 1014, 4096, 70000} {
		for _, b := range []string{"ok", "404", "500", "refuse", "reset-mid", "reset-end", "flip", "shorter", "longer", "other", "refuse-once", "500-once", "reset-mid-once", "reset-end-once", "shorter-once", "flip-once"} {
			if sz == 1 && b == "reset-mid" {
				continue
			}
			out = append(out, tcase{Kind: "wget", Size: sz, Content: sz % 3, HTTP: b, Fault: none})
		}
		out = append(out, tcase{Kind: "wget", Size: sz, Content: sz % 3, HTTP: "ok", NoSum: true, Fault: none})
		out = append(out, tcase{Kind: "wget", Size: sz, Content: sz % 3, HTTP: "ok", Fault: none, CopyRename: true})
	}
	return out
}

// faultCases derives, from an honest run's KV log, one case per (fault site, operator).
func faultCases(base tcase, log []obs) []tcase {
	var out []tcase
	for i, x := range log {
		var ops []string
		switch {
		case strings.HasSuffix(x.Key, ":data"):
			ops = dataOps
		case strings.HasSuffix(x.Key, ":sha-384"):
			ops = shaOps
		case strings.HasSuffix(x.Key, ":length"):
			ops = lenOps
		}
		for _, op := range ops {
			if bytes.Equal(mutate(op, x.Val), x.Val) {
				continue // the operator does not change this value
			}
			c := base
			c.Fault = fault{Index: i, Op: op}
			out = append(out, c)
		}
	}
	return out
}

func runAll(cs []tcase, mode string, collect func(tcase, outcome)) {
	var wg sync.WaitGroup
	jobs := make(chan tcase, len(cs))
	for _, c := range cs {
		jobs <- c
	}
	close(jobs)
	var mu sync.Mutex
	for w := 0; w < 16; w++ {
		wg.Add(1)
		go func() {
			defer wg.Done()
			wd := newWorld()
			defer os.RemoveAll(wd.root)
			for c := range jobs {
				done := make(chan outcome, 1)
				go func() { done <- wd.run(c) }()
				select {
				case o := <-done:
					r.Evaluations.Add(1)
					r.States.Add(1) // one complete protocol run
					r.Transitions.Add(int64(len(o.log)))
					r.Traces.Add(1)
					if c.Fault.Index >= 0 && o.hit {
						r.Sample(4, map[string]any{"case": c, "fault": o.detail, "to2_error": fmt.Sprint(o.err), "files_at_destination": len(o.dest)})
					} else if c.Fault.Index < 0 {
						r.Sample(2, map[string]any{"case": c, "to2_error": fmt.Sprint(o.err), "files_at_destination": len(o.dest)})
					}
					vs := judge(c, o)
					for _, v := range vs {
						r.Violation(v.key, fmt.Sprintf("[%s size=%d chunk=%d recv=%d send=%d http=%s] %s", c.Kind, c.Size, c.Chunk, c.RecvMTU, c.SendMTU, c.HTTP, v.what), map[string]any{"mode": mode, "case": c})
					}
					s, f := reports(c, o)
					r.Distinct(fmt.Sprintf("%s|%s|%s|%s|err=%v|success=%v|failure=%v|file=%v|idle=%v", mode, c.Kind, c.Fault.Op, c.HTTP, o.err != nil, s, f, len(o.dest) > 0, o.idleCut))
					if collect != nil {
						mu.Lock()
						collect(c, o)
						mu.Unlock()
					}
				case <-time.After(120 * time.Second):
					r.Evaluations.Add(1)
					r.Violation("hang", fmt.Sprintf("[%s size=%d chunk=%d recv=%d send=%d] TO2 did not finish within 120 s", c.Kind, c.Size, c.Chunk, c.RecvMTU, c.SendMTU), map[string]any{"mode": mode, "case": c})
					wd = newWorld()
				}
			}
		}()
	}
	wg.Wait()
}

func main() {
	r = ev.Start("C17", "model_checking")
	r.Rule("Each case is a complete TO2 run (real client, HTTP transport, handler, owner responders, real fsim modules on both sides, files on a scratch file system). Honest grid: download with ChunkSize in {0,-1,1,2,7,100,1013,1014,1015,1268,5000,65535} x sizes {k*chunk+d : k in 1..3, d in -2..2} and around the MTU x MTU pairs from 1300 to 65535 x three content generators x MustDownload; upload with sizes {k*base+d : base in 1014, MTU, MTU-5; k in 1..3; d in -3..3} and small sizes; wget against an in-process HTTP server with ten behaviours (and six of them hitting only the first request) x six sizes; senders whose source answers Read short; device modules whose Rename option is a copying move. Fault grid: for a set of base transfers of each kind, EVERY service-info KV of kind data, sha-384 or length that crosses the tunnel x every operator (data: 10 operators, sha-384: 7, length: 7; removing the optional digest altogether is not a mismatch and not an operator) that changes the value. Oracle: honest -> TO2 succeeds, the destination holds exactly one file with the announced name and bytes, the receiver reported success; fault -> no file at the destination and no success report. A run in which neither side sends service info for 40 consecutive rounds is cut off and judged by the same oracle.")
	if r.Replay != "" {
		replay(r.Replay)
		return
	}
	thorough := !r.Quick()
	t0 := time.Now()
	honest := cases(thorough)
	runAll(honest, "honest", nil)
	r.Add("honest_cases", int64(len(honest)))
	r.Set("seconds_honest", int64(time.Since(t0).Seconds()))
	// fault bases: small transfers of each kind with several data messages
	t0 = time.Now()
	bases := []tcase{
		{Kind: "download", Size: 2500, Chunk: 0, RecvMTU: 1300, SendMTU: 1300, Must: true, Fault: fault{Index: -1}},
		{Kind: "download", Size: 2028, Chunk: 1014, RecvMTU: 1300, SendMTU: 1300, Must: false, Fault: fault{Index: -1}},
		{Kind: "download", Size: 9, Chunk: 4, RecvMTU: 0, SendMTU: 0, Must: false, Content: 1, Fault: fault{Index: -1}},
		{Kind: "download", Size: 700, Chunk: -1, RecvMTU: 65535, SendMTU: 65535, Must: true, Fault: fault{Index: -1}},
		{Kind: "upload", Size: 2500, RecvMTU: 1300, SendMTU: 1300, Fault: fault{Index: -1}},
		{Kind: "upload", Size: 1014, RecvMTU: 0, SendMTU: 0, Content: 1, Fault: fault{Index: -1}},
		{Kind: "upload", Size: 5, RecvMTU: 1300, SendMTU: 4096, Fault: fault{Index: -1}},
		{Kind: "wget", Size: 100, HTTP: "ok", Fault: fault{Index: -1}},
	}
	if thorough {
		bases = append(bases,
			tcase{Kind: "download", Size: 6000, Chunk: 1000, RecvMTU: 1300, SendMTU: 1300, Must: true, Content: 2, Fault: fault{Index: -1}},
			tcase{Kind: "download", Size: 1, Chunk: 1, RecvMTU: 1300, SendMTU: 1300, Must: false, Fault: fault{Index: -1}},
			tcase{Kind: "download", Size: 3000, Chunk: 5000, RecvMTU: 4096, SendMTU: 1300, Must: false, Content: 1, Fault: fault{Index: -1}},
			tcase{Kind: "upload", Size: 6000, RecvMTU: 4096, SendMTU: 4096, Content: 2, Fault: fault{Index: -1}},
			tcase{Kind: "upload", Size: 1, RecvMTU: 1300, SendMTU: 1300, Fault: fault{Index: -1}},
			tcase{Kind: "wget", Size: 1, HTTP: "ok", Fault: fault{Index: -1}})
		for _, sz := range []int{2, 1013, 1014, 1015, 2027, 2029, 3042, 4100} {
			for _, ch := range []int{0, 7, 1014, -1} {
				if ch == 7 && sz > 100 {
					continue
				}
				bases = append(bases, tcase{Kind: "download", Size: sz, Chunk: ch, RecvMTU: 1300, SendMTU: 1300, Must: sz%2 == 0, Content: sz % 3, Fault: fault{Index: -1}})
			}
			bases = append(bases, tcase{Kind: "upload", Size: sz, RecvMTU: 1300, SendMTU: 1300, Content: sz % 3, Fault: fault{Index: -1}},
				tcase{Kind: "upload", Size: sz, RecvMTU: 65535, SendMTU: 2048, Content: sz % 3, Fault: fault{Index: -1}})
		}
		bases = append(bases, tcase{Kind: "download", Size: 20, Chunk: 7, RecvMTU: 1300, SendMTU: 1300, Must: true, Fault: fault{Index: -1}},
			tcase{Kind: "download", Size: 21, Chunk: 7, RecvMTU: 1300, SendMTU: 1300, Fault: fault{Index: -1}},
			tcase{Kind: "wget", Size: 4096, HTTP: "ok", Fault: fault{Index: -1}})
	}
	var faults []tcase
	runAll(bases, "fault-base", func(c tcase, o outcome) { faults = append(faults, faultCases(c, o.log)...) })
	runAll(faults, "fault", nil)
	r.Add("fault_cases", int64(len(faults)))
	r.Set("seconds_faults", int64(time.Since(t0).Seconds()))
	r.Assume("MTUs below the protocol default of 1300 are outside the grid: fdo.upload sends fixed 1014-byte chunks that the protocol sizes for that minimum")
	r.Assume("a transfer whose length was raised in transit never completes; the harness cuts the run after 40 consecutive rounds without service info in either direction instead of waiting for the library's 1e6-round limit")
	r.Set("transfers_given_up_on_read_returning_data_with_eof", int(eofWithDataGivenUp.Load()))
	r.Set("small_mtu_transfers_that_failed_cleanly", int(smallMTUGivenUp.Load()))
	r.Finish()
}

func replay(path string) {
	b, err := os.ReadFile(path)
	if err != nil {
		r.Fatal("%v", err)
	}
	var f struct {
		Replay struct {
			Case tcase `json:"case"`
		} `json:"replay"`
	}
	if err := json.Unmarshal(b, &f); err != nil {
		r.Fatal("%v", err)
	}
	wd := newWorld()
	defer os.RemoveAll(wd.root)
	o := wd.run(f.Replay.Case)
	fmt.Printf("case: %s\nTO2 error: %v\nfault applied: %v %s\n", f.Replay.Case, o.err, o.hit, o.detail)
	for i, x := range o.log {
		fmt.Printf("  %3d %s %-22s %d bytes %x\n", i, x.Dir, x.Key, len(x.Val), head(x.Val))
	}
	for n, b := range o.dest {
		fmt.Printf("  destination: %s %d bytes equal-to-source=%v\n", n, len(b), bytes.Equal(b, o.data))
	}
	for _, v := range judge(f.Replay.Case, o) {
		fmt.Printf("VIOLATION-DETAIL %s: %s\n", v.key, v.what)
	}
	os.Exit(0)
}
