// C20 — rendezvous instructions are interpreted totally and per role as specified.
//
// Exhaustive enumeration of instruction lists (all lists up to a bound over an alphabet of
// variable x value-class tokens, all permutations of distinct-variable lists) on the real
// protocol.ParseDeviceRvInfo / ParseOwnerRvInfo against an independent table-driven reference interpreter.
package main

import (
	"bytes"
	"encoding/hex"
	"fmt"
	"net"
	"sort"
	"strconv"
	"strings"
	"sync"
	"time"

	"github.com/fido-device-onboard/go-fdo/protocol"

	"verif/internal/ev"
	"verif/internal/probe"
	rc "verif/internal/refcbor"
)

type tok struct {
	v     protocol.RvVar
	val   []byte
	class string // valid / malformed:<kind> / boundary
}

func enc(it *rc.Item) []byte { return rc.Encode(it) }

func alphabet(thorough bool) []tok {
	var out []tok
	add := func(v protocol.RvVar, class string, val []byte) { out = append(out, tok{v, val, class}) }
	malformed := func(v protocol.RvVar, valid []byte, wrongType []byte) {
		add(v, "malformed:empty", nil)
		add(v, "malformed:wrongtype", wrongType)
		if len(valid) > 1 {
			add(v, "malformed:truncated", valid[:len(valid)-1])
		}
		add(v, "malformed:trailing", append(append([]byte{}, valid...), 0x00))
	}
	// flags
	for _, v := range []protocol.RvVar{protocol.RVDevOnly, protocol.RVOwnerOnly, protocol.RVBypass, protocol.RVUserInput} {
		add(v, "valid", nil)
		if thorough {
			add(v, "valid:withvalue", enc(rc.Bool(true)))
		}
	}
	ip4 := enc(rc.Bs([]byte{10, 1, 2, 3}))
	add(protocol.RVIPAddress, "valid", ip4)
	add(protocol.RVIPAddress, "valid", enc(rc.Bs(net.ParseIP("2001:db8::1"))))
	if thorough {
		add(protocol.RVIPAddress, "valid", enc(rc.Bs(net.ParseIP("10.9.8.7").To16())))
	}
	malformed(protocol.RVIPAddress, ip4, enc(rc.U(7)))
	for _, v := range []protocol.RvVar{protocol.RVDevPort, protocol.RVOwnerPort} {
		for _, p := range []uint64{0, 1, 8080, 65535} {
			add(v, "valid", enc(rc.U(p)))
		}
		add(v, "malformed:range", enc(rc.U(65536)))
		add(v, "malformed:negative", enc(rc.N(0)))
		malformed(v, enc(rc.U(8080)), enc(rc.T("80")))
	}
	add(protocol.RVDns, "valid", enc(rc.T("rv.example.com")))
	add(protocol.RVDns, "valid", enc(rc.T("a")))
	add(protocol.RVDns, "boundary:emptystring", enc(rc.T("")))
	malformed(protocol.RVDns, enc(rc.T("rv.example.com")), enc(rc.Bs([]byte("rv"))))
	h256 := enc(rc.A(rc.N(15), rc.Bs(bytes.Repeat([]byte{0xaa}, 32))))
	h384 := enc(rc.A(rc.N(42), rc.Bs(bytes.Repeat([]byte{0xbb}, 48))))
	for _, v := range []protocol.RvVar{protocol.RVSvCertHash, protocol.RVClCertHash} {
		add(v, "valid", h256)
		add(v, "valid", h384)
		malformed(v, h256, enc(rc.Bs([]byte{1})))
	}
	for _, v := range []protocol.RvVar{protocol.RVWifiSsid, protocol.RVWifiPw} {
		add(v, "valid", enc(rc.T("net")))
		malformed(v, enc(rc.T("net")), enc(rc.U(1)))
	}
	for _, m := range []uint64{0, 9, 10, 19, 20, 21, 22, 255} {
		add(protocol.RVMedium, "valid", enc(rc.U(m)))
	}
	add(protocol.RVMedium, "malformed:range", enc(rc.U(256)))
	add(protocol.RVMedium, "malformed:negative", enc(rc.N(0)))
	malformed(protocol.RVMedium, enc(rc.U(255)), enc(rc.T("x")))
	for p := uint64(0); p <= 7; p++ {
		add(protocol.RVProtocol, "valid", enc(rc.U(p)))
	}
	add(protocol.RVProtocol, "malformed:range", enc(rc.U(256)))
	malformed(protocol.RVProtocol, enc(rc.U(200)), enc(rc.T("http")))
	for _, d := range []uint64{0, 1, 3600, 1<<32 - 1} {
		add(protocol.RVDelaysec, "valid", enc(rc.U(d)))
	}
	malformed(protocol.RVDelaysec, enc(rc.U(3600)), enc(rc.T("1")))
	add(protocol.RVExtRV, "valid", enc(rc.A(rc.T("mech"))))
	add(protocol.RVExtRV, "valid", enc(rc.A(rc.T("mech"), rc.U(1))))
	add(protocol.RVExtRV, "valid", enc(rc.A(rc.T("mech"), rc.U(1), rc.Bs([]byte{0}))))
	add(protocol.RVExtRV, "boundary:emptyarray", enc(rc.A()))
	add(protocol.RVExtRV, "malformed:empty", nil)
	add(protocol.RVExtRV, "malformed:wrongtype", enc(rc.T("mech")))
	add(protocol.RVExtRV, "malformed:truncated", enc(rc.A(rc.T("mech"), rc.U(1)))[:3])
	add(protocol.RVExtRV, "malformed:firstnottext", enc(rc.A(rc.U(5), rc.U(1))))
	return out
}

// ---- reference interpreter ----

type refDir struct {
	filtered             bool
	urls                 []string
	urlsDontCare         bool
	bypass               bool
	eth, wlan            *uint8
	ssid, pass           string
	extMech              string
	extArgs              []byte
	extDontCare          bool
	delay                time.Duration
	delayDontCare        bool
	serverCert, serverCA *protocol.Hash
	dup                  map[protocol.RvVar]bool
}

// one well-formed item of the expected type occupying the whole value, else nil
func whole(val []byte) *rc.Item {
	it, n, err := rc.Parse(val)
	if err != nil || n != len(val) {
		return nil
	}
	return it
}

func refHash(val []byte) *protocol.Hash {
	it := whole(val)
	if it == nil || it.Kind != rc.Array || len(it.Items) != 2 || it.Items[1].Kind != rc.Bytes {
		return nil
	}
	a := it.Items[0]
	var alg int64
	switch {
	case a.Kind == rc.Uint && a.U < 1<<62:
		alg = int64(a.U)
	case a.Kind == rc.Nint && a.U < 1<<62:
		alg = -int64(a.U) - 1
	default:
		return nil
	}
	return &protocol.Hash{Algorithm: protocol.HashAlg(alg), Value: it.Items[1].B}
}

func reference(list []tok, device bool) refDir {
	d := refDir{dup: map[protocol.RvVar]bool{}}
	seen := map[protocol.RvVar]int{}
	for _, t := range list {
		seen[t.v]++
		if seen[t.v] > 1 {
			d.dup[t.v] = true
		}
	}
	for _, t := range list {
		if (t.v == protocol.RVDevOnly && !device) || (t.v == protocol.RVOwnerOnly && device) {
			d.filtered = true
			return d
		}
	}
	scheme, defPort, port, dns := "tls", "", "", ""
	var ipb []byte
	ipOK := false
	for _, t := range list {
		it := whole(t.val)
		switch t.v {
		case protocol.RVBypass:
			d.bypass = true
		case protocol.RVProtocol:
			if it != nil && it.Kind == rc.Uint && it.U <= 255 {
				switch it.U {
				case 1:
					scheme, defPort = "http", "80"
				case 2:
					scheme, defPort = "https", "443"
				case 3:
					scheme, defPort = "tcp", ""
				case 4:
					scheme, defPort = "tls", ""
				case 5:
					scheme, defPort = "coap+tcp", "5683"
				case 6:
					scheme, defPort = "coap", "5683"
				case 0:
					// REST: unsupported by the library, documented as "use default"
				default:
					// unassigned protocol numbers: nothing specified
				}
			}
		case protocol.RVDevPort, protocol.RVOwnerPort:
			if (t.v == protocol.RVDevPort) != device {
				continue
			}
			if it != nil && it.Kind == rc.Uint && it.U <= 65535 {
				port = strconv.FormatUint(it.U, 10)
			}
		case protocol.RVDns:
			if it != nil && it.Kind == rc.Text {
				dns = string(it.B)
			} else if it != nil && it.Kind == rc.Bytes {
				d.urlsDontCare = true // byte string where text is expected: the decoder treats both alike
			}
		case protocol.RVIPAddress:
			if it != nil && it.Kind == rc.Bytes {
				ipb, ipOK = it.B, true
				if len(it.B) != 4 && len(it.B) != 16 {
					d.urlsDontCare = true
				}
			} else if it != nil && it.Kind == rc.Text {
				d.urlsDontCare = true
			}
		case protocol.RVMedium:
			if it != nil && it.Kind == rc.Uint && it.U <= 255 {
				m := uint8(it.U)
				switch {
				case m < 10:
					d.eth = &m
				case m < 20:
					m -= 10
					d.wlan = &m
				case m == 20:
					d.eth = &m
				case m == 21:
					d.wlan = &m
				}
			}
		case protocol.RVWifiSsid:
			if it != nil && (it.Kind == rc.Text || it.Kind == rc.Bytes) {
				d.ssid = string(it.B)
			}
		case protocol.RVWifiPw:
			if it != nil && (it.Kind == rc.Text || it.Kind == rc.Bytes) {
				d.pass = string(it.B)
			}
		case protocol.RVDelaysec:
			if it != nil && it.Kind == rc.Uint && it.U <= 1<<32-1 {
				d.delay = time.Duration(it.U) * time.Second
			} else if it != nil && (it.Kind == rc.Uint || it.Kind == rc.Nint) {
				d.delayDontCare = true // well-typed integer outside uint32: not tabled
			}
		case protocol.RVSvCertHash:
			if h := refHash(t.val); h != nil {
				d.serverCert = h
			}
		case protocol.RVClCertHash:
			if h := refHash(t.val); h != nil {
				d.serverCA = h
			}
		case protocol.RVExtRV:
			if it != nil && it.Kind == rc.Array && len(it.Items) >= 1 && it.Items[0].Kind == rc.Text {
				d.extMech = string(it.Items[0].B)
				d.extArgs = rc.Encode(rc.A(it.Items[1:]...))
			} else if it != nil && it.Kind == rc.Array && len(it.Items) >= 1 {
				d.extDontCare = false // first element not text: ignored
			}
		}
	}
	if port == "" {
		port = defPort
	}
	mk := func(host string) string {
		if port != "" {
			host = net.JoinHostPort(host, port)
		}
		return scheme + "://" + host
	}
	if dns != "" {
		d.urls = append(d.urls, mk(dns))
	}
	if ipOK && len(ipb) > 0 {
		d.urls = append(d.urls, mk(net.IP(ipb).String()))
	}
	if d.dup[protocol.RVProtocol] || d.dup[protocol.RVDevPort] || d.dup[protocol.RVOwnerPort] || d.dup[protocol.RVDns] || d.dup[protocol.RVIPAddress] {
		d.urlsDontCare = true
	}
	return d
}

func u8s(p *uint8) string {
	if p == nil {
		return "nil"
	}
	return strconv.Itoa(int(*p))
}

func hs(h *protocol.Hash) string {
	if h == nil {
		return "nil"
	}
	return fmt.Sprintf("%d:%x", int64(h.Algorithm), h.Value)
}

func urlsOf(d protocol.RvDirective) []string {
	var out []string
	for _, u := range d.URLs {
		out = append(out, u.String())
	}
	return out
}

// compare returns the first mismatching field name, or "".
func compare(got protocol.RvDirective, want refDir) (string, string) {
	if want.filtered {
		if len(got.URLs) != 0 {
			return "role-filter", fmt.Sprintf("directive for the other role yielded addresses %v", urlsOf(got))
		}
		if got.Bypass || got.EthIface != nil || got.WlanIface != nil || got.WlanSSID != "" || got.WlanPass != "" || got.ExtMechanism != "" || got.Delay != 0 || got.ServerCert != nil || got.ServerCA != nil {
			return "role-filter", "directive for the other role contributed fields"
		}
		return "", ""
	}
	if !want.urlsDontCare && strings.Join(urlsOf(got), " ") != strings.Join(want.urls, " ") {
		return "urls", fmt.Sprintf("URLs %v, reference %v", urlsOf(got), want.urls)
	}
	if got.Bypass != want.bypass {
		return "bypass", fmt.Sprintf("Bypass %v, reference %v", got.Bypass, want.bypass)
	}
	if !want.dup[protocol.RVMedium] && (u8s(got.EthIface) != u8s(want.eth) || u8s(got.WlanIface) != u8s(want.wlan)) {
		return "medium", fmt.Sprintf("Eth/Wlan %s/%s, reference %s/%s", u8s(got.EthIface), u8s(got.WlanIface), u8s(want.eth), u8s(want.wlan))
	}
	if !want.dup[protocol.RVWifiSsid] && got.WlanSSID != want.ssid {
		return "ssid", fmt.Sprintf("SSID %q, reference %q", got.WlanSSID, want.ssid)
	}
	if !want.dup[protocol.RVWifiPw] && got.WlanPass != want.pass {
		return "wifipw", fmt.Sprintf("password %q, reference %q", got.WlanPass, want.pass)
	}
	if !want.dup[protocol.RVExtRV] && (got.ExtMechanism != want.extMech || (want.extMech != "" && !bytes.Equal(got.ExtArguments, want.extArgs))) {
		return "extrv", fmt.Sprintf("ext mechanism %q args %x, reference %q args %x", got.ExtMechanism, got.ExtArguments, want.extMech, want.extArgs)
	}
	if !want.dup[protocol.RVDelaysec] && !want.delayDontCare && got.Delay != want.delay {
		return "delay", fmt.Sprintf("delay %v, reference %v", got.Delay, want.delay)
	}
	if !want.dup[protocol.RVSvCertHash] && hs(got.ServerCert) != hs(want.serverCert) {
		return "svcerthash", fmt.Sprintf("server cert hash %s, reference %s", hs(got.ServerCert), hs(want.serverCert))
	}
	if !want.dup[protocol.RVClCertHash] && hs(got.ServerCA) != hs(want.serverCA) {
		return "clcerthash", fmt.Sprintf("CA cert hash %s, reference %s", hs(got.ServerCA), hs(want.serverCA))
	}
	return "", ""
}

func render(d protocol.RvDirective) string {
	return fmt.Sprintf("urls=%v bypass=%v eth=%s wlan=%s ssid=%q pw=%q ext=%q/%x delay=%v sv=%s ca=%s", urlsOf(d), d.Bypass, u8s(d.EthIface), u8s(d.WlanIface),
		d.WlanSSID, d.WlanPass, d.ExtMechanism, d.ExtArguments, d.Delay, hs(d.ServerCert), hs(d.ServerCA))
}

func describe(list []tok) []string {
	var out []string
	for _, t := range list {
		out = append(out, fmt.Sprintf("var%d=%s(%s)", t.v, hex.EncodeToString(t.val), t.class))
	}
	return out
}

var r *ev.Run

func parse(list []tok, device bool) (dir protocol.RvDirective, ok bool) {
	ins := make([]protocol.RvInstruction, len(list))
	for i, t := range list {
		ins[i] = protocol.RvInstruction{Variable: t.v, Value: t.val}
	}
	var ds []protocol.RvDirective
	p := probe.Call(func() {
		if device {
			ds = protocol.ParseDeviceRvInfo([][]protocol.RvInstruction{ins})
		} else {
			ds = protocol.ParseOwnerRvInfo([][]protocol.RvInstruction{ins})
		}
	})
	if p != nil {
		r.Violation(p.Key(), fmt.Sprintf("parsing %v (device=%v) panics: %s in %s", describe(list), device, p.Value, p.Frame), map[string]any{"list": describe(list), "device": device})
		return dir, false
	}
	if len(ds) != 1 {
		r.Violation("count", fmt.Sprintf("1 directive in, %d out", len(ds)), map[string]any{"list": describe(list)})
		return dir, false
	}
	return ds[0], true
}

func checkList(list []tok) {
	for _, device := range []bool{true, false} {
		r.Evaluations.Add(1)
		got, ok := parse(list, device)
		if !ok {
			continue
		}
		want := reference(list, device)
		if field, what := compare(got, want); field != "" {
			rel := map[string][]protocol.RvVar{"urls": {2, 3, 4, 5, 12}, "medium": {11}, "ssid": {9}, "wifipw": {10}, "extrv": {15}, "delay": {13}, "svcerthash": {6}, "clcerthash": {7}, "role-filter": {0, 1}, "bypass": {14}}[field]
			var parts []string
			for _, t := range list {
				for _, v := range rel {
					if t.v == v {
						parts = append(parts, fmt.Sprintf("var%d:%s", t.v, t.class))
					}
				}
			}
			sort.Strings(parts)
			cls := ":" + strings.Join(parts, ",")
			r.Violation("mismatch:"+field+cls, fmt.Sprintf("%v (device=%v): %s", describe(list), device, what), map[string]any{"list": describe(list), "device": device})
		}
		r.Distinct(render(got))
	}
}

func permutations(list []tok, f func([]tok)) {
	var rec func(k int)
	rec = func(k int) {
		if k == len(list) {
			f(list)
			return
		}
		for i := k; i < len(list); i++ {
			list[k], list[i] = list[i], list[k]
			rec(k + 1)
			list[k], list[i] = list[i], list[k]
		}
	}
	rec(0)
}

func main() {
	r = ev.Start("C20", "exploration")
	al := alphabet(!r.Quick())
	maxLen, permLen := 2, 3
	if !r.Quick() {
		maxLen, permLen = 3, 4
	}
	r.Rule(fmt.Sprintf("all instruction lists of length <= %d over an alphabet of %d (variable,value) tokens (16 variables x valid/boundary/malformed value classes: empty, wrong type, truncated, trailing byte, out of range, negative), for the device and the owner view, compared field by field with a table-driven reference interpreter written on refcbor; plus every permutation of every list of <= %d tokens with distinct variables from the valid-token set (must yield the identical directive), plus multi-directive index alignment. distinct = distinct resulting directives.", maxLen, len(al), permLen))
	// all lists up to maxLen
	var wg sync.WaitGroup
	sem := make(chan struct{}, 16)
	checkList(nil)
	for i := range al {
		wg.Add(1)
		sem <- struct{}{}
		go func() {
			defer wg.Done()
			defer func() { <-sem }()
			checkList([]tok{al[i]})
			for j := range al {
				checkList([]tok{al[i], al[j]})
				if maxLen >= 3 {
					for k := range al {
						checkList([]tok{al[i], al[j], al[k]})
					}
				}
			}
		}()
	}
	wg.Wait()
	r.Sample(4, map[string]any{"list": describe([]tok{al[5], al[len(al)/2]}), "views": "device+owner"})
	// permutations of distinct-variable lists over valid tokens (one representative token per variable + alternates)
	var valid []tok
	seenVar := map[protocol.RvVar]int{}
	for _, t := range al {
		if strings.HasPrefix(t.class, "valid") && seenVar[t.v] < 2 && t.v != protocol.RVDevOnly && t.v != protocol.RVOwnerOnly {
			valid = append(valid, t)
			seenVar[t.v]++
		}
	}
	sort.SliceStable(valid, func(i, j int) bool { return valid[i].v < valid[j].v })
	var perms, sets int64
	var choose func(start int, cur []tok)
	choose = func(start int, cur []tok) {
		if len(cur) >= 2 {
			sets++
			for _, device := range []bool{true, false} {
				base, ok := parse(cur, device)
				if !ok {
					continue
				}
				b := render(base)
				permutations(append([]tok{}, cur...), func(p []tok) {
					perms++
					r.Evaluations.Add(1)
					g, ok := parse(p, device)
					if ok && render(g) != b {
						r.Violation("order-dependence", fmt.Sprintf("distinct instructions %v give %s but the order %v gives %s (device=%v)", describe(cur), b, describe(p), render(g), device), map[string]any{"list": describe(p), "device": device})
					}
				})
			}
		}
		if len(cur) == permLen {
			return
		}
		for i := start; i < len(valid); i++ {
			dupVar := false
			for _, c := range cur {
				if c.v == valid[i].v {
					dupVar = true
				}
			}
			if !dupVar {
				choose(i+1, append(cur, valid[i]))
			}
		}
	}
	choose(0, nil)
	r.Set("permutation_sets", sets)
	r.Set("permutations_checked", perms)
	// multi-directive alignment
	for i := 0; i+2 < len(al); i += 7 {
		r.Evaluations.Add(1)
		info := [][]protocol.RvInstruction{{{Variable: al[i].v, Value: al[i].val}}, {{Variable: protocol.RVOwnerOnly}}, {{Variable: al[i+2].v, Value: al[i+2].val}}}
		var ds []protocol.RvDirective
		if p := probe.Call(func() { ds = protocol.ParseDeviceRvInfo(info) }); p != nil {
			r.Violation(p.Key(), "multi-directive parse panics: "+p.Value, nil)
			continue
		}
		a, ok1 := parse([]tok{al[i]}, true)
		c, ok2 := parse([]tok{al[i+2]}, true)
		if ok1 && ok2 && (len(ds) != 3 || render(ds[0]) != render(a) || render(ds[2]) != render(c) || len(ds[1].URLs) != 0) {
			r.Violation("multi-directive", "directives are not parsed independently / positionally", map[string]any{"i": i})
		}
	}
	r.Assume("reference tables transcribed from the CDDL/variable comments of protocol/rv.go and the FDO 1.1 rendezvous variable table; where not explicit (IP byte strings of other lengths, delays outside uint32, negative delays, duplicated variables) the affected field is don't-care")
	r.Finish()
}
