package main

import (
	"fmt"
	"time"

	"verif/internal/corpus"
	"verif/internal/refcbor"
)

func main() {
	t := time.Now()
	ms := corpus.Messages()
	fmt.Println(len(ms), "messages in", time.Since(t))
	for _, m := range ms {
		err := refcbor.Canonical(m.Bytes)
		it, _, _ := refcbor.Parse(m.Bytes)
		s := it.String()
		if len(s) > 100 {
			s = s[:100]
		}
		fmt.Printf("%-28s %-28s %5d canon=%v %s\n", m.Name, m.Target, len(m.Bytes), err, s)
	}
}
