package main

import (
	"crypto/ecdsa"
	"crypto/rsa"
	"fmt"

	"github.com/fido-device-onboard/go-fdo/protocol"
)

func encodePub(t protocol.KeyType, enc protocol.KeyEncoding, pub any) (*protocol.PublicKey, error) {
	switch p := pub.(type) {
	case *ecdsa.PublicKey:
		return protocol.NewPublicKey(t, p, enc == protocol.CoseKeyEnc)
	case *rsa.PublicKey:
		return protocol.NewPublicKey(t, p, enc == protocol.CoseKeyEnc)
	}
	return nil, fmt.Errorf("unsupported key %T", pub)
}
