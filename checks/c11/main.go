// C11 — CBOR encoding is canonical and decode/encode are mutual inverses.
//
// Small-scope exhaustive enumeration of the data model x Go target shapes on the real go-fdo/cbor,
// differential against the independent reference codec (internal/refcbor).
package main

import (
	"bytes"
	"crypto"
	"crypto/x509"
	"encoding/hex"
	"fmt"
	"math"
	"net"
	"reflect"
	"sort"
	"strings"
	"sync"
	"time"

	fdo "github.com/fido-device-onboard/go-fdo"
	"github.com/fido-device-onboard/go-fdo/blob"
	"github.com/fido-device-onboard/go-fdo/cbor"
	"github.com/fido-device-onboard/go-fdo/cose"
	"github.com/fido-device-onboard/go-fdo/protocol"
	"github.com/fido-device-onboard/go-fdo/serviceinfo"

	"verif/internal/corpus"
	"verif/internal/ev"
	"verif/internal/keys"
	"verif/internal/probe"
	rc "verif/internal/refcbor"
	"verif/internal/targets"
)

var r *ev.Run

func hx(b []byte) string {
	if len(b) > 64 {
		return hex.EncodeToString(b[:64]) + "..."
	}
	return hex.EncodeToString(b)
}

// ---- value equality with nil==empty normalisation, exported fields only ----

func eq(a, b reflect.Value) bool {
	if !a.IsValid() || !b.IsValid() {
		return a.IsValid() == b.IsValid()
	}
	if a.Type() != b.Type() {
		// integers held in `any` come back as int64 whatever width went in
		if (a.CanInt() || a.CanUint()) && (b.CanInt() || b.CanUint()) {
			return fmt.Sprint(a.Interface()) == fmt.Sprint(b.Interface())
		}
		// values held in `any` (e.g. cose.Key entries) may come back as the generic type: compare encodings
		ab, aerr := cbor.Marshal(a.Interface())
		bb, berr := cbor.Marshal(b.Interface())
		return aerr == nil && berr == nil && bytes.Equal(ab, bb)
	}
	switch v := a.Interface().(type) {
	case time.Time:
		return v.Equal(b.Interface().(time.Time))
	case cbor.Timestamp:
		return time.Time(v).Equal(time.Time(b.Interface().(cbor.Timestamp)))
	case cbor.X509Certificate:
		return bytes.Equal(v.Raw, b.Interface().(cbor.X509Certificate).Raw)
	case cbor.X509CertificateRequest:
		return bytes.Equal(v.Raw, b.Interface().(cbor.X509CertificateRequest).Raw)
	case net.IP:
		return v.Equal(b.Interface().(net.IP))
	}
	switch a.Kind() {
	case reflect.Slice:
		if a.Len() != b.Len() {
			return false
		}
		for i := 0; i < a.Len(); i++ {
			if !eq(a.Index(i), b.Index(i)) {
				return false
			}
		}
		return true
	case reflect.Array:
		for i := 0; i < a.Len(); i++ {
			if !eq(a.Index(i), b.Index(i)) {
				return false
			}
		}
		return true
	case reflect.Map:
		if a.Len() != b.Len() {
			return false
		}
		for _, k := range a.MapKeys() {
			bv := b.MapIndex(k)
			if !bv.IsValid() || !eq(a.MapIndex(k), bv) {
				return false
			}
		}
		return true
	case reflect.Pointer, reflect.Interface:
		if a.IsNil() || b.IsNil() {
			return a.IsNil() == b.IsNil()
		}
		return eq(a.Elem(), b.Elem())
	case reflect.Struct:
		for i := 0; i < a.NumField(); i++ {
			f := a.Type().Field(i)
			if !f.IsExported() || f.Tag.Get("cbor") == "-" {
				continue
			}
			if !eq(a.Field(i), b.Field(i)) {
				return false
			}
		}
		return true
	default:
		return a.Interface() == b.Interface()
	}
}

// roundTrip checks: Marshal deterministic, == reference encoding (if want != nil), canonical, decodes back to
// an equal value, and re-encodes to the same bytes.
func roundTrip[T any](class string, v T, want *rc.Item) {
	r.Evaluations.Add(1)
	var b1, b2 []byte
	var err error
	if p := probe.Call(func() { b1, err = cbor.Marshal(v); b2, _ = cbor.Marshal(v) }); p != nil {
		r.Violation("marshal-panic:"+class, fmt.Sprintf("Marshal(%T %+v) panics: %s in %s", v, v, p.Value, p.Frame), map[string]any{"class": class, "value": fmt.Sprintf("%+v", v)})
		return
	}
	if err != nil {
		r.Violation("marshal:"+class, fmt.Sprintf("Marshal(%T %+v) fails: %v", v, v, err), map[string]any{"class": class, "value": fmt.Sprintf("%+v", v)})
		return
	}
	if !bytes.Equal(b1, b2) {
		r.Violation("nondeterministic:"+class, fmt.Sprintf("Marshal(%T) gave %s then %s", v, hx(b1), hx(b2)), map[string]any{"class": class})
	}
	if want != nil {
		if wb := rc.Encode(want); !bytes.Equal(wb, b1) {
			r.Violation("encoding:"+class, fmt.Sprintf("Marshal(%T %+v) = %s, reference canonical encoding of %s is %s", v, v, hx(b1), want, hx(wb)), map[string]any{"class": class, "got": hx(b1), "want": hx(wb)})
			return
		}
	}
	if cerr := rc.Canonical(b1); cerr != nil {
		r.Violation("noncanonical:"+class, fmt.Sprintf("Marshal(%T %+v) = %s is not canonical: %v", v, v, hx(b1), cerr), map[string]any{"class": class, "got": hx(b1)})
	}
	var back T
	var uerr error
	if p := probe.Call(func() { uerr = cbor.Unmarshal(b1, &back) }); p != nil {
		r.Violation("unmarshal-panic:"+class, fmt.Sprintf("Unmarshal(%s) into %T panics: %s in %s", hx(b1), v, p.Value, p.Frame), map[string]any{"class": class, "bytes": hx(b1)})
		return
	}
	if uerr != nil {
		r.Violation("roundtrip:"+class, fmt.Sprintf("Unmarshal(Marshal(%T %+v)=%s) fails: %v", v, v, hx(b1), uerr), map[string]any{"class": class, "bytes": hx(b1)})
		return
	}
	if !eq(reflect.ValueOf(&v).Elem(), reflect.ValueOf(&back).Elem()) {
		r.Violation("roundtrip:"+class, fmt.Sprintf("decode(encode(v)) != v for %T: v=%+v back=%+v bytes=%s", v, v, back, hx(b1)), map[string]any{"class": class, "bytes": hx(b1)})
		return
	}
	b3, err := cbor.Marshal(back)
	if err != nil || !bytes.Equal(b3, b1) {
		r.Violation("reencode:"+class, fmt.Sprintf("encode(decode(b)) != b for %T: b=%s re=%s err=%v", v, hx(b1), hx(b3), err), map[string]any{"class": class, "bytes": hx(b1)})
	}
	r.Distinct(class + "|" + hx(b1))
}

// ---- A: integers ----

var u64bounds = []uint64{0, 1, 22, 23, 24, 25, 254, 255, 256, 257, 65534, 65535, 65536, 65537, 1<<32 - 2, 1<<32 - 1, 1 << 32, 1<<32 + 1,
	1<<63 - 2, 1<<63 - 1, 1 << 63, 1<<63 + 1, 1<<64 - 2, 1<<64 - 1}

func ints() {
	for _, u := range u64bounds {
		roundTrip("uint64", u, rc.U(u))
		if u <= math.MaxUint32 {
			roundTrip("uint32", uint32(u), rc.U(u))
		}
		if u <= math.MaxInt64 {
			roundTrip("int64", int64(u), rc.U(u))
			roundTrip("int", int(u), rc.U(u))
			roundTrip("uint", uint(u), rc.U(u))
			n := -int64(u) - 1 // nint with argument u
			roundTrip(fmt.Sprintf("int64:%d", n), n, rc.N(u))
			if u <= math.MaxInt32 {
				roundTrip("int32", int32(n), rc.N(u))
				roundTrip("int32", int32(u), rc.U(u))
			}
			// into any: int64
			anyRT(rc.U(u))
			anyRT(rc.N(u))
		}
	}
	for i := 0; i < 65536; i++ {
		roundTrip("uint16", uint16(i), rc.U(uint64(i)))
		roundTrip("int16", int16(i), rc.Int(int64(int16(i))))
	}
	for i := 0; i < 256; i++ {
		roundTrip("uint8", uint8(i), rc.U(uint64(i)))
		roundTrip("int8", int8(i), rc.Int(int64(int8(i))))
	}
	// narrow targets reject out-of-range values instead of truncating
	for _, c := range []struct {
		it  *rc.Item
		new func() any
		n   string
	}{{rc.U(256), func() any { return new(uint8) }, "uint8"}, {rc.U(128), func() any { return new(int8) }, "int8"}, {rc.N(128), func() any { return new(int8) }, "int8"},
		{rc.U(65536), func() any { return new(uint16) }, "uint16"}, {rc.N(32768), func() any { return new(int16) }, "int16"}, {rc.U(1 << 32), func() any { return new(uint32) }, "uint32"},
		{rc.N(1 << 31), func() any { return new(int32) }, "int32"}, {rc.U(1 << 63), func() any { return new(int64) }, "int64"}, {rc.N(1 << 63), func() any { return new(int64) }, "int64"},
		{rc.N(0), func() any { return new(uint64) }, "uint64"}} {
		r.Evaluations.Add(1)
		b := rc.Encode(c.it)
		if err := cbor.Unmarshal(b, c.new()); err == nil {
			r.Violation("overflow-accepted:"+c.n, fmt.Sprintf("Unmarshal(%s = %s) into %s succeeded although the value does not fit", hx(b), c.it, c.n), map[string]any{"bytes": hx(b), "target": c.n})
		}
	}
}

// ---- C: generic model values decoded into `any` ----

// toGo converts a model item into the Go value the library documents for decoding into any.
func toGo(it *rc.Item) (any, bool) {
	switch it.Kind {
	case rc.Uint:
		if it.U > math.MaxInt64 {
			return nil, false
		}
		return int64(it.U), true
	case rc.Nint:
		if it.U > math.MaxInt64 {
			return nil, false
		}
		return -int64(it.U) - 1, true
	case rc.Bytes:
		return append([]byte{}, it.B...), true
	case rc.Text:
		return string(it.B), true
	case rc.Array:
		out := make([]any, len(it.Items))
		for i, c := range it.Items {
			v, ok := toGo(c)
			if !ok {
				return nil, false
			}
			out[i] = v
		}
		return out, true
	case rc.Map:
		out := map[any]any{}
		for i := 0; i+1 < len(it.Items); i += 2 {
			k, ok := toGo(it.Items[i])
			if !ok {
				return nil, false
			}
			switch k.(type) {
			case int64, string:
			default:
				return nil, false
			}
			v, ok := toGo(it.Items[i+1])
			if !ok {
				return nil, false
			}
			out[k] = v
		}
		return out, true
	case rc.Tag:
		return cbor.Tag[cbor.RawBytes]{Num: it.U, Val: rc.Encode(it.Items[0])}, true
	case rc.Simple:
		switch it.U {
		case 20:
			return false, true
		case 21:
			return true, true
		case 22:
			return nil, true
		}
	}
	return nil, false
}

func anyRT(it *rc.Item) {
	gv, ok := toGo(it)
	if !ok {
		return
	}
	r.Evaluations.Add(1)
	want := rc.Encode(it)
	got, err := cbor.Marshal(gv)
	if err != nil || !bytes.Equal(got, want) {
		r.Violation("encoding:any:"+kindClass(it), fmt.Sprintf("Marshal(%#v) = %s err=%v, reference canonical encoding of %s is %s", gv, hx(got), err, it, hx(want)), map[string]any{"model": it.String(), "got": hx(got), "want": hx(want)})
		return
	}
	var back any
	if p := probe.Call(func() { err = cbor.Unmarshal(want, &back) }); p != nil {
		r.Violation("unmarshal-panic:any", fmt.Sprintf("Unmarshal(%s) into any panics: %s", hx(want), p.Value), map[string]any{"bytes": hx(want)})
		return
	}
	if err != nil {
		r.Violation("roundtrip:any:"+kindClass(it), fmt.Sprintf("Unmarshal(%s = %s) into any fails: %v", hx(want), it, err), map[string]any{"bytes": hx(want)})
		return
	}
	if !eq(reflect.ValueOf(&gv).Elem(), reflect.ValueOf(&back).Elem()) {
		r.Violation("roundtrip:any:"+kindClass(it), fmt.Sprintf("decode(%s = %s) into any gave %#v, expected %#v", hx(want), it, back, gv), map[string]any{"bytes": hx(want)})
		return
	}
	re, err := cbor.Marshal(back)
	if err != nil || !bytes.Equal(re, want) {
		r.Violation("reencode:any:"+kindClass(it), fmt.Sprintf("encode(decode(b)) != b: b=%s re=%s err=%v", hx(want), hx(re), err), map[string]any{"bytes": hx(want)})
	}
	r.Distinct("any|" + hx(want))
}

// bytesRT: encode(decode(b)) == b for a canonical b decoded into a typed target.
func bytesRT[T any](class string, b []byte) {
	r.Evaluations.Add(1)
	var v T
	var err error
	if p := probe.Call(func() { err = cbor.Unmarshal(b, &v) }); p != nil {
		r.Violation("unmarshal-panic:"+class, fmt.Sprintf("Unmarshal(%s) into %T panics: %s", hx(b), v, p.Value), map[string]any{"bytes": hx(b)})
		return
	}
	if err != nil {
		r.Violation("roundtrip:"+class, fmt.Sprintf("Unmarshal(%s) into %T fails: %v", hx(b), v, err), map[string]any{"bytes": hx(b)})
		return
	}
	re, err := cbor.Marshal(v)
	if err != nil || !bytes.Equal(re, b) {
		r.Violation("reencode:"+class, fmt.Sprintf("encode(decode(b)) != b for %T: b=%s re=%s err=%v", v, hx(b), hx(re), err), map[string]any{"bytes": hx(b)})
	}
	r.Distinct(class + "|" + hx(b))
}

// coseBytes: canonical COSE_Sign1 / COSE_Mac0 / COSE_Encrypt0 objects (as another implementation may produce them)
// whose protected and unprotected header maps carry a parameter of every value class under several labels; the
// object must come back byte for byte (hashes and signatures are computed over re-encoded headers).
func coseBytes() {
	vals := []*rc.Item{rc.Int(-7), rc.U(0), rc.U(1 << 40), rc.Bs(nil), rc.Bs([]byte{1, 2}), rc.T(""), rc.T("x"), rc.Null(), rc.Bool(true), rc.Bool(false),
		rc.A(), rc.A(rc.U(1), rc.T("y")), rc.M(), rc.M(rc.U(1), rc.U(2)), rc.Tg(1, rc.U(5)), rc.Tg(32, rc.T("u"))}
	labels := []*rc.Item{rc.U(4), rc.U(5), rc.U(100), rc.N(258), rc.T("x")}
	for _, l := range labels {
		for _, v := range vals {
			prot := rc.Encode(rc.M(rc.U(1), rc.Int(-7), l, v))
			for _, hdr := range [][2]*rc.Item{{rc.Bs(prot), rc.M()}, {rc.Bs(rc.Encode(rc.M(rc.U(1), rc.Int(-7)))), rc.M(l, v)}, {rc.Bs(nil), rc.M(l, v)}} {
				bytesRT[cose.Sign1Tag[cbor.RawBytes, []byte]]("cose.Sign1:header-param", rc.Encode(rc.Tg(18, rc.A(hdr[0], hdr[1], rc.Bs([]byte{0x01}), rc.Bs(make([]byte, 64))))))
				bytesRT[cose.Mac0Tag[cbor.RawBytes, []byte]]("cose.Mac0:header-param", rc.Encode(rc.Tg(17, rc.A(hdr[0], hdr[1], rc.Bs([]byte{0x01}), rc.Bs(make([]byte, 32))))))
				bytesRT[cose.Encrypt0Tag[cbor.RawBytes, []byte]]("cose.Encrypt0:header-param", rc.Encode(rc.Tg(16, rc.A(hdr[0], hdr[1], rc.Bs([]byte{9, 9, 9})))))
			}
			bytesRT[cose.HeaderMap]("cose.HeaderMap:param", rc.Encode(rc.M(l, v)))
		}
	}
}

func kindClass(it *rc.Item) string {
	return []string{"uint", "nint", "bytes", "text", "array", "map", "tag", "simple"}[it.Kind]
}

func modelValues(depth int, thorough bool) []*rc.Item {
	leaves := []*rc.Item{rc.U(0), rc.U(23), rc.U(24), rc.U(255), rc.U(256), rc.U(65535), rc.U(65536), rc.U(1<<32 - 1), rc.U(1 << 32), rc.U(1<<63 - 1),
		rc.N(0), rc.N(23), rc.N(24), rc.N(255), rc.N(256), rc.N(1<<63 - 1),
		rc.Bs(nil), rc.Bs([]byte{1}), rc.Bs(bytes.Repeat([]byte{7}, 24)), rc.T(""), rc.T("a"), rc.T(strings.Repeat("x", 24)),
		rc.Bool(true), rc.Bool(false)}
	if thorough {
		leaves = append(leaves, rc.Bs(bytes.Repeat([]byte{9}, 256)), rc.T(strings.Repeat("y", 255)), rc.U(100), rc.N(99), rc.Null())
	}
	keys := []*rc.Item{rc.U(0), rc.U(10), rc.U(24), rc.U(100), rc.U(1000), rc.N(0), rc.N(24), rc.T(""), rc.T("a"), rc.T("b"), rc.T("aa"), rc.T(strings.Repeat("k", 24)), rc.U(1 << 32)}
	level := leaves
	all := append([]*rc.Item{}, leaves...)
	for d := 1; d <= depth; d++ {
		var next []*rc.Item
		sub := level
		nsub, npair := 60, 12
		if thorough {
			nsub, npair = 400, 60
		}
		if len(sub) > nsub { // keep the closure finite: a prefix of the previous level (ordered simplest-first)
			sub = sub[:nsub]
		}
		next = append(next, rc.A())
		for _, x := range sub {
			next = append(next, rc.A(x), rc.Tg(0, x), rc.Tg(18, x), rc.Tg(1<<64-1, x))
			for _, y := range sub[:min(len(sub), npair)] {
				next = append(next, rc.A(x, y))
			}
		}
		next = append(next, rc.A(repeat(rc.U(1), 24)...), rc.A(repeat(rc.T("z"), 256)...))
		next = append(next, rc.M())
		// maps: every subset of size 1..3 of the key set in every insertion order collapses to one Go map;
		// enumerate all subsets of size <=2 and all of size 3 from the first 8 keys
		for i, k1 := range keys {
			next = append(next, rc.M(k1, sub[i%len(sub)]))
			for j, k2 := range keys {
				if j <= i {
					continue
				}
				next = append(next, rc.M(k2, sub[j%len(sub)], k1, sub[i%len(sub)]))
				if j < 8 {
					for l := j + 1; l < 8; l++ {
						next = append(next, rc.M(keys[l], rc.U(3), k1, rc.U(1), k2, rc.U(2)))
					}
				}
			}
		}
		all = append(all, next...)
		level = next
	}
	return all
}

func repeat(x *rc.Item, n int) []*rc.Item {
	out := make([]*rc.Item, n)
	for i := range out {
		out[i] = x
	}
	return out
}

// ---- D: Go shapes ----

type sWeights struct {
	A int    `cbor:"1"`
	B string `cbor:"0"`
	C bool   `cbor:"-"`
	d int
}
type sOmit struct {
	A int
	B []byte `cbor:",omitempty"`
}
type sOmitMid struct {
	A int
	B *int `cbor:",omitempty"`
	C string
}
type EInner struct {
	X uint8
	Y string
}
type sEmbed struct {
	EInner
	Z bool
}
type sEmbedPtr struct {
	*EInner
	Z bool
}
type sPtrs struct {
	A *int
	B *string
	C *[]byte
	D *EInner
}
type sArr struct {
	A [4]byte
	B [2]int
	C []uint16
	D [][]byte
}
type sMaps struct {
	A map[int]string
	B map[string][]byte
}
type sFlat struct {
	cose.Header `cbor:",flat2"`
	N           int
}
type sNested struct {
	A EInner
	B []EInner
	C cbor.Bstr[EInner]
	D *cbor.Bstr[[]int]
	E cbor.Tag[EInner]
}

// anonymous embedding to depth 5, fields before and after the embedded struct at every level, several fields in
// the innermost one: the array is the fields flattened in declaration order, whatever the depth
type D5 struct {
	P uint8
	Q string
	R bool
}
type D4 struct {
	A4 int
	D5
	Z4 string
}
type D3 struct {
	A3 int
	D4
	Z3 string
}
type D2 struct {
	D3
	Z2 int
}
type D1 struct {
	A1 string
	D2
}
type sDeep5 struct {
	D1
	Last bool
}
type sDeep4 struct {
	D2
	Last bool
}
type sDeep3 struct {
	First int
	D3
}
type sDeep2 struct {
	D4
	Last bool
}
type P3 struct {
	A3 int
	*D4
	Z3 string
}
type sDeepPtr struct {
	First int
	P3
	Last bool
}

func ip(i int) *int { return &i }

func shapes() {
	for _, a := range []int{0, 1, -1, 24, 1 << 40} {
		for _, b := range []string{"", "IETF", strings.Repeat("s", 24)} {
			roundTrip("struct-weights", sWeights{A: a, B: b, C: true}, rc.A(rc.T(b), rc.Int(int64(a))))
			for _, bs := range [][]byte{nil, {}, {1}, bytes.Repeat([]byte{1}, 24)} {
				want := rc.A(rc.Int(int64(a)), rc.Bs(bs))
				if len(bs) == 0 {
					want = rc.A(rc.Int(int64(a)))
				}
				roundTrip("struct-omitempty", sOmit{A: a, B: bs}, want)
			}
			for _, p := range []*int{nil, ip(0), ip(5)} {
				want := rc.A(rc.Int(int64(a)), rc.T(b))
				if p != nil {
					want = rc.A(rc.Int(int64(a)), rc.Int(int64(*p)), rc.T(b))
				}
				roundTrip("struct-omitempty-mid", sOmitMid{A: a, B: p, C: b}, want)
			}
		}
	}
	for _, x := range []uint8{0, 23, 24, 255} {
		for _, z := range []bool{false, true} {
			roundTrip("struct-embedded", sEmbed{EInner{x, "y"}, z}, rc.A(rc.U(uint64(x)), rc.T("y"), rc.Bool(z)))
			roundTrip("struct-embedded-ptr", sEmbedPtr{&EInner{x, "y"}, z}, rc.A(rc.U(uint64(x)), rc.T("y"), rc.Bool(z)))
		}
	}
	for _, x := range []uint8{0, 24} {
		for _, q := range []string{"", "IETF"} {
			d5 := D5{x, q, true}
			in5 := []*rc.Item{rc.U(uint64(x)), rc.T(q), rc.Bool(true)}
			d4 := D4{-4, d5, "z4"}
			in4 := append(append([]*rc.Item{rc.Int(-4)}, in5...), rc.T("z4"))
			d3 := D3{3, d4, "z3"}
			in3 := append(append([]*rc.Item{rc.U(3)}, in4...), rc.T("z3"))
			d2 := D2{d3, 2}
			in2 := append(append([]*rc.Item{}, in3...), rc.U(2))
			d1 := D1{"a1", d2}
			in1 := append([]*rc.Item{rc.T("a1")}, in2...)
			roundTrip("struct-embedded-depth2", sDeep2{d4, true}, rc.A(append(append([]*rc.Item{}, in4...), rc.Bool(true))...))
			roundTrip("struct-embedded-depth3", sDeep3{9, d3}, rc.A(append([]*rc.Item{rc.U(9)}, in3...)...))
			roundTrip("struct-embedded-depth4", sDeep4{d2, false}, rc.A(append(append([]*rc.Item{}, in2...), rc.Bool(false))...))
			roundTrip("struct-embedded-depth5", sDeep5{d1, true}, rc.A(append(append([]*rc.Item{}, in1...), rc.Bool(true))...))
			roundTrip("struct-embedded-depth3-ptr", sDeepPtr{1, P3{3, &d4, "z3"}, true}, rc.A(append(append([]*rc.Item{rc.U(1)}, in3...), rc.Bool(true))...))
		}
	}
	five := 5
	_ = five
	bs := []byte{1, 2}
	str := "s"
	for _, v := range []sPtrs{{}, {A: &five}, {A: &five, B: &str, C: &bs, D: &EInner{1, "q"}}} {
		item := func(ok bool, it *rc.Item) *rc.Item {
			if ok {
				return it
			}
			return rc.Null()
		}
		roundTrip("struct-pointers", v, rc.A(item(v.A != nil, rc.U(5)), item(v.B != nil, rc.T("s")), item(v.C != nil, rc.Bs(bs)), item(v.D != nil, rc.A(rc.U(1), rc.T("q")))))
	}
	roundTrip("struct-arrays", sArr{[4]byte{1, 2, 3, 4}, [2]int{-1, 256}, []uint16{0, 65535}, [][]byte{{}, {9}}},
		rc.A(rc.Bs([]byte{1, 2, 3, 4}), rc.A(rc.N(0), rc.U(256)), rc.A(rc.U(0), rc.U(65535)), rc.A(rc.Bs(nil), rc.Bs([]byte{9}))))
	roundTrip("struct-arrays", sArr{C: []uint16{}, D: [][]byte{}}, rc.A(rc.Bs(make([]byte, 4)), rc.A(rc.U(0), rc.U(0)), rc.A(), rc.A()))
	roundTrip("struct-maps", sMaps{map[int]string{1: "a", -1: "b", 1000: "c", 24: "d"}, map[string][]byte{"": {1}, "b": {}, "aa": nil}},
		rc.A(rc.M(rc.U(1), rc.T("a"), rc.N(0), rc.T("b"), rc.U(1000), rc.T("c"), rc.U(24), rc.T("d")), rc.M(rc.T(""), rc.Bs([]byte{1}), rc.T("b"), rc.Bs(nil), rc.T("aa"), rc.Bs(nil))))
	roundTrip("struct-empty", struct{}{}, rc.A())
	roundTrip("struct-nested", sNested{EInner{1, "a"}, []EInner{{2, "b"}, {3, ""}}, cbor.Bstr[EInner]{Val: EInner{4, "c"}}, cbor.NewBstr([]int{1, -1}), cbor.Tag[EInner]{Num: 99, Val: EInner{5, "d"}}},
		rc.A(rc.A(rc.U(1), rc.T("a")), rc.A(rc.A(rc.U(2), rc.T("b")), rc.A(rc.U(3), rc.T(""))), rc.Bs(rc.Encode(rc.A(rc.U(4), rc.T("c")))), rc.Bs(rc.Encode(rc.A(rc.U(1), rc.N(0)))), rc.Tg(99, rc.A(rc.U(5), rc.T("d")))))
	roundTrip("struct-flat2", sFlat{cose.Header{Protected: cose.HeaderMap{cose.AlgLabel: int64(-7)}, Unprotected: cose.HeaderMap{cose.Label{Int64: 5}: []byte{1, 2}}}, 7},
		rc.A(rc.Bs(rc.Encode(rc.M(rc.U(1), rc.N(6)))), rc.M(rc.U(5), rc.Bs([]byte{1, 2})), rc.U(7)))
	roundTrip("struct-flat2", sFlat{cose.Header{Protected: cose.HeaderMap{}, Unprotected: cose.HeaderMap{}}, 0}, rc.A(rc.Bs(nil), rc.M(), rc.U(0)))
	// slices, arrays, pointers at top level
	roundTrip("[]int", []int{0, -1, 24, 65536}, rc.A(rc.U(0), rc.N(0), rc.U(24), rc.U(65536)))
	roundTrip("[]string", []string{}, rc.A())
	roundTrip("[3]int", [3]int{1, 2, 3}, rc.A(rc.U(1), rc.U(2), rc.U(3)))
	roundTrip("[16]byte", [16]byte{15: 1}, rc.Bs(append(make([]byte, 15), 1)))
	roundTrip("*int", ip(3), rc.U(3))
	roundTrip("*int-nil", (*int)(nil), rc.Null())
	roundTrip("map[int]int", map[int]int{}, rc.M())
	for n := range []int{0, 1, 23, 24, 255, 256} {
		m := map[int]int{}
		var kv []*rc.Item
		for i := 0; i < n; i++ {
			m[i*37-100] = i
			kv = append(kv, rc.Int(int64(i*37-100)), rc.U(uint64(i)))
		}
		roundTrip("map[int]int", m, rc.M(kv...))
	}
	for _, n := range []int{0, 1, 23, 24, 255, 256, 65535, 65536, 99999} {
		roundTrip("[]byte-len", bytes.Repeat([]byte{0xab}, n), rc.Bs(bytes.Repeat([]byte{0xab}, n)))
		roundTrip("string-len", strings.Repeat("s", n), rc.T(strings.Repeat("s", n)))
		if n <= 65536 {
			roundTrip("[]bool-len", make([]bool, n), rc.A(repeat(rc.Bool(false), n)...))
		}
	}
}

// ---- E: convention types ----

func conventions() {
	for _, n := range []uint64{0, 1, 18, 23, 24, 255, 256, 65536, 1 << 32, 1<<64 - 1} {
		roundTrip("Tag[string]", cbor.Tag[string]{Num: n, Val: "life"}, rc.Tg(n, rc.T("life")))
		roundTrip("Tag[[]int]", cbor.Tag[[]int]{Num: n, Val: []int{1}}, rc.Tg(n, rc.A(rc.U(1))))
		roundTrip("Tag[RawBytes]", cbor.Tag[cbor.RawBytes]{Num: n, Val: cbor.RawBytes{0x82, 0x01, 0x02}}, rc.Tg(n, rc.A(rc.U(1), rc.U(2))))
	}
	roundTrip("Bstr[int]", cbor.Bstr[int]{Val: -25}, rc.Bs(rc.Encode(rc.N(24))))
	roundTrip("Bstr[[]byte]", cbor.Bstr[[]byte]{Val: []byte{1, 2}}, rc.Bs(rc.Encode(rc.Bs([]byte{1, 2}))))
	roundTrip("Bstr[struct]", cbor.Bstr[EInner]{Val: EInner{1, "x"}}, rc.Bs(rc.Encode(rc.A(rc.U(1), rc.T("x")))))
	roundTrip("Bstr[map]", cbor.Bstr[map[int][]byte]{Val: map[int][]byte{1: {2}}}, rc.Bs(rc.Encode(rc.M(rc.U(1), rc.Bs([]byte{2})))))
	roundTrip("ByteWrap[[]byte]", cbor.ByteWrap[[]byte]{Val: []byte{1, 2, 3}}, rc.Bs([]byte{1, 2, 3}))
	roundTrip("ByteWrap[[]byte]", cbor.ByteWrap[[]byte]{Val: []byte{}}, rc.Bs(nil))
	roundTrip("ByteWrap[struct]", cbor.ByteWrap[EInner]{Val: EInner{9, ""}}, rc.Bs(rc.Encode(rc.A(rc.U(9), rc.T("")))))
	roundTrip("RawBytes", cbor.RawBytes{0x83, 0x01, 0x41, 0x00, 0xf6}, rc.A(rc.U(1), rc.Bs([]byte{0}), rc.Null()))
	for _, s := range []int64{1, 59, 60, 61, 3600, 1700000000, 1<<32 + 5} {
		roundTrip("Timestamp", cbor.Timestamp(time.Unix(s, 0)), rc.Tg(1, rc.U(uint64(s))))
	}
	roundTrip("Timestamp", cbor.Timestamp(time.Time{}), rc.Null())
	for _, alg := range []string{"ec256", "ec384", "rsa2048"} {
		k := keys.Get(alg, "mfg")
		cert := keys.SelfSigned(alg+"-mfg", k)
		roundTrip("*X509Certificate", (*cbor.X509Certificate)(cert), rc.Bs(cert.Raw))
		roundTrip("[]*X509Certificate", []*cbor.X509Certificate{(*cbor.X509Certificate)(cert), (*cbor.X509Certificate)(cert)}, rc.A(rc.Bs(cert.Raw), rc.Bs(cert.Raw)))
		der, err := x509.CreateCertificateRequest(zeroReader{}, &x509.CertificateRequest{}, k)
		if err == nil {
			if csr, err := x509.ParseCertificateRequest(der); err == nil {
				roundTrip("X509CertificateRequest", cbor.X509CertificateRequest(*csr), rc.Bs(csr.Raw))
			}
		}
	}
}

type zeroReader struct{}

func (zeroReader) Read(p []byte) (int, error) {
	for i := range p {
		p[i] = byte(i*7 + 1)
	}
	return len(p), nil
}

// ---- F: library types ----

func libraryTypes() {
	for _, v := range []cose.IntOrStr{{Int64: 1}, {Int64: -1}, {Int64: 256}, {Str: "alg"}, {Str: strings.Repeat("L", 24)}} {
		want := rc.Int(v.Int64)
		if v.Int64 == 0 {
			want = rc.T(v.Str)
		}
		cls := "cose.IntOrStr:int"
		if v.Int64 == 0 {
			cls = "cose.IntOrStr:text"
		}
		roundTrip(cls, v, want)
	}
	roundTrip("cose.HeaderMap", map[cose.Label]int{{Int64: 1}: -7, {Str: "x"}: 2, {Int64: -259}: 3}, rc.M(rc.U(1), rc.N(6), rc.T("x"), rc.U(2), rc.N(258), rc.U(3)))
	for _, h := range []protocol.Hash{{Algorithm: protocol.Sha256Hash, Value: make([]byte, 32)}, {Algorithm: protocol.HmacSha384Hash, Value: bytes.Repeat([]byte{1}, 48)}} {
		roundTrip("protocol.Hash", h, rc.A(rc.Int(int64(h.Algorithm)), rc.Bs(h.Value)))
	}
	roundTrip("protocol.RvInstruction", protocol.RvInstruction{Variable: protocol.RVBypass}, rc.A(rc.U(uint64(protocol.RVBypass))))
	roundTrip("protocol.RvInstruction", protocol.RvInstruction{Variable: protocol.RVDns, Value: []byte{0x61, 0x61}}, rc.A(rc.U(uint64(protocol.RVDns)), rc.Bs([]byte{0x61, 0x61})))
	dns, ipv := "owner.example", net.IP{10, 0, 0, 1}
	roundTrip("protocol.RvTO2Addr", protocol.RvTO2Addr{DNSAddress: &dns, Port: 8080, TransportProtocol: protocol.HTTPTransport}, rc.A(rc.Null(), rc.T(dns), rc.U(8080), rc.U(uint64(protocol.HTTPTransport))))
	roundTrip("protocol.RvTO2Addr", protocol.RvTO2Addr{IPAddress: &ipv, Port: 0, TransportProtocol: protocol.TLSTransport}, rc.A(rc.Bs(ipv), rc.Null(), rc.U(0), rc.U(uint64(protocol.TLSTransport))))
	cid := uint(77)
	roundTrip("protocol.ErrorMessage", protocol.ErrorMessage{Code: 500, PrevMsgType: 60, ErrString: "x", Timestamp: 1700000000}, rc.A(rc.U(500), rc.U(60), rc.T("x"), rc.U(1700000000), rc.Null()))
	roundTrip("protocol.ErrorMessage", protocol.ErrorMessage{Code: 1, PrevMsgType: 255, ErrString: "", Timestamp: -1, CorrelationID: &cid}, rc.A(rc.U(1), rc.U(255), rc.T(""), rc.N(0), rc.U(77)))
	roundTrip("serviceinfo.KV", serviceinfo.KV{Key: "devmod:active", Val: []byte{0xf5}}, rc.A(rc.T("devmod:active"), rc.Bs([]byte{0xf5})))
	roundTrip("serviceinfo.Devmod", serviceinfo.Devmod{Os: "linux", Arch: "a", Version: "v", Device: "d", Serial: []byte{1}, FileSep: ";", Bin: "b"}, nil)
	for _, k := range keys.Kinds {
		for _, enc := range k.Encodings() {
			key := keys.Get(k.Alg, "owner1")
			var pk *protocol.PublicKey
			var err error
			switch enc {
			case protocol.X5ChainKeyEnc:
				pk, err = protocol.NewPublicKey(k.Type, []*x509.Certificate{keys.SelfSigned(k.Alg+"-owner1", key)}, false)
			default:
				pk, err = labEncode(k.Type, enc, key.Public())
			}
			if err != nil {
				r.Violation("marshal:protocol.PublicKey", fmt.Sprintf("NewPublicKey(%s,%d): %v", k.Name, enc, err), nil)
				continue
			}
			roundTrip("protocol.PublicKey", *pk, nil)
			if got, perr := pk.Public(); perr != nil || !got.(interface{ Equal(x crypto.PublicKey) bool }).Equal(key.Public()) {
				r.Violation("roundtrip:protocol.PublicKey.Public", fmt.Sprintf("PublicKey(%s,enc %d).Public() != original: %v", k.Name, enc, perr), nil)
			}
			if enc == protocol.CoseKeyEnc {
				ck, err := cose.NewKey(key.Public())
				if err == nil {
					roundTrip("cose.Key", ck, nil)
				}
			}
		}
	}
	// every genuine protocol message: canonical, and encode(decode(b)) == b for its target type
	byName := map[string]targets.Target{}
	for _, t := range targets.All() {
		byName[t.Name] = t
	}
	for _, m := range corpus.Messages() {
		r.Evaluations.Add(1)
		if err := rc.Canonical(m.Bytes); err != nil {
			r.Violation("noncanonical:wire:"+m.Target, fmt.Sprintf("library-produced message %s is not canonical CBOR: %v (%s)", m.Name, err, hx(m.Bytes)), map[string]any{"msg": m.Name, "bytes": hx(m.Bytes)})
		}
		tg := byName[m.Target]
		if tg.New == nil {
			continue
		}
		v := tg.New()
		if err := cbor.Unmarshal(m.Bytes, v); err != nil {
			r.Violation("roundtrip:wire:"+m.Target, fmt.Sprintf("message %s does not decode into %s: %v", m.Name, m.Target, err), map[string]any{"msg": m.Name, "bytes": hx(m.Bytes)})
			continue
		}
		re, err := cbor.Marshal(v)
		if err != nil || !bytes.Equal(re, m.Bytes) {
			r.Violation("reencode:wire:"+m.Target, fmt.Sprintf("encode(decode(b)) != b for message %s as %s: b=%s re=%s err=%v", m.Name, m.Target, hx(m.Bytes), hx(re), err), map[string]any{"msg": m.Name, "bytes": hx(m.Bytes)})
			continue
		}
		r.Distinct("wire|" + m.Target + "|" + hx(m.Bytes))
	}
	// stored forms
	for _, m := range corpus.Messages() {
		if m.Target == "fdo.DeviceCredential" {
			var dc fdo.DeviceCredential
			if err := cbor.Unmarshal(m.Bytes, &dc); err == nil {
				roundTrip("blob.DeviceCredential", blob.DeviceCredential{Active: true, DeviceCredential: dc, HmacSecret: []byte{1, 2, 3}, PrivateKey: blob.Pkcs8Key{Signer: keys.Get("ec256", "device")}}, nil)
			}
		}
	}
}

func labEncode(t protocol.KeyType, enc protocol.KeyEncoding, pub any) (*protocol.PublicKey, error) {
	return encodePub(t, enc, pub)
}

func main() {
	r = ev.Start("C11", "exploration")
	depth := 2
	if !r.Quick() {
		depth = 3
	}
	r.Rule(fmt.Sprintf("exhaustive over: all int8/uint8/int16/uint16 values and every head-size boundary +-1 of the 64-bit range for each Go integer kind; byte/text/array lengths {0,1,23,24,255,256,65535,65536,99999}; the closure of boundary leaves under arrays, tags {0,18,2^64-1} and maps (all key subsets of size<=2, size 3 over 8 keys, int and text keys of different encoded lengths) to depth %d decoded into `any`; a catalogue of struct shapes (weights, '-', omitempty, embedded, *embedded, anonymous embedding to depth 5 with fields before and after every level, pointers, fixed arrays, maps, flat2, nested Bstr/Tag); every convention type; protocol/COSE types for all 14 key-type/encoding pairs; every plaintext message of honest DI/TO0/TO1/TO2 runs; canonical COSE_Sign1/Mac0/Encrypt0 objects and header maps carrying a parameter of each of 16 value classes (incl. null, empty and nested values, tags) under 5 labels in the protected or the unprotected map, which must re-encode byte for byte. Oracle per value: Marshal twice identical, equals refcbor canonical encoding of the independently written model, passes refcbor canonicality, Unmarshal gives an equal value (nil==empty), re-Marshal reproduces the bytes. distinct = distinct (class, encoding) pairs.", depth))
	var wg sync.WaitGroup
	for _, f := range []func(){ints, shapes, conventions, libraryTypes, coseBytes} {
		wg.Add(1)
		go func() { defer wg.Done(); f() }()
	}
	mv := modelValues(depth, !r.Quick())
	_ = sort.Ints
	r.Set("generic_model_values", len(mv))
	ch := make(chan *rc.Item, 1024)
	for w := 0; w < 16; w++ {
		wg.Add(1)
		go func() {
			defer wg.Done()
			for it := range ch {
				anyRT(it)
			}
		}()
	}
	for i, it := range mv {
		if i%5000 == 17 {
			r.Sample(6, map[string]any{"model": it.String(), "canonical_hex": hx(rc.Encode(it))})
		}
		ch <- it
	}
	close(ch)
	wg.Wait()
	r.Assume("decoding into `any` follows the documented mapping (uint>MaxInt64 and <-2^63 are outside it and skipped)")
	r.Assume("struct shapes with more than one omittable field are excluded, as the package documentation excludes them")
	r.Finish()
}
